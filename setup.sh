#!/bin/sh
# Offline setup: compile the harness once so later builds are warm.
export GOFLAGS=-mod=mod GOPROXY=off GOSUMDB=off GOTOOLCHAIN=local
HERE=$(cd "$(dirname "$0")" && pwd)
cd "$HERE/harness" || exit 1
mkdir -p "$HERE/.build" "$HERE/evidence" "$HERE/replays"
go build -o "$HERE/.build/verif.setup" ./cmd/verif && rm -f "$HERE/.build/verif.setup"
