#!/bin/sh
# Offline setup: compile the harness once in every variant the checks use (plain, overlay, -race)
# so that later builds are warm. Everything comes from files on disk.
export GOFLAGS=-mod=mod GOPROXY=off GOSUMDB=off GOTOOLCHAIN=local
HERE=$(cd "$(dirname "$0")" && pwd)
cd "$HERE/harness" || exit 1
mkdir -p "$HERE/.build" "$HERE/evidence" "$HERE/replays"
T="$HERE/.build/setup.$$"
mkdir -p "$T"
trap 'rm -rf "$T"' EXIT
go build -o "$T/verif" ./cmd/verif || exit 1
go build -o "$T/instr" ./cmd/instr || exit 1
for mode in time yield; do
  "$T/instr" -repo /repo -out "$T/ov-$mode" -mode "$mode" >/dev/null || exit 1
  go build -overlay "$T/ov-$mode/overlay.json" -o "$T/verif-$mode" ./cmd/verif || exit 1
done
# the race detector needs cgo; if it is unavailable C16 reports the race pass as skipped
go build -race -o "$T/verif-race" ./cmd/verif 2>/dev/null || echo "note: -race build unavailable"
(cd /repo && go build -o "$T/check" ./tools/check) || exit 1
exit 0
