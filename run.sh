#!/bin/sh
# usage: run.sh <id> <quick|thorough>   |   run.sh <id> --replay <file>
# Rebuilds the harness against /repo's current working tree, then runs one check.
export GOFLAGS=-mod=mod GOPROXY=off GOSUMDB=off GOTOOLCHAIN=local
HERE=$(cd "$(dirname "$0")" && pwd)
cd "$HERE/harness" || exit 2
mkdir -p "$HERE/.build"
# VERIF_REPO (default /repo) lets the same checks run against a scratch worktree of the library.
REPO="${VERIF_REPO:-/repo}"
export VERIF_REPO="$REPO"
MODFLAG=""
if [ "$REPO" != "/repo" ]; then
  sed "s#=> /repo#=> $REPO#" go.mod > "$HERE/.build/go.$$.mod"
  cp go.sum "$HERE/.build/go.$$.sum"
  MODFLAG="-modfile=$HERE/.build/go.$$.mod"
fi
BIN="$HERE/.build/verif.$$"
trap 'rm -f "$BIN" "$HERE/.build/go.$$.mod" "$HERE/.build/go.$$.sum"' EXIT
OVFLAGS=""
case "$1" in
  C12|C20) MODE=time ;;
  C16) MODE=yield ;;
  *) MODE="" ;;
esac
if [ -n "$MODE" ]; then
  # Instrumented copies of the CURRENT library sources (virtual clock seam / yield points); /repo is not touched.
  OVDIR="$HERE/.build/overlay.$$"
  trap 'rm -rf "$BIN" "$OVDIR" "$HERE/.build/go.$$.mod" "$HERE/.build/go.$$.sum"' EXIT
  if ! go run $MODFLAG ./cmd/instr -repo "$REPO" -out "$OVDIR" -mode "$MODE" >"$HERE/.build/build.$$.log" 2>&1; then
    echo "HARNESS-ERROR cannot instrument /repo's working tree:"; cat "$HERE/.build/build.$$.log"; rm -f "$HERE/.build/build.$$.log"; exit 2
  fi
  OVFLAGS="-overlay $OVDIR/overlay.json"
  export VERIF_OVERLAY="$MODE" VERIF_OVERLAY_DIR="$OVDIR"
fi
if ! go build $MODFLAG $OVFLAGS -o "$BIN" ./cmd/verif 2>"$HERE/.build/build.$$.log"; then
  echo "HARNESS-ERROR harness does not build against /repo's working tree:"
  cat "$HERE/.build/build.$$.log"; rm -f "$HERE/.build/build.$$.log"
  exit 2
fi
rm -f "$HERE/.build/build.$$.log"
if [ "$1" = "C16" ]; then
  # free-running pass under the race detector: same bodies, uninstrumented library
  RACEBIN="$HERE/.build/verif-race.$$"
  trap 'rm -rf "$BIN" "$OVDIR" "$RACEBIN" "$HERE/.build/go.$$.mod" "$HERE/.build/go.$$.sum"' EXIT
  if go build $MODFLAG -race -o "$RACEBIN" ./cmd/verif 2>"$HERE/.build/build.$$.log"; then
    export VERIF_RACE_BIN="$RACEBIN"
  else
    echo "note: -race build unavailable, race pass skipped:"; head -5 "$HERE/.build/build.$$.log"
  fi
  rm -f "$HERE/.build/build.$$.log"
fi
VERIF_ROOT="$HERE" "$BIN" "$@"
