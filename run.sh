#!/bin/sh
# usage: run.sh <id> <quick|thorough>   |   run.sh <id> --replay <file>
# Rebuilds the harness against /repo's current working tree, then runs one check.
export GOFLAGS=-mod=mod GOPROXY=off GOSUMDB=off GOTOOLCHAIN=local
HERE=$(cd "$(dirname "$0")" && pwd)
cd "$HERE/harness" || exit 2
mkdir -p "$HERE/.build"
BIN="$HERE/.build/verif.$$"
trap 'rm -f "$BIN"' EXIT
if ! go build -o "$BIN" ./cmd/verif 2>"$HERE/.build/build.$$.log"; then
  echo "HARNESS-ERROR harness does not build against /repo's working tree:"
  cat "$HERE/.build/build.$$.log"; rm -f "$HERE/.build/build.$$.log"
  exit 2
fi
rm -f "$HERE/.build/build.$$.log"
VERIF_ROOT="$HERE" "$BIN" "$@"
