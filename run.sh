#!/bin/sh
# usage: run.sh <id> <quick|thorough>   |   run.sh <id> --replay <file>
# Rebuilds the harness against /repo's current working tree, then runs one check.
export GOFLAGS=-mod=mod GOPROXY=off GOSUMDB=off GOTOOLCHAIN=local
HERE=$(cd "$(dirname "$0")" && pwd)
cd "$HERE/harness" || exit 2
mkdir -p "$HERE/.build"
BIN="$HERE/.build/verif.$$"
trap 'rm -f "$BIN"' EXIT
OVFLAGS=""
case "$1" in
  C12|C20) MODE=time ;;
  C16) MODE=yield ;;
  *) MODE="" ;;
esac
if [ -n "$MODE" ]; then
  # Instrumented copies of the CURRENT library sources (virtual clock seam / yield points); /repo is not touched.
  OVDIR="$HERE/.build/overlay.$$"
  trap 'rm -rf "$BIN" "$OVDIR"' EXIT
  if ! go run ./cmd/instr -repo /repo -out "$OVDIR" -mode "$MODE" >"$HERE/.build/build.$$.log" 2>&1; then
    echo "HARNESS-ERROR cannot instrument /repo's working tree:"; cat "$HERE/.build/build.$$.log"; rm -f "$HERE/.build/build.$$.log"; exit 2
  fi
  OVFLAGS="-overlay $OVDIR/overlay.json"
  export VERIF_OVERLAY="$MODE" VERIF_OVERLAY_DIR="$OVDIR"
fi
if ! go build $OVFLAGS -o "$BIN" ./cmd/verif 2>"$HERE/.build/build.$$.log"; then
  echo "HARNESS-ERROR harness does not build against /repo's working tree:"
  cat "$HERE/.build/build.$$.log"; rm -f "$HERE/.build/build.$$.log"
  exit 2
fi
rm -f "$HERE/.build/build.$$.log"
VERIF_ROOT="$HERE" "$BIN" "$@"
