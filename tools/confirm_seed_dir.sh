#!/bin/sh
# usage: tools/confirm_seed_dir.sh <name> <outdir with patch.diff and *_test.go demo files> <package dir relative to repo root> <go test -run pattern>
# Like confirm_seed.sh, for demos made of several test files that all go into one package directory (created when
# missing). An optional fifth argument gives extra go test flags (e.g. -race).
export GOFLAGS=-mod=mod GOPROXY=off GOSUMDB=off GOTOOLCHAIN=local
NAME="$1"; OUTDIR="$2"; PKGDIR="$3"; RUN="$4"; EXTRA="$5"
WT=/tmp/confirm-$NAME.$$
git -C /repo worktree add --detach "$WT" HEAD -q || exit 2
cleanup() { git -C /repo worktree remove --force "$WT" 2>/dev/null; rm -rf "$WT"; }
trap cleanup EXIT
cd "$WT" || exit 2
git apply --check "$OUTDIR/patch.diff" || { echo "CONFIRM $NAME: patch does not apply"; exit 1; }
git apply "$OUTDIR/patch.diff"
go build ./... || { echo "CONFIRM $NAME: does not build"; exit 1; }
if go test -vet=off -count=1 ./... 2>&1 | grep -v "no test files" | grep -qv "^ok"; then
  echo "CONFIRM $NAME: existing suite FAILS with the change"; exit 1
fi
echo "CONFIRM $NAME: suite passes with the change"
mkdir -p "$WT/$PKGDIR"
cp "$OUTDIR"/*_test.go "$WT/$PKGDIR/"
if go test $EXTRA -vet=off -count=1 -run "$RUN" "./$PKGDIR/" >/tmp/confirm-$NAME.with.log 2>&1; then
  echo "CONFIRM $NAME: demo PASSES with the change (expected failure)"; exit 1
fi
echo "CONFIRM $NAME: demo fails with the change"
git apply -R "$OUTDIR/patch.diff"
if ! go test $EXTRA -vet=off -count=1 -run "$RUN" "./$PKGDIR/" >/tmp/confirm-$NAME.without.log 2>&1; then
  echo "CONFIRM $NAME: demo FAILS without the change"; tail -20 /tmp/confirm-$NAME.without.log; exit 1
fi
echo "CONFIRM $NAME: demo passes without the change"
echo "CONFIRM $NAME: OK"
