#!/usr/bin/env python3
"""Regenerates /verif/MANIFEST.json from the table below (keeps it valid at all times)."""
import json, os, sys
HERE = os.path.dirname(os.path.dirname(os.path.abspath(__file__)))
BASE = json.load(open('/root/.vp/BASELINE.json'))['cmd'] if os.path.exists('/root/.vp/BASELINE.json') else "cd /repo && go test -vet=off -count=1 ./..."

# id -> (category, engine, technique, design_ref, level text, level note)
CHECKS = {}
def chk(id, cat, engine, tech, ref, text, note):
    CHECKS[id] = dict(cat=cat, engine=engine, tech=tech, ref=ref, text=text, note=note)

CRYPTO = "Trusted: Go's crypto/ecdsa, sha256, crypto/x509 path building; the driver's look-alike PKI stands for Intel's; values outside the stated alphabets are not covered."

exec(open(os.path.join(HERE, 'tools', 'checks_table.py')).read())

ALL = ["C%02d" % i for i in range(1, 21)]
NA_REASON = {}
exec(open(os.path.join(HERE, 'tools', 'na_table.py')).read())

m = {
 "version": 1,
 "setup_cmd": "./setup.sh",
 "hooks": {
  "guard": "verif",
  "enable": "no source hooks: checks build /repo's working tree as-is (module replace) and, where instrumentation is needed, generate a go build -overlay from the current sources at check time",
  "baseline_off_cmd": BASE,
  "source_commits": [],
  "add_only": True,
 },
 "engines": [
  {"name": "A", "path": "harness/mc/explore.go", "kind_free_text": "stateless deviation-bounded DFS over choice points (honest default, every deviation costs 1), all decision vectors within the bound, run on the real code",
   "serves_properties": [c for c in ALL if c in CHECKS and CHECKS[c]['engine'].startswith('A')]},
  {"name": "B", "path": "harness/vsched", "kind_free_text": "controlled cooperative scheduler + virtual clock over code instrumented at check time (go build -overlay): all schedules up to a preemption bound, all timer orders",
   "serves_properties": [c for c in ALL if c in CHECKS and 'B' in CHECKS[c]['engine']]},
  {"name": "C", "path": "harness/mc/bfs.go", "kind_free_text": "explicit-state breadth-first search over operation histories; each transition calls the real entry point on a fresh instance; canonical state keys",
   "serves_properties": [c for c in ALL if c in CHECKS and 'C' in CHECKS[c]['engine']]},
 ],
 "checks": [],
 "not_applicable": [],
 "notes": "All checks are bounded exhaustive explorations of the real implementation (model-checking family); see DESIGN.md. run.sh rebuilds the harness from /repo's working tree on every invocation.",
}
for id in ALL:
    if id in CHECKS:
        c = CHECKS[id]
        m["checks"].append({
            "property_id": id,
            "quick_cmd": "./run.sh %s quick" % id,
            "thorough_cmd": "./run.sh %s thorough" % id,
            "evidence_file": "/verif/evidence/%s.json" % id,
            "replay_cmd_template": "./run.sh %s --replay {path}" % id,
            "engine": c['engine'],
            "level_claimed": {"category": c['cat'], "text": c['text'], "design_ref": c['ref']},
            "level_note": c['note'],
            "technique": c['tech'],
        })
    else:
        m["not_applicable"].append({"property_id": id, "reason": NA_REASON.get(id, "check not built yet in this session (design in DESIGN.md §2); not claimed until it runs")})
json.dump(m, open(os.path.join(HERE, 'MANIFEST.json'), 'w'), indent=1)
print("checks:", [c["property_id"] for c in m["checks"]], "na:", [c["property_id"] for c in m["not_applicable"]])
