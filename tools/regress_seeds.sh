#!/bin/sh
# usage: tools/regress_seeds.sh [seed-name ...]
# For every kept seeded change: fresh scratch worktree of /repo HEAD, apply the patch, run the check(s)
# recorded in meta.json (detected_by) against it and expect a VIOLATION (exit 1). Prints one line per seed.
HERE=$(cd "$(dirname "$0")/.." && pwd)
cd "$HERE"
NAMES="$@"
[ -z "$NAMES" ] && NAMES=$(ls seeded)
fail=0
for n in $NAMES; do
  d="seeded/$n"
  [ -f "$d/patch.diff" ] || continue
  checks=$(python3 -c "import json;print(' '.join(json.load(open('$d/meta.json'))['detected_by']))")
  WT=/tmp/regress-$n.$$
  git -C /repo worktree add --detach "$WT" HEAD -q || { echo "$n: cannot create worktree"; fail=1; continue; }
  if ! git -C "$WT" apply "$HERE/$d/patch.diff" 2>/dev/null; then echo "$n: PATCH DOES NOT APPLY"; fail=1; git -C /repo worktree remove --force "$WT"; continue; fi
  res=""
  for c in $checks; do
    OUT=$(mktemp -d /tmp/seedtest.XXXXXX)
    VERIF_REPO="$WT" VERIF_OUT="$OUT" ./run.sh "$c" quick >"$OUT/log" 2>&1; code=$?
    v=$(grep -c "^VIOLATION" "$OUT/log")
    res="$res $c:exit=$code,violations=$v"
    [ "$code" = "1" ] || fail=1
    rm -rf "$OUT"
  done
  echo "$n:$res"
  git -C /repo worktree remove --force "$WT" 2>/dev/null; rm -rf "$WT"
done
exit $fail
