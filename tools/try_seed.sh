#!/bin/sh
# usage: tools/try_seed.sh <library checkout with a seeded change> <tier> <check id>...
# Runs the given checks against that checkout (not /repo); evidence and replays go to a scratch dir.
WT="$1"; TIER="$2"; shift 2
HERE=$(cd "$(dirname "$0")/.." && pwd)
OUT=$(mktemp -d /tmp/seedtest.XXXXXX)
for c in "$@"; do
  VERIF_REPO="$WT" VERIF_OUT="$OUT" "$HERE/run.sh" "$c" "$TIER" >"$OUT/log" 2>&1
  code=$?
  grep -E "^(VIOLATION|KNOWN-FINDING|HARNESS-ERROR|C[0-9]+ |  what)" "$OUT/log" | cut -c1-260 | head -12
  echo "   -> $c exit=$code"
done
rm -rf "$OUT"
