chk("C01", "exploration", "A",
    "bounded exhaustive exploration of the real verifier: all single-bit mutants + deviation-bounded DFS over a forgery menu, judged by an independent reference of the three signature links",
    "DESIGN.md §2 C01",
    "Every single-bit mutant of two honest raw quotes and of every field of the parsed message, and every combination of at most 2 (quick) / 3 (thorough) forgeries from a 9-dimensional menu (who signs what, key forms, hash binding, signature forms, region resizing), is handed to verify.RawTdxQuote / verify.TdxQuote; any acceptance is judged by an independent parser and link checker. Exhaustive within those alphabets, which is the right level for an 'accepted => authentic' statement whose counterexamples are single broken links.",
    CRYPTO + " Random multi-byte mutation and coverage-guided fuzzing named in the quantifier are sampling and are not performed.")
chk("C09", "exploration", "A",
    "bounded exhaustive differential exploration: real parser/serialiser vs an independent v4 layout parser on all truncations, all single-bit mutants, all size/type-field boundary values and pairs, and a product of well-formed messages",
    "DESIGN.md §2 C09",
    "For every truncation length, every single-bit mutant, every boundary value of each of the nine size/type fields (and all pairs), trailing-byte and cut-signed-data variants of two honest quotes, the library parser must accept exactly what the independent layout parser accepts, every message field must equal the reference slice, and serialising must reproduce the input; a product of well-formed messages (auth 0..65535, chain 0..typical, extra bytes, all-zero/all-FF contents) must survive serialise-then-parse. Exhaustive inside these alphabets.",
    "Reference layout table transcribed from Intel's DCAP v4 format (harness/world/quote.go, harness/ref/quote.go). Random / coverage-guided mutation is sampling and is not performed.")
chk("C10", "fault_enumeration", "A",
    "bounded exhaustive fault enumeration on the real entry points under recover + watchdog: all truncations / size-field values and pairs, all single and double structural message mutations, deviation-bounded DFS (<=2) over endpoint answers, all truncations / tag / length changes of the SGX extension DER",
    "DESIGN.md §2 C10",
    "Every listed public entry point is called on every input of the enumerated untrusted kinds and must return a value or an error: ~40k raw inputs x 3 entry points, 250 single + 31k double structural mutations x 8-9 entry points, ~7k endpoint-answer combinations at the four fetch points, ~1.8k DER variants of the SGX extension. A crash is attributed to its innermost library frame, so distinct crash sites are distinct findings.",
    "Unrecoverable runtime faults would abort the whole check rather than be attributed to a case. Coverage-guided fuzzing is sampling and is not performed.")
chk("C08", "exploration", "A",
    "bounded exhaustive exploration of validate.TdxQuote / RawTdxQuote over per-dimension products of quote variants and option values, judged two-directionally by an independent reference of the policy semantics",
    "DESIGN.md §2 C08",
    "~8k (quote, options) pairs: each of the 11 exact-match options at nil/empty/equal/every single-bit difference (on the option and on the quote side)/short/long, all RTMR list compositions up to length 5, all allowed-MR_TD compositions up to length 3 (alone and with MR_TD), SVN minima around values spanning both bytes, minimum TEE TCB SVN lengths and every component +-1, every single XFAM / TD_ATTRIBUTES bit, every cross-wiring of same-sized fields, all pairs of field deviations. The reference says must-accept / must-reject / either (wrongly sized options) and the library must agree and never panic.",
    "Reference policy semantics and fixed-bit masks in harness/ref/policy.go are an independent transcription of the statement.")
chk("C14", "exploration", "A",
    "bounded exhaustive exploration of validate.PolicyToOptions over all single and paired per-field states of the policy message, then differential evaluation of the converted options against the literal reading of the message on a quote set",
    "DESIGN.md §2 C14",
    "~3.7k policy messages (each byte field absent/empty/right/short/long/one byte/different and all pairs, SVN minima at 0..2^32-1, RTMR lists up to 5, allowed-MR_TD lists up to 3, absent sub-policies, nil policy): conversion must fail whenever the statement says so, and every policy that converts is evaluated on 19 quotes (satisfying, missing exactly one field, just below each minimum) against the reference reading of the message; no panic anywhere.",
    "Reference policy semantics shared with C08.")
chk("C13", "exploration", "A",
    "bounded exhaustive exploration of pcs.PckCertificateExtensions on certificates whose SGX extension comes from the harness's own DER encoder: boundary value assignments, all 120 sub-extension orders, all transpositions/rotations of the 18 TCB elements, and a malformed menu at every element; exact-equality / mandatory-error oracle",
    "DESIGN.md §2 C13",
    "~1.2k certificates: every case carries its own expected value (exact equality with the encoder's input) or a mandatory error; malformations the statement does not make mandatory errors (trailing elements inside a SEQUENCE, a removed element) are judged 'error or still exact'. FMSPC is additionally observed in the TCB-Info URL during real verification for four FMSPC values.",
    "The DER encoder (harness/world/pki.go) is independent of encoding/asn1's decoder. Doubly wrapped octet strings are excluded from the wrong-length alphabet (tolerated on purpose).")
chk("C15", "fault_enumeration", "A",
    "exhaustive fault enumeration: the full product of device behaviours (report/quote request outcome, status, OutLen, buffer content, report data) against a scripted client.Device, plus every provider behaviour and the device fallback path",
    "DESIGN.md §2 C15",
    "24k device runs (complete product of the stated alphabets) check that request 1 carries the caller's 64 bytes, request 2 carries the TD report of request 1, success happens exactly when both results are 0, status is 0 and 0 < OutLen <= buffer size and then returns exactly the first OutLen bytes the device wrote, and every other outcome is an error without a crash; provider results are returned verbatim, an unsupported provider makes the device path visibly tried (distinguishable errors for a nonexistent path and a regular file), GetQuote equals parsing GetRawQuote.",
    "The kernel side of /dev/tdx_guest and configfs is replaced by scripted doubles.")
chk("C17", "model_checking", "C",
    "explicit-state breadth-first search over request histories: every transition calls the real rtmr.ExtendDigestClient / ExtendEventLogClient on a fresh model TSM replayed from the initial state; per-transition operation oracle + per-state register invariant; canonical state key",
    "DESIGN.md §2 C17",
    "From each of 64 initial TSM states (every subset of pre-bound indices x distractor entries) all histories of depth 2 (quick) / 3 (thorough), and depth 3 / 4 from 7 selected initial states, over a 162-request alphabet: an invalid request must fail with zero client operations; a valid one must cause exactly one digest write of exactly the digest (or SHA-384 of the log) to the entry bound to the index, creating an entry only when none exists; every register equals the reference SHA-384 extend chain in every reached state.",
    "The configfs-tsm rtmrs subsystem is a model (harness/world/tsm.go); go-configfs-tsm is executed for real on top of it.")
chk("C02", "exploration", "A",
    "deviation-bounded exhaustive DFS (Engine A) over (quote PKI, trusted pool, look-alike substitution, role-confusion chain, per-certificate defect, chain assembly) on the real verifier, judged by an independent key-level trust condition; plus an exhaustive table of root-of-trust configurations",
    "DESIGN.md §2 C02",
    "All worlds with <=3 deviations at L0 and <=2 at L2 (quick; <=3 at all levels and <=4 at L0 thorough) from a menu of 2 PKIs x 7 pools x 3 look-alike substitutions x 16 role-confusion chains x 7 defects per chain position x 6 orders x 7 assembly variants: any acceptance must satisfy 'leaf is PCK-role, signed by the quote's intermediate, which is signed by a key of the effective pool'. 21 root-of-trust configurations x quotes under two PKIs are judged two-directionally (trusts exactly what it lists); Intel's sample quote must be accepted only under the embedded root.",
    CRYPTO + " Mechanism-only deviations (ECDSA-SHA384 certificate, missing SGX extension) have no stated verdict and are checked for no-panic only.")
chk("C03", "fault_enumeration", "A",
    "exhaustive fault enumeration of collateral endpoint answers on the real verifier: all single-bit mutants of signed bodies (and headers), deviation-bounded DFS over a signing/issuer-chain/encoding/field menu, and a full product of unsigned shadow members; judged by an independent authenticity check plus the reference verdict of the signed members alone",
    "DESIGN.md §2 C03",
    "~12.8k body bit mutants (+ ~40k header bit mutants thorough), all <=2 (quick) / <=3 (thorough) combinations of a 10-dimensional response menu for both documents, and 1020 shadow-member / shadow-signature responses (5 genuine-document variants x key spelling incl. case and Unicode-fold variants x before/after x 9 shadow contents). Oracle: accept => both responses authentic (member bytes verify under a signature of the same response with a root-issued 'Intel SGX TCB Signing' certificate chaining to the trusted roots) and the signed members alone dictate acceptance.",
    CRYPTO + " V is computed with the reference TCB/QE algorithms of C04/C07 (harness/ref).")
chk("C04", "exploration", "A",
    "exhaustive walk of the property's small-scope abstraction (Engine A, deviation-bounded, plus the full two-level product) end-to-end through verify.TdxQuote over freshly signed TCB Info; two-directional comparison with a reference implementation of Intel's algorithm as the statement words it; reporting API checked on every world",
    "DESIGN.md §2 C04",
    "~7.5k signed TCB Info documents (quick; <=3 deviations thorough): <=3 levels with comparison patterns {equal, below, SGX fails at 0/15, PCE SVN above, TDX fails at 0/1/2/15} x statuses, TEE_TCB_SVN[1] in {0,1,3,0x0a}, TDX module identities present/absent/other with <=2 levels x isvsvn {equal, below, above} x 7 statuses, FMSPC / PCE-ID / MRSIGNERSEAM / masked SEAM attributes variants. The verdict must equal the reference in both directions (the rest of the world is honest) and SupportedTcbLevelsFromCollateral must return an error whenever no level matches.",
    CRYPTO + " Random SVN vectors beyond the boundary-index abstraction are sampling and are not explored.")
chk("C05", "fault_enumeration", "A",
    "deviation-bounded exhaustive DFS (Engine A) at the revocation level over revoked-serial sets, CRL signers, CRL endpoint outcomes, distribution-point patterns and option combinations on the real verifier; condition computed from the descriptor",
    "DESIGN.md §2 C05",
    "All worlds with <=3 (quick) / <=4 (thorough) deviations from: 10 PCK-CRL serial sets x 11 Root-CRL serial sets (targets: leaf; intermediate, TCB-Info signer and QE-Identity signer as distinct certificates; near-miss, cross-CRL, 100-entry, 20-byte serials) x 5 signers per CRL (right CA, other CA, look-alike CA, right name/wrong key) x 8 endpoint outcomes per CRL x 6 distribution-point patterns x 3 option combinations. accept at L2 => both CRLs obtained, authenticated and listing no certificate of the chain; benign worlds must be accepted; CheckRevocations without GetCollateral never accepts; with revocation off CRL state must not matter.",
    CRYPTO)
chk("C06", "exploration", "A",
    "exhaustive grid over Options.Now on two fixed honest worlds with staggered validity instants: every assignment with <=2 (quick) / <=3 (thorough) time-set fields off the safe instant, values {E-1s,E,E+1s} for every expiry and {nb-1s,nb} for every notBefore, at every checking level; reference = per-field validity windows",
    "DESIGN.md §2 C06",
    "~12k (quick) time assignments: singles at L0/L1/L2 and all pairs at L2 on the Intel-like shape (shared root; judged in both directions, which is what tells which field guards which artifact), singles on the own-copies shape with 13 pairwise distinct expiry instants (accept => in date). Monotonicity in time follows from the grid.",
    CRYPTO + " Zero time values and CRL thisUpdate are outside the alphabet / statement.")
chk("C07", "exploration", "A",
    "exhaustive enumeration of QE reports (re-signed by the PCK key) against freshly signed QE Identity documents through verify.TdxQuote, two-directional comparison with a reference of the statement (masked equality, first level with isvsvn <= ISVSVN is UpToDate)",
    "DESIGN.md §2 C07",
    "~2.4k worlds: every MISCSELECT bit on the report, identity and mask side with a mixed mask; ATTRIBUTES bits inside/outside the mask at every byte; mask/value lengths 0/15/16/17; every MRSIGNER byte; ISVPRODID variants incl. byte-swapped; all level lists of length <=3 over isvsvn {below, equal, above} x statuses; hex case / odd length / non-hex; pairs of representative deviations.",
    CRYPTO)
chk("C11", "exploration", "A",
    "deviation-bounded exhaustive DFS (Engine A) over the honest world generator's dimensions, every world verified at all three checking levels; oracle: must accept (with a driver self-check that the world really is honest)",
    "DESIGN.md §2 C11",
    "All honest worlds with <=2 (quick) / <=3 (thorough) non-default dimensions out of 14 (field contents, auth-data length 0..65535, extra bytes, NUL, SVN vectors, PCESVN, FMSPC bytes and hex case, position of the matching UpToDate level, TEE_TCB_SVN[1] with module identity, QE masks, CRL contents, time-window edges, extra roots in the pool) x {L0, L1, L2}; plus Intel's two genuine sample quotes under the embedded root. This is the completeness counterpart that keeps every 'reject more' mutant from hiding behind the one-directional soundness checks.",
    CRYPTO + " Processor-CA chains and upper-case PCE-ID hex are excluded (not settled by the statement). The recorded sample collateral does not match the sample quote (the repository's own tests say so), so the Intel samples are checked at L0.")
chk("C20", "model_checking", "A+B",
    "stateless model checking of the real trust.RetryHTTPSGetter on a virtual clock: the time/context seam is generated from the current sources at check time (go build -overlay), every failure sequence and every order of simultaneously due timer/deadline events is enumerated; oracle on returned objects, attempt count, every wait and the give-up time",
    "DESIGN.md §2 C20",
    "31 (quick) / 40 (thorough) timeout x max-delay grid points incl. the default configuration x attempt latency {0,1s} x 'fail forever' and every 'k failures then success' the timeout allows (up to 150) x all tie decisions (<=3 deviations): success returns the first successful attempt's header and body unmodified with exactly k+1 calls; every wait is > 0 and <= MaxRetryDelay; no retry without a wait; failure is reported no later than Timeout + MaxRetryDelay + one latency and never earlier than the timeout when a later attempt would succeed; a wait nothing can wake is a hang.",
    "Real time is replaced by a virtual clock (harness/shim). Unsupported constructs met by the rewriter make the run inconclusive (HARNESS-ERROR), never a violation. MaxRetryDelay = 0 is judged for termination-independent clauses only.")
