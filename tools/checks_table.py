chk("C01", "exploration", "A",
    "bounded exhaustive exploration of the real verifier: all single-bit mutants + deviation-bounded DFS over a forgery menu, judged by an independent reference of the three signature links",
    "DESIGN.md §2 C01",
    "Every single-bit mutant of two honest raw quotes and of every field of the parsed message, and every combination of at most 2 (quick) / 3 (thorough) forgeries from a 9-dimensional menu (who signs what, key forms, hash binding, signature forms, region resizing), is handed to verify.RawTdxQuote / verify.TdxQuote; any acceptance is judged by an independent parser and link checker. Exhaustive within those alphabets, which is the right level for an 'accepted => authentic' statement whose counterexamples are single broken links.",
    CRYPTO + " Random multi-byte mutation and coverage-guided fuzzing named in the quantifier are sampling and are not performed.")
