chk("C01", "exploration", "A",
    "bounded exhaustive exploration of the real verifier: all single-bit mutants + deviation-bounded DFS over a forgery menu, judged by an independent reference of the three signature links",
    "DESIGN.md §2 C01",
    "Every single-bit mutant of two honest raw quotes and of every field of the parsed message, and every combination of at most 2 (quick) / 3 (thorough) forgeries from a 9-dimensional menu (who signs what, key forms, hash binding, signature forms, region resizing), is handed to verify.RawTdxQuote / verify.TdxQuote; any acceptance is judged by an independent parser and link checker. Exhaustive within those alphabets, which is the right level for an 'accepted => authentic' statement whose counterexamples are single broken links.",
    CRYPTO + " Random multi-byte mutation and coverage-guided fuzzing named in the quantifier are sampling and are not performed.")
chk("C09", "exploration", "A",
    "bounded exhaustive differential exploration: real parser/serialiser vs an independent v4 layout parser on all truncations, all single-bit mutants, all size/type-field boundary values and pairs, and a product of well-formed messages",
    "DESIGN.md §2 C09",
    "For every truncation length, every single-bit mutant, every boundary value of each of the nine size/type fields (and all pairs), trailing-byte and cut-signed-data variants of two honest quotes, the library parser must accept exactly what the independent layout parser accepts, every message field must equal the reference slice, and serialising must reproduce the input; a product of well-formed messages (auth 0..65535, chain 0..typical, extra bytes, all-zero/all-FF contents) must survive serialise-then-parse. Exhaustive inside these alphabets.",
    "Reference layout table transcribed from Intel's DCAP v4 format (harness/world/quote.go, harness/ref/quote.go). Random / coverage-guided mutation is sampling and is not performed.")
chk("C10", "fault_enumeration", "A",
    "bounded exhaustive fault enumeration on the real entry points under recover + watchdog: all truncations / size-field values and pairs, all single and double structural message mutations, deviation-bounded DFS (<=2) over endpoint answers, all truncations / tag / length changes of the SGX extension DER",
    "DESIGN.md §2 C10",
    "Every listed public entry point is called on every input of the enumerated untrusted kinds and must return a value or an error: ~40k raw inputs x 3 entry points, 250 single + 31k double structural mutations x 8-9 entry points, ~7k endpoint-answer combinations at the four fetch points, ~1.8k DER variants of the SGX extension. A crash is attributed to its innermost library frame, so distinct crash sites are distinct findings.",
    "Unrecoverable runtime faults would abort the whole check rather than be attributed to a case. Coverage-guided fuzzing is sampling and is not performed.")
