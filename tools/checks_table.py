chk("C01", "exploration", "A",
    "bounded exhaustive exploration of the real verifier: all single-bit mutants + deviation-bounded DFS over a forgery menu, judged by an independent reference of the three signature links",
    "DESIGN.md §2 C01",
    "Every single-bit mutant of two honest raw quotes and of every field of the parsed message, and every combination of at most 2 (quick) / 3 (thorough) forgeries from a 9-dimensional menu (who signs what, key forms, hash binding, signature forms, region resizing), is handed to verify.RawTdxQuote / verify.TdxQuote; any acceptance is judged by an independent parser and link checker. Exhaustive within those alphabets, which is the right level for an 'accepted => authentic' statement whose counterexamples are single broken links.",
    CRYPTO + " Random multi-byte mutation and coverage-guided fuzzing named in the quantifier are sampling and are not performed.")
chk("C09", "exploration", "A",
    "bounded exhaustive differential exploration: real parser/serialiser vs an independent v4 layout parser on all truncations, all single-bit mutants, all size/type-field boundary values and pairs, and a product of well-formed messages",
    "DESIGN.md §2 C09",
    "For every truncation length, every single-bit mutant, every boundary value of each of the nine size/type fields (and all pairs), trailing-byte and cut-signed-data variants of two honest quotes, the library parser must accept exactly what the independent layout parser accepts, every message field must equal the reference slice, and serialising must reproduce the input; a product of well-formed messages (auth 0..65535, chain 0..typical, extra bytes, all-zero/all-FF contents) must survive serialise-then-parse. Exhaustive inside these alphabets.",
    "Reference layout table transcribed from Intel's DCAP v4 format (harness/world/quote.go, harness/ref/quote.go). Random / coverage-guided mutation is sampling and is not performed.")
chk("C10", "fault_enumeration", "A",
    "bounded exhaustive fault enumeration on the real entry points under recover + watchdog: all truncations / size-field values and pairs, all single and double structural message mutations, deviation-bounded DFS (<=2) over endpoint answers, all truncations / tag / length changes of the SGX extension DER",
    "DESIGN.md §2 C10",
    "Every listed public entry point is called on every input of the enumerated untrusted kinds and must return a value or an error: ~40k raw inputs x 3 entry points, 250 single + 31k double structural mutations x 8-9 entry points, ~7k endpoint-answer combinations at the four fetch points, ~1.8k DER variants of the SGX extension. A crash is attributed to its innermost library frame, so distinct crash sites are distinct findings.",
    "Unrecoverable runtime faults would abort the whole check rather than be attributed to a case. Coverage-guided fuzzing is sampling and is not performed.")
chk("C08", "exploration", "A",
    "bounded exhaustive exploration of validate.TdxQuote / RawTdxQuote over per-dimension products of quote variants and option values, judged two-directionally by an independent reference of the policy semantics",
    "DESIGN.md §2 C08",
    "~8k (quote, options) pairs: each of the 11 exact-match options at nil/empty/equal/every single-bit difference (on the option and on the quote side)/short/long, all RTMR list compositions up to length 5, all allowed-MR_TD compositions up to length 3 (alone and with MR_TD), SVN minima around values spanning both bytes, minimum TEE TCB SVN lengths and every component +-1, every single XFAM / TD_ATTRIBUTES bit, every cross-wiring of same-sized fields, all pairs of field deviations. The reference says must-accept / must-reject / either (wrongly sized options) and the library must agree and never panic.",
    "Reference policy semantics and fixed-bit masks in harness/ref/policy.go are an independent transcription of the statement.")
chk("C14", "exploration", "A",
    "bounded exhaustive exploration of validate.PolicyToOptions over all single and paired per-field states of the policy message, then differential evaluation of the converted options against the literal reading of the message on a quote set",
    "DESIGN.md §2 C14",
    "~3.7k policy messages (each byte field absent/empty/right/short/long/one byte/different and all pairs, SVN minima at 0..2^32-1, RTMR lists up to 5, allowed-MR_TD lists up to 3, absent sub-policies, nil policy): conversion must fail whenever the statement says so, and every policy that converts is evaluated on 19 quotes (satisfying, missing exactly one field, just below each minimum) against the reference reading of the message; no panic anywhere.",
    "Reference policy semantics shared with C08.")
chk("C13", "exploration", "A",
    "bounded exhaustive exploration of pcs.PckCertificateExtensions on certificates whose SGX extension comes from the harness's own DER encoder: boundary value assignments, all 120 sub-extension orders, all transpositions/rotations of the 18 TCB elements, and a malformed menu at every element; exact-equality / mandatory-error oracle",
    "DESIGN.md §2 C13",
    "~1.2k certificates: every case carries its own expected value (exact equality with the encoder's input) or a mandatory error; malformations the statement does not make mandatory errors (trailing elements inside a SEQUENCE, a removed element) are judged 'error or still exact'. FMSPC is additionally observed in the TCB-Info URL during real verification for four FMSPC values.",
    "The DER encoder (harness/world/pki.go) is independent of encoding/asn1's decoder. Doubly wrapped octet strings are excluded from the wrong-length alphabet (tolerated on purpose).")
chk("C15", "fault_enumeration", "A",
    "exhaustive fault enumeration: the full product of device behaviours (report/quote request outcome, status, OutLen, buffer content, report data) against a scripted client.Device, plus every provider behaviour and the device fallback path",
    "DESIGN.md §2 C15",
    "24k device runs (complete product of the stated alphabets) check that request 1 carries the caller's 64 bytes, request 2 carries the TD report of request 1, success happens exactly when both results are 0, status is 0 and 0 < OutLen <= buffer size and then returns exactly the first OutLen bytes the device wrote, and every other outcome is an error without a crash; provider results are returned verbatim, an unsupported provider makes the device path visibly tried (distinguishable errors for a nonexistent path and a regular file), GetQuote equals parsing GetRawQuote.",
    "The kernel side of /dev/tdx_guest and configfs is replaced by scripted doubles.")
chk("C17", "model_checking", "C",
    "explicit-state breadth-first search over request histories: every transition calls the real rtmr.ExtendDigestClient / ExtendEventLogClient on a fresh model TSM replayed from the initial state; per-transition operation oracle + per-state register invariant; canonical state key",
    "DESIGN.md §2 C17",
    "From each of 64 initial TSM states (every subset of pre-bound indices x distractor entries) all histories of depth 2 (quick) / 3 (thorough), and depth 3 / 4 from 7 selected initial states, over a 162-request alphabet: an invalid request must fail with zero client operations; a valid one must cause exactly one digest write of exactly the digest (or SHA-384 of the log) to the entry bound to the index, creating an entry only when none exists; every register equals the reference SHA-384 extend chain in every reached state.",
    "The configfs-tsm rtmrs subsystem is a model (harness/world/tsm.go); go-configfs-tsm is executed for real on top of it.")
chk("C02", "exploration", "A",
    "deviation-bounded exhaustive DFS (Engine A) over (quote PKI, trusted pool, look-alike substitution, role-confusion chain, per-certificate defect, chain assembly) on the real verifier, judged by an independent key-level trust condition; plus an exhaustive table of root-of-trust configurations",
    "DESIGN.md §2 C02",
    "All worlds with <=3 deviations at L0 and <=2 at L2 (quick; <=3 at all levels and <=4 at L0 thorough) from a menu of 2 PKIs x 7 pools x 3 look-alike substitutions x 16 role-confusion chains x 7 defects per chain position x 6 orders x 7 assembly variants: any acceptance must satisfy 'leaf is PCK-role, signed by the quote's intermediate, which is signed by a key of the effective pool'. 21 root-of-trust configurations x quotes under two PKIs are judged two-directionally (trusts exactly what it lists); Intel's sample quote must be accepted only under the embedded root.",
    CRYPTO + " Mechanism-only deviations (ECDSA-SHA384 certificate, missing SGX extension) have no stated verdict and are checked for no-panic only.")
chk("C03", "fault_enumeration", "A",
    "exhaustive fault enumeration of collateral endpoint answers on the real verifier: all single-bit mutants of signed bodies (and headers), deviation-bounded DFS over a signing/issuer-chain/encoding/field menu, and a full product of unsigned shadow members; judged by an independent authenticity check plus the reference verdict of the signed members alone",
    "DESIGN.md §2 C03",
    "~12.8k body bit mutants (+ ~40k header bit mutants thorough), all <=2 (quick) / <=3 (thorough) combinations of a 10-dimensional response menu for both documents, and 1020 shadow-member / shadow-signature responses (5 genuine-document variants x key spelling incl. case and Unicode-fold variants x before/after x 9 shadow contents). Oracle: accept => both responses authentic (member bytes verify under a signature of the same response with a root-issued 'Intel SGX TCB Signing' certificate chaining to the trusted roots) and the signed members alone dictate acceptance.",
    CRYPTO + " V is computed with the reference TCB/QE algorithms of C04/C07 (harness/ref).")
