#!/bin/sh
# usage: tools/try_round.sh <round number> [ids...] — runs each property's own quick check against /tmp/wt<round>-<id>
N="$1"; shift
IDS="$@"; [ -z "$IDS" ] && IDS="C01 C02 C03 C04 C05 C06 C07 C08 C09 C10 C11 C12 C13 C14 C15 C16 C17 C18 C19 C20"
HERE=$(cd "$(dirname "$0")/.." && pwd)
for c in $IDS; do
  [ -f /tmp/out$N-$c/patch.diff ] || { echo "$c: no patch yet"; continue; }
  echo "$c: $("$HERE/tools/try_seed.sh" /tmp/wt$N-$c quick $c 2>&1 | grep -E "what:|exit=" | cut -c1-200 | tail -2 | tr '\n' ' ')"
done
