#!/bin/sh
# usage: tools/confirm_seed.sh <name> <patch.diff> <demo file> <demo path relative to repo root> <go test -run pattern> <package dir>
# Confirms, in a fresh scratch worktree of /repo HEAD, that the seeded change (1) applies and builds,
# (2) leaves the existing test suite green, (3) makes the demo fail, and (4) the demo passes without it.
export GOFLAGS=-mod=mod GOPROXY=off GOSUMDB=off GOTOOLCHAIN=local
NAME="$1"; PATCH="$2"; DEMO="$3"; DEMOPATH="$4"; RUN="$5"; PKG="$6"
WT=/tmp/confirm-$NAME.$$
git -C /repo worktree add --detach "$WT" HEAD -q || exit 2
cleanup() { git -C /repo worktree remove --force "$WT" 2>/dev/null; rm -rf "$WT"; }
trap cleanup EXIT
cd "$WT" || exit 2
git apply --check "$PATCH" || { echo "CONFIRM $NAME: patch does not apply"; exit 1; }
git apply "$PATCH"
go build ./... || { echo "CONFIRM $NAME: does not build"; exit 1; }
if go test -vet=off -count=1 ./... 2>&1 | grep -v "no test files" | grep -qv "^ok"; then
  echo "CONFIRM $NAME: existing suite FAILS with the change"; go test -vet=off -count=1 ./... 2>&1 | grep -v "^ok\|no test files" | head -20; exit 1
fi
echo "CONFIRM $NAME: suite passes with the change"
cp "$DEMO" "$WT/$DEMOPATH"
if go test -vet=off -count=1 -run "$RUN" "$PKG" >/tmp/confirm-$NAME.with.log 2>&1; then
  echo "CONFIRM $NAME: demo PASSES with the change (expected failure)"; exit 1
fi
echo "CONFIRM $NAME: demo fails with the change"
git apply -R "$PATCH"
if ! go test -vet=off -count=1 -run "$RUN" "$PKG" >/tmp/confirm-$NAME.without.log 2>&1; then
  echo "CONFIRM $NAME: demo FAILS without the change"; tail -20 /tmp/confirm-$NAME.without.log; exit 1
fi
echo "CONFIRM $NAME: demo passes without the change"
echo "CONFIRM $NAME: OK"
