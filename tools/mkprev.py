#!/usr/bin/env python3
# usage: tools/mkprev.py <outdir>   -- writes <outdir>/prev-Cxx.txt for the seeded-change agents: earlier ideas for
# each property (what each needed to manifest) and the files / functions each one changed. Nothing else from /verif.
import json, glob, os, re, sys
out = sys.argv[1] if len(sys.argv) > 1 else "/tmp"
by = {}
for d in sorted(glob.glob(os.path.join(os.path.dirname(__file__), "..", "seeded", "*"))):
    try:
        m = json.load(open(d + "/meta.json"))
    except Exception:
        continue
    files = {}
    cur = None
    for l in open(d + "/patch.diff", errors="replace"):
        if l.startswith("+++ b/"):
            cur = l[6:].strip(); files.setdefault(cur, [])
        elif l.startswith("@@") and cur:
            f = re.search(r"func (?:\([^)]*\) )?(\w+)", l)
            if f and f.group(1) not in files[cur]:
                files[cur].append(f.group(1))
    name = os.path.basename(d)[4:]
    by.setdefault(m["property"], []).append((name, m.get("needs_to_manifest", ""), files))
for p, L in by.items():
    with open(f"{out}/prev-{p}.txt", "w") as f:
        f.write(f"Earlier seeded defects for {p} (idea: what it needed to manifest; then the code it changed):\n")
        for name, needs, files in L:
            f.write(f"- {name}: {needs}\n")
            f.write("    (changed " + "; ".join(k + ": " + (", ".join(v) or "?") for k, v in files.items()) + ")\n")
