#!/usr/bin/env python3
"""usage: seed_meta.py <seed-name> detected=<checks,...> [missed=<text>] [strengthened=<text>]"""
import sys, json, os
name = sys.argv[1]
mp = os.path.join('/verif/seeded', name, 'meta.json')
m = json.load(open(mp))
for a in sys.argv[2:]:
    k, v = a.split('=', 1)
    if k == 'detected': m['detected_by'] = v.split(',')
    elif k == 'missed': m['missed_by_initially'] = [v]
    elif k == 'strengthened': m['strengthening'] = v
    elif k == 'ran': m['what_i_ran'] = v
json.dump(m, open(mp, 'w'), indent=1)
