#!/usr/bin/env python3
"""usage: keep_seed.py <seed-name> <property> <outdir> <demo file> <demo path in repo> <run pattern> <pkg> <needs...>
Copies a confirmed seeded change into /verif/seeded/<seed-name>/ with meta.json."""
import sys, os, shutil, json
name, prop, outdir, demo, demopath, run, pkg = sys.argv[1:8]
needs = " ".join(sys.argv[8:])
d = os.path.join('/verif/seeded', name)
os.makedirs(d, exist_ok=True)
shutil.copy(os.path.join(outdir, 'patch.diff'), os.path.join(d, 'patch.diff'))
shutil.copy(os.path.join(outdir, demo), os.path.join(d, demo))
if os.path.exists(os.path.join(outdir, 'notes.md')):
    shutil.copy(os.path.join(outdir, 'notes.md'), os.path.join(d, 'notes.md'))
meta = {
 "property": prop,
 "origin": "independent sub-agent given only the property text and a scratch worktree of /repo",
 "needs_to_manifest": needs,
 "demo": {"file": demo, "place_at": demopath, "command": "go test -vet=off -count=1 -run '%s' %s" % (run, pkg)},
 "confirmed_by": "tools/confirm_seed.sh in a fresh scratch worktree of /repo HEAD: patch applies and builds; existing suite passes with the change; demo fails with the change and passes without it",
 "detected_by": [], "missed_by_initially": [],
}
mp = os.path.join(d, 'meta.json')
if os.path.exists(mp):
    old = json.load(open(mp)); meta["detected_by"] = old.get("detected_by", []); meta["missed_by_initially"] = old.get("missed_by_initially", [])
json.dump(meta, open(mp, 'w'), indent=1)
print("kept", d)
