// Package ref holds the boring reference models: an independent v4 quote
// parser, an independent check of the three signature links, the policy
// semantics, Intel's TCB-status algorithm and friends. Nothing here imports the
// library under test.
package ref

import (
	"bytes"
	"crypto/ecdsa"
	"crypto/elliptic"
	"crypto/sha256"
	"crypto/x509"
	"encoding/binary"
	"encoding/pem"
	"errors"
	"math/big"
)

// Parsed is a v4 quote cut into its regions by the reference layout table.
type Parsed struct {
	Header, Body    []byte
	SigDataSize     uint32
	Sig, AttKey     []byte
	CertType        uint16
	CertSize        uint32
	QEReport, QESig []byte
	AuthSize        uint16
	Auth            []byte
	ChainType       uint16
	ChainSize       uint32
	Chain           []byte
	Extra           []byte
}

// ParseQuote accepts exactly the byte strings that follow the v4 layout.
func ParseQuote(b []byte) (*Parsed, error) {
	if len(b) < 636 {
		return nil, errors.New("shorter than header+body+size")
	}
	p := &Parsed{Header: b[0:48], Body: b[48:632]}
	if binary.LittleEndian.Uint16(b[0:2]) != 4 {
		return nil, errors.New("version")
	}
	if binary.LittleEndian.Uint16(b[2:4]) != 2 {
		return nil, errors.New("key type")
	}
	if binary.LittleEndian.Uint32(b[4:8]) != 0x81 {
		return nil, errors.New("tee type")
	}
	p.SigDataSize = binary.LittleEndian.Uint32(b[632:636])
	rest := b[636:]
	if uint64(p.SigDataSize) > uint64(len(rest)) {
		return nil, errors.New("signed data size beyond input")
	}
	sd := rest[:p.SigDataSize]
	p.Extra = rest[p.SigDataSize:]
	if len(sd) < 64+64+6 {
		return nil, errors.New("signed data too short")
	}
	p.Sig, p.AttKey = sd[0:64], sd[64:128]
	p.CertType = binary.LittleEndian.Uint16(sd[128:130])
	p.CertSize = binary.LittleEndian.Uint32(sd[130:134])
	cd := sd[134:]
	if p.CertType != 6 {
		return nil, errors.New("cert data type")
	}
	if uint64(p.CertSize) != uint64(len(cd)) {
		return nil, errors.New("cert data size")
	}
	if len(cd) < 384+64+2 {
		return nil, errors.New("cert data too short")
	}
	p.QEReport, p.QESig = cd[0:384], cd[384:448]
	p.AuthSize = binary.LittleEndian.Uint16(cd[448:450])
	cd = cd[450:]
	if int(p.AuthSize) > len(cd) {
		return nil, errors.New("auth size")
	}
	p.Auth = cd[:p.AuthSize]
	cd = cd[p.AuthSize:]
	if len(cd) < 6 {
		return nil, errors.New("no chain header")
	}
	p.ChainType = binary.LittleEndian.Uint16(cd[0:2])
	p.ChainSize = binary.LittleEndian.Uint32(cd[2:6])
	if p.ChainType != 5 {
		return nil, errors.New("chain type")
	}
	p.Chain = cd[6:]
	if uint64(p.ChainSize) != uint64(len(p.Chain)) {
		return nil, errors.New("chain size")
	}
	return p, nil
}

// ChainDERs decodes the PEM chain into DER blobs (nil on any irregularity).
func ChainDERs(chain []byte) [][]byte {
	var out [][]byte
	rest := chain
	for {
		var blk *pem.Block
		blk, rest = pem.Decode(rest)
		if blk == nil {
			break
		}
		if blk.Type != "CERTIFICATE" {
			return nil
		}
		out = append(out, blk.Bytes)
	}
	return out
}

// Links evaluates the three links of the statement of C01 on the bytes.
type Links struct {
	BodySigned   bool // header||body signed by the in-quote attestation key
	HashBound    bool // QE report-data == SHA-256(att key || auth) || 0^32
	QESignedLeaf bool // QE report signed by the key of the first certificate of the chain
}

func (l Links) All() bool { return l.BodySigned && l.HashBound && l.QESignedLeaf }

func verifyRaw(pub *ecdsa.PublicKey, msg, sig []byte) bool {
	if pub == nil || len(sig) != 64 {
		return false
	}
	h := sha256.Sum256(msg)
	r := new(big.Int).SetBytes(sig[:32])
	s := new(big.Int).SetBytes(sig[32:])
	return ecdsa.Verify(pub, h[:], r, s)
}

// RawKey decodes X||Y, nil when not a point of P-256.
func RawKey(b []byte) *ecdsa.PublicKey {
	if len(b) != 64 {
		return nil
	}
	x, y := new(big.Int).SetBytes(b[:32]), new(big.Int).SetBytes(b[32:])
	if !elliptic.P256().IsOnCurve(x, y) {
		return nil
	}
	return &ecdsa.PublicKey{Curve: elliptic.P256(), X: x, Y: y}
}

// LinksOf computes the links for a parsed quote.
func LinksOf(p *Parsed) Links {
	var l Links
	l.BodySigned = verifyRaw(RawKey(p.AttKey), append(append([]byte{}, p.Header...), p.Body...), p.Sig)
	d := sha256.Sum256(append(append([]byte{}, p.AttKey...), p.Auth...))
	l.HashBound = bytes.Equal(p.QEReport[320:352], d[:]) && bytes.Equal(p.QEReport[352:384], make([]byte, 32))
	ders := ChainDERs(p.Chain)
	if len(ders) > 0 {
		if c, err := x509.ParseCertificate(ders[0]); err == nil {
			if pk, ok := c.PublicKey.(*ecdsa.PublicKey); ok {
				l.QESignedLeaf = verifyRaw(pk, p.QEReport, p.QESig)
			}
		}
	}
	return l
}

// SameSemantics reports whether two parsed quotes carry the same protected
// content: the five protected regions, both signatures and the chain DERs.
func SameSemantics(a, b *Parsed) bool {
	if !bytes.Equal(a.Header, b.Header) || !bytes.Equal(a.Body, b.Body) || !bytes.Equal(a.Sig, b.Sig) ||
		!bytes.Equal(a.AttKey, b.AttKey) || !bytes.Equal(a.QEReport, b.QEReport) || !bytes.Equal(a.QESig, b.QESig) ||
		!bytes.Equal(a.Auth, b.Auth) {
		return false
	}
	da, db := ChainDERs(a.Chain), ChainDERs(b.Chain)
	if len(da) != len(db) || da == nil {
		return false
	}
	for i := range da {
		if !bytes.Equal(da[i], db[i]) {
			return false
		}
	}
	return true
}
