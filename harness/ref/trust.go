package ref

import (
	"crypto/ecdsa"
	"crypto/sha256"
	"crypto/x509"
	"encoding/asn1"
	"math/big"
)

// sigOK verifies cert's signature with the public key pub, independent of
// names, CA flags and validity (it decides "signed by the key of").
func sigOK(cert *x509.Certificate, pub any) bool {
	pk, ok := pub.(*ecdsa.PublicKey)
	if !ok {
		return false
	}
	var h []byte
	switch cert.SignatureAlgorithm {
	case x509.ECDSAWithSHA256:
		d := sha256.Sum256(cert.RawTBSCertificate)
		h = d[:]
	default:
		return cert.CheckSignatureFrom(&x509.Certificate{PublicKey: pub, PublicKeyAlgorithm: x509.ECDSA, IsCA: true, BasicConstraintsValid: true, KeyUsage: x509.KeyUsageCertSign, Version: 3}) == nil
	}
	var sig struct{ R, S *big.Int }
	if rest, err := asn1.Unmarshal(cert.Signature, &sig); err != nil || len(rest) != 0 {
		return false
	}
	return ecdsa.Verify(pk, h, sig.R, sig.S)
}

// SignedByKeyOf reports whether cert carries a valid signature by parent's key.
func SignedByKeyOf(cert, parent *x509.Certificate) bool { return sigOK(cert, parent.PublicKey) }

// TrustCond is the necessary condition of C02 evaluated on the chain bytes of a
// quote: the first certificate is PCK-role, is signed by the key of the second
// (the intermediate carried in the quote), and that one is signed by the key of
// some certificate of the effective pool.
func TrustCond(chain []byte, pool []*x509.Certificate) (ok bool, why string) {
	ders := ChainDERs(chain)
	if len(ders) < 2 {
		return false, "fewer than two certificates"
	}
	leaf, err := x509.ParseCertificate(ders[0])
	if err != nil {
		return false, "leaf does not parse"
	}
	inter, err := x509.ParseCertificate(ders[1])
	if err != nil {
		return false, "intermediate does not parse"
	}
	if leaf.Subject.CommonName != "Intel SGX PCK Certificate" {
		return false, "leaf is not a PCK-role certificate (CN " + leaf.Subject.CommonName + ")"
	}
	// a certificate whose issuer restricted it to purposes that have nothing to do with attestation is a
	// certificate of another role, whatever its name says (a restriction to TLS server use or to "any" use is
	// not judged: the statement does not settle those)
	for _, c := range []*x509.Certificate{leaf, inter} {
		if len(c.ExtKeyUsage)+len(c.UnknownExtKeyUsage) == 0 {
			continue
		}
		open := false
		for _, u := range c.ExtKeyUsage {
			if u == x509.ExtKeyUsageAny || u == x509.ExtKeyUsageServerAuth {
				open = true
			}
		}
		if !open {
			return false, "certificate issued for another purpose (extended key usage) in the chain"
		}
	}
	if !SignedByKeyOf(leaf, inter) {
		return false, "leaf not signed by the quote's intermediate"
	}
	for _, r := range pool {
		if SignedByKeyOf(inter, r) {
			return true, ""
		}
	}
	return false, "intermediate not signed by any trusted root key"
}
