package ref

import (
	"bytes"
	"encoding/hex"
	"fmt"
	"strings"
	"time"
)

// The JSON shapes of Intel's TCB Info v3 / QE Identity v2 as the reference reads them
// (own structs; only the fields the statements of C04 / C07 / C06 mention).
type Comp struct {
	Svn int `json:"svn"`
}
type TcbJ struct {
	Sgx    []Comp `json:"sgxtcbcomponents"`
	Pcesvn int    `json:"pcesvn"`
	Tdx    []Comp `json:"tdxtcbcomponents"`
	Isvsvn int    `json:"isvsvn"`
}
type LevelJ struct {
	Tcb       TcbJ   `json:"tcb"`
	TcbStatus string `json:"tcbStatus"`
}
type ModuleJ struct {
	Mrsigner       string `json:"mrsigner"`
	Attributes     string `json:"attributes"`
	AttributesMask string `json:"attributesMask"`
}
type ModuleIdentityJ struct {
	ID        string   `json:"id"`
	TcbLevels []LevelJ `json:"tcbLevels"`
}
type TcbInfoJ struct {
	ID                  string            `json:"id"`
	Version             float64           `json:"version"`
	NextUpdate          string            `json:"nextUpdate"`
	Fmspc               string            `json:"fmspc"`
	PceID               string            `json:"pceId"`
	TdxModule           ModuleJ           `json:"tdxModule"`
	TdxModuleIdentities []ModuleIdentityJ `json:"tdxModuleIdentities"`
	TcbLevels           []LevelJ          `json:"tcbLevels"`
}
type QeIdentityJ struct {
	ID             string   `json:"id"`
	Version        float64  `json:"version"`
	NextUpdate     string   `json:"nextUpdate"`
	Miscselect     string   `json:"miscselect"`
	MiscselectMask string   `json:"miscselectMask"`
	Attributes     string   `json:"attributes"`
	AttributesMask string   `json:"attributesMask"`
	Mrsigner       string   `json:"mrsigner"`
	IsvProdID      int      `json:"isvprodid"`
	TcbLevels      []LevelJ `json:"tcbLevels"`
}

// Platform is what the quote and its PCK certificate say about the platform.
type Platform struct {
	CPUSVN       []byte // 16 SGX component SVNs from the PCK certificate
	PCESVN       int
	FMSPC, PCEID []byte
	TeeTcbSvn    []byte // 16, from the TD body
	MrSignerSeam []byte // 48
	SeamAttrs    []byte // 8
}

// PlatformOf reads the quote-side facts from a parsed quote.
func PlatformOf(q *Parsed, cpusvn []byte, pcesvn int, fmspc, pceid []byte) Platform {
	return Platform{CPUSVN: cpusvn, PCESVN: pcesvn, FMSPC: fmspc, PCEID: pceid,
		TeeTcbSvn: q.Body[0:16], MrSignerSeam: q.Body[64:112], SeamAttrs: q.Body[112:120]}
}

func unhex(s string) ([]byte, bool) {
	b, err := hex.DecodeString(s)
	return b, err == nil
}

func masked(v, mask []byte) []byte {
	out := make([]byte, len(v))
	for i := range v {
		out[i] = v[i] & mask[i]
	}
	return out
}

// levelMatches: all three comparisons of one TCB level are "not above the platform's".
func levelMatches(l LevelJ, p Platform) bool {
	if len(l.Tcb.Sgx) != 16 || len(l.Tcb.Tdx) != 16 {
		return false
	}
	for i := 0; i < 16; i++ {
		if l.Tcb.Sgx[i].Svn > int(p.CPUSVN[i]) {
			return false
		}
	}
	if l.Tcb.Pcesvn > p.PCESVN {
		return false
	}
	start := 0
	if p.TeeTcbSvn[1] != 0 {
		start = 2
	}
	for i := start; i < 16; i++ {
		if l.Tcb.Tdx[i].Svn > int(p.TeeTcbSvn[i]) {
			return false
		}
	}
	return true
}

// TcbInfoVerdict is the statement of C04 evaluated on a TCB Info document.
// matched reports whether any platform level matched at all (for the reporting API).
func TcbInfoVerdict(t TcbInfoJ, p Platform) (ok bool, matched bool, why string) {
	matched = false
	for _, l := range t.TcbLevels {
		if levelMatches(l, p) {
			matched = true
			break
		}
	}
	if p.TeeTcbSvn[1] != 0 && matched {
		// the module identity must exist and have a matching level for "a level matches" to hold overall
		mm := false
		for _, m := range t.TdxModuleIdentities {
			if m.ID == fmt.Sprintf("TDX_%02x", p.TeeTcbSvn[1]) || m.ID == fmt.Sprintf("TDX_%02X", p.TeeTcbSvn[1]) {
				for _, l := range m.TcbLevels {
					if l.Tcb.Isvsvn <= int(p.TeeTcbSvn[0]) {
						mm = true
						break
					}
				}
				break
			}
		}
		matched = mm
	}
	if !strings.EqualFold(t.Fmspc, hex.EncodeToString(p.FMSPC)) {
		return false, matched, "FMSPC differs"
	}
	if !strings.EqualFold(t.PceID, hex.EncodeToString(p.PCEID)) {
		return false, matched, "PCE-ID differs"
	}
	ms, ok1 := unhex(t.TdxModule.Mrsigner)
	at, ok2 := unhex(t.TdxModule.Attributes)
	mk, ok3 := unhex(t.TdxModule.AttributesMask)
	if !ok1 || !ok2 || !ok3 {
		return false, matched, "tdxModule hex"
	}
	if !bytes.Equal(ms, p.MrSignerSeam) {
		return false, matched, "MRSIGNERSEAM differs"
	}
	if len(mk) != len(p.SeamAttrs) || !bytes.Equal(masked(p.SeamAttrs, mk), at) {
		return false, matched, "masked SEAM attributes differ"
	}
	for _, l := range t.TcbLevels {
		if levelMatches(l, p) {
			if l.TcbStatus != "UpToDate" {
				return false, matched, "first matching platform level is " + l.TcbStatus
			}
			if p.TeeTcbSvn[1] == 0 {
				return true, matched, ""
			}
			for _, m := range t.TdxModuleIdentities {
				if m.ID == fmt.Sprintf("TDX_%02x", p.TeeTcbSvn[1]) || m.ID == fmt.Sprintf("TDX_%02X", p.TeeTcbSvn[1]) {
					for _, ml := range m.TcbLevels {
						if ml.Tcb.Isvsvn <= int(p.TeeTcbSvn[0]) {
							if ml.TcbStatus != "UpToDate" {
								return false, matched, "first matching TDX module level is " + ml.TcbStatus
							}
							return true, matched, ""
						}
					}
					return false, matched, "no TDX module level matches"
				}
			}
			return false, matched, "TDX module identity absent"
		}
	}
	return false, matched, "no platform level matches"
}

// QE is the QE report side of C07.
type QE struct {
	MiscSelect []byte // 4 raw bytes
	Attributes []byte // 16
	MrSigner   []byte // 32
	IsvProdID  int
	IsvSvn     int
}

// QEOf reads the QE report fields from a parsed quote.
func QEOf(q *Parsed) QE {
	r := q.QEReport
	return QE{MiscSelect: r[16:20], Attributes: r[48:64], MrSigner: r[128:160],
		IsvProdID: int(r[256]) | int(r[257])<<8, IsvSvn: int(r[258]) | int(r[259])<<8}
}

// QeIdentityVerdict is the statement of C07 evaluated on a QE Identity document.
func QeIdentityVerdict(id QeIdentityJ, q QE) (bool, string) {
	ms, ok1 := unhex(id.Miscselect)
	mm, ok2 := unhex(id.MiscselectMask)
	at, ok3 := unhex(id.Attributes)
	am, ok4 := unhex(id.AttributesMask)
	sg, ok5 := unhex(id.Mrsigner)
	if !ok1 || !ok2 || !ok3 || !ok4 || !ok5 {
		return false, "hex"
	}
	if len(mm) != 4 || len(ms) != 4 || !bytes.Equal(masked(q.MiscSelect, mm), ms) {
		return false, "masked MISCSELECT differs"
	}
	if len(am) != len(q.Attributes) || !bytes.Equal(masked(q.Attributes, am), at) {
		return false, "masked ATTRIBUTES differ"
	}
	if !bytes.Equal(sg, q.MrSigner) {
		return false, "MRSIGNER differs"
	}
	if id.IsvProdID != q.IsvProdID {
		return false, "ISVPRODID differs"
	}
	for _, l := range id.TcbLevels {
		if l.Tcb.Isvsvn <= q.IsvSvn {
			if l.TcbStatus != "UpToDate" {
				return false, "first matching QE level is " + l.TcbStatus
			}
			return true, ""
		}
	}
	return false, "no QE level matches"
}

// ParseTime parses the PCS timestamp format.
func ParseTime(s string) (time.Time, bool) {
	t, err := time.Parse(time.RFC3339, s)
	return t, err == nil
}
