package ref

import (
	"bytes"
	"crypto/ecdsa"
	"crypto/x509"
	"encoding/hex"
	"encoding/json"
	"encoding/pem"
	"net/url"
	"strings"
	"time"
)

// Pair is one top-level member of a JSON object, in document order, duplicates kept.
type Pair struct {
	Key string
	Raw []byte
}

// TopLevelPairs lists the top-level members of a JSON object with their raw value bytes.
func TopLevelPairs(body []byte) ([]Pair, bool) {
	dec := json.NewDecoder(bytes.NewReader(body))
	tok, err := dec.Token()
	if err != nil || tok != json.Delim('{') {
		return nil, false
	}
	var out []Pair
	for dec.More() {
		kt, err := dec.Token()
		if err != nil {
			return nil, false
		}
		k, ok := kt.(string)
		if !ok {
			return nil, false
		}
		var raw json.RawMessage
		if err := dec.Decode(&raw); err != nil {
			return nil, false
		}
		out = append(out, Pair{k, []byte(raw)})
	}
	if tok, err := dec.Token(); err != nil || tok != json.Delim('}') {
		return nil, false
	}
	if dec.More() {
		return nil, false
	}
	return out, true
}

// HeaderCerts decodes an issuer-chain header value list into certificates.
func HeaderCerts(vals []string) []*x509.Certificate {
	if len(vals) != 1 {
		return nil
	}
	s, err := url.QueryUnescape(vals[0])
	if err != nil {
		return nil
	}
	var out []*x509.Certificate
	rest := []byte(s)
	for {
		var blk *pem.Block
		blk, rest = pem.Decode(rest)
		if blk == nil {
			break
		}
		c, err := x509.ParseCertificate(blk.Bytes)
		if err != nil || blk.Type != "CERTIFICATE" {
			return nil
		}
		out = append(out, c)
	}
	return out
}

// DocAuth is the authenticity judgement of one collateral response.
type DocAuth struct {
	Authentic bool
	Member    []byte // the raw member bytes that verified
	Why       string
}

// DocAuthentic evaluates the authenticity clause of C03 on a response: some
// member spelled exactly `member` has raw bytes that verify, under a signature
// field of the same response, with the first certificate of the issuer chain,
// which is named "Intel SGX TCB Signing", is signed by the key of the second
// certificate, a self-signed "Intel SGX Root CA", and is signed by the key of a
// trusted root.
func DocAuthentic(body []byte, hdrVals []string, member string, pool []*x509.Certificate) DocAuth {
	certs := HeaderCerts(hdrVals)
	if len(certs) < 2 {
		return DocAuth{Why: "issuer chain does not hold two certificates"}
	}
	signer, root := certs[0], certs[1]
	if signer.Subject.CommonName != "Intel SGX TCB Signing" {
		return DocAuth{Why: "signer is not named Intel SGX TCB Signing"}
	}
	if root.Subject.CommonName != "Intel SGX Root CA" || !SignedByKeyOf(root, root) {
		return DocAuth{Why: "issuer root is not a self-signed Intel SGX Root CA"}
	}
	if !SignedByKeyOf(signer, root) {
		return DocAuth{Why: "signer not issued by the presented root"}
	}
	if n := len(signer.ExtKeyUsage) + len(signer.UnknownExtKeyUsage); n != 0 {
		open := false
		for _, u := range signer.ExtKeyUsage {
			if u == x509.ExtKeyUsageAny || u == x509.ExtKeyUsageServerAuth {
				open = true
			}
		}
		if !open {
			return DocAuth{Why: "signer certificate is restricted by its issuer to another purpose (extended key usage)"}
		}
	}
	trusted := false
	for _, r := range pool {
		if SignedByKeyOf(signer, r) {
			trusted = true
		}
	}
	if !trusted {
		return DocAuth{Why: "signer does not chain to the trusted roots"}
	}
	pk, ok := signer.PublicKey.(*ecdsa.PublicKey)
	if !ok {
		return DocAuth{Why: "signer key type"}
	}
	pairs, ok := TopLevelPairs(body)
	if !ok {
		return DocAuth{Why: "body is not a JSON object"}
	}
	for _, sp := range pairs {
		if !strings.EqualFold(sp.Key, "signature") && sp.Key != "ſignature" {
			continue
		}
		var s string
		if json.Unmarshal(sp.Raw, &s) != nil {
			continue
		}
		sig, err := hex.DecodeString(s)
		if err != nil || len(sig) != 64 {
			continue
		}
		for _, mp := range pairs {
			if mp.Key == member && verifyRaw(pk, mp.Raw, sig) {
				return DocAuth{Authentic: true, Member: mp.Raw}
			}
		}
	}
	return DocAuth{Why: "no member verifies under a signature of the response"}
}

// CollateralVerdict is V: the verdict the signed members alone dictate at level L1
// for the given quote facts and verification times.
func CollateralVerdict(tcbMember, qeMember []byte, p Platform, q QE, tTcb, tQe time.Time) (bool, string) {
	var t TcbInfoJ
	if err := json.Unmarshal(tcbMember, &t); err != nil {
		return false, "tcbInfo member does not decode"
	}
	var e QeIdentityJ
	if err := json.Unmarshal(qeMember, &e); err != nil {
		return false, "enclaveIdentity member does not decode"
	}
	if t.ID != "TDX" || t.Version != 3 {
		return false, "tcbInfo id/version"
	}
	if e.ID != "TD_QE" || e.Version != 2 {
		return false, "enclaveIdentity id/version"
	}
	if len(t.TcbLevels) == 0 || len(e.TcbLevels) == 0 {
		return false, "empty level list"
	}
	if nu, ok := ParseTime(t.NextUpdate); !ok || tTcb.After(nu) {
		return false, "tcbInfo expired"
	}
	if nu, ok := ParseTime(e.NextUpdate); !ok || tQe.After(nu) {
		return false, "enclaveIdentity expired"
	}
	if ok, _, why := TcbInfoVerdict(t, p); !ok {
		return false, why
	}
	if ok, why := QeIdentityVerdict(e, q); !ok {
		return false, why
	}
	return true, ""
}
