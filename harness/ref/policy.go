package ref

import (
	"bytes"
	"encoding/binary"
)

// Policy is the literal content of a validation policy (options or message).
type Policy struct {
	QeVendorID, MrSeam, TdAttributes, Xfam, MrTd, MrConfigID, MrOwner, MrOwnerConfig, ReportData []byte
	Rtmrs, AnyMrTd                                                                               [][]byte
	MinQeSvn, MinPceSvn                                                                          uint32
	MinTeeTcbSvn                                                                                 []byte
}

// Architectural fixed-bit masks (own copy; Intel TDX module spec, ATTRIBUTES / XFAM).
const (
	XfamFixed1   uint64 = 0x3
	XfamFixed0   uint64 = 0x0006DBE7
	TdAttrFixed1 uint64 = 0
	TdAttrFixed0 uint64 = 1 | 1<<28 | 1<<30 | 1<<63
)

// Verdict of the reference: what the statement demands.
type Verdict int

const (
	MustAccept Verdict = iota
	MustReject
	Either // the statement leaves it open (wrongly sized option, no configured expectation missed)
)

func (v Verdict) String() string { return [...]string{"must-accept", "must-reject", "either"}[v] }

type exact struct {
	opt, got []byte
	size     int
}

// Judge evaluates the policy on the quote bytes (fields taken from the v4 layout).
func (p Policy) Judge(q *Parsed) Verdict {
	h, b := q.Header, q.Body
	missed, illFormed := false, false
	chk := func(opt, got []byte) {
		if len(opt) == 0 {
			return
		}
		if len(opt) != len(got) {
			// a non-empty expectation of another size can never equal the quote's field: the quote misses it
			missed = true
			return
		}
		if !bytes.Equal(opt, got) {
			missed = true
		}
	}
	chk(p.QeVendorID, h[12:28])
	chk(p.MrSeam, b[16:64])
	chk(p.TdAttributes, b[120:128])
	chk(p.Xfam, b[128:136])
	chk(p.MrTd, b[136:184])
	chk(p.MrConfigID, b[184:232])
	chk(p.MrOwner, b[232:280])
	chk(p.MrOwnerConfig, b[280:328])
	chk(p.ReportData, b[520:584])
	if len(p.Rtmrs) != 0 {
		if len(p.Rtmrs) != 4 {
			illFormed = true
		}
		for i := 0; i < len(p.Rtmrs) && i < 4; i++ {
			chk(p.Rtmrs[i], b[328+48*i:376+48*i])
		}
	}
	if len(p.AnyMrTd) != 0 {
		allNonEmpty, anyMatch, anyBadLen := true, false, false
		for _, e := range p.AnyMrTd {
			switch {
			case len(e) == 0:
				allNonEmpty = false
			case len(e) != 48:
				anyBadLen = true
			case bytes.Equal(e, b[136:184]):
				anyMatch = true
			}
		}
		switch {
		case !allNonEmpty:
			// an empty entry: the statement only speaks about sets of non-empty values
			illFormed = true
		case !anyMatch:
			// a set of non-empty values (of whatever size) none of which is the quote's MR_TD
			missed = true
		case anyBadLen:
			illFormed = true
		}
	}
	if uint32(binary.LittleEndian.Uint16(h[10:12])) < p.MinQeSvn {
		missed = true
	}
	if uint32(binary.LittleEndian.Uint16(h[8:10])) < p.MinPceSvn {
		missed = true
	}
	if len(p.MinTeeTcbSvn) != 0 {
		if len(p.MinTeeTcbSvn) != 16 {
			illFormed = true
			for i := 0; i < 16 && i < len(p.MinTeeTcbSvn); i++ {
				if b[i] < p.MinTeeTcbSvn[i] {
					missed = true // a stated component minimum is not met, whatever the length problem
				}
			}
		} else {
			for i := 0; i < 16; i++ {
				if b[i] < p.MinTeeTcbSvn[i] {
					missed = true
				}
			}
		}
	}
	xfam := binary.LittleEndian.Uint64(b[128:136])
	if xfam&XfamFixed1 != XfamFixed1 || xfam&^XfamFixed0 != 0 {
		missed = true
	}
	attr := binary.LittleEndian.Uint64(b[120:128])
	if attr&TdAttrFixed1 != TdAttrFixed1 || attr&^TdAttrFixed0 != 0 {
		missed = true
	}
	switch {
	case missed:
		return MustReject
	case illFormed:
		return Either
	}
	return MustAccept
}

// WrongLength reports whether a byte-string expectation is non-empty and of the wrong length
// (the condition under which converting a policy message must fail).
func (p Policy) WrongLength() bool {
	bad := func(b []byte, n int) bool { return len(b) != 0 && len(b) != n }
	if bad(p.QeVendorID, 16) || bad(p.MrSeam, 48) || bad(p.TdAttributes, 8) || bad(p.Xfam, 8) || bad(p.MrTd, 48) ||
		bad(p.MrConfigID, 48) || bad(p.MrOwner, 48) || bad(p.MrOwnerConfig, 48) || bad(p.ReportData, 64) || bad(p.MinTeeTcbSvn, 16) {
		return true
	}
	for _, e := range p.Rtmrs {
		if bad(e, 48) {
			return true
		}
	}
	for _, e := range p.AnyMrTd {
		if bad(e, 48) {
			return true
		}
	}
	return false
}
