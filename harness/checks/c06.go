package checks

import (
	"bytes"
	"crypto/x509"
	"encoding/hex"
	"encoding/json"
	"fmt"
	"regexp"
	"strings"
	"time"

	"github.com/google/go-tdx-guest/verify"

	"verifharness/mc"
	"verifharness/world"
)

func init() {
	mc.Register(&mc.Check{ID: "C06", Category: "exploration",
		Rule:   "one honest world per shape with staggered, pairwise distinct validity instants (month k after / before the reference instant); only Options.Now varies: each of the five TimeSet fields in {safe} u {E-1s, E, E+1s for each of the expiry instants} u {nb-1s, nb for each notBefore}; all assignments with <=2 fields off safe (quick; <=3 thorough) at each checking level. Shape 1 (Intel-like: one root certificate shared by all chains, PCK-CRL issuer chain = the quote's CA certificates) is judged in both directions; shape 2 (every chain carries its own re-issued copy of root / CA with its own validity: 13 distinct expiry instants) only 'accept => in date'. Plus every fixed-length sequence of {point Now at a new time set, overwrite the pointed-to time set, copy the options by value, verify at L0/L1/L2} on ONE shared options value. Non-trivial: >=1 field off safe; distinct by (shape, level, assignment) / sequence",
		Assume: append([]string{"zero time.Time values are outside the alphabet (x509 treats them as 'now')", "CRL thisUpdate is not part of the statement"}, cryptoAssume...),
		Run:    runC06})
}

const (
	fPck = iota
	fTcb
	fQe
	fPckCrl
	fRootCrl
)

var fieldNames = []string{"PckCertChain", "TcbInfo", "QeIdentity", "PckCrl", "RootCaCrl"}

type c06con struct {
	name   string
	field  int
	level  int
	nb, na time.Time // zero = unconstrained
}

type c06shape struct {
	name     string
	raw      []byte
	getter   *world.Getter
	roots    *x509.CertPool
	cons     []c06con
	instants []time.Time
	both     bool
	focused  bool
}

// c06IssueDate, when set, replaces the issue date of both JSON documents in the next c06Build ("absent" removes the member).
var c06IssueDate string

func mo(k int) time.Time { return world.T0.AddDate(0, k, 0) }

// c06Build builds one honest world. With focus == "" validity instants are staggered (month k);
// with a focus, that one artifact's expiry (or, for "nb:<role>", notBefore) lies one month from the
// reference instant and every other instant is ten years away, so that it is the first to bite.
func c06Build(shape int, focus string) *c06shape {
	w := world.Honest("T")
	pki := w.PKI
	plat := w.Plat
	role := ""
	far := 0
	adj := func(nb, na int) (int, int) {
		if focus == "" {
			return nb, na
		}
		far++
		fnb, fna := -120-far, 120+far
		if focus == role {
			fna = 1
		}
		if focus == "nb:"+role {
			fnb = -1
		}
		return fnb, fna
	}
	cert := func(cn string, key *world.Key, ca bool, nb, na int, parent *x509.Certificate, signer *world.Key, sgx bool) *x509.Certificate {
		nb, na = adj(nb, na)
		s := world.CertSpec{CN: cn, Key: key, IsCA: ca, NotBefore: mo(nb), NotAfter: mo(na)}
		if ca && cn == world.CNRoot {
			s.MaxPathLen = 1
		} else if ca {
			s.MaxPathLen = -1
		}
		if sgx {
			s.SGXExt = world.SGXExtension(plat)
		}
		return world.MakeCert(s, parent, signer)
	}
	tcb2Key := world.NewKey("T/tcb2")
	s := &c06shape{both: shape == 1 || shape == 3}
	sharedSigner := shape == 3
	if sharedSigner {
		shape = 1
	}
	// shape 4: own copies, and the PCK-CRL issuer-chain header lists the root before the CA (well-formed, other order)
	reversedCrlHdr := shape == 4
	// shape 5: own copies, and the trusted pool also pins a long-lived re-issue of the platform CA (same key and
	// name): the path is validated through the pinned issue, the issue carried in the quote is judged for expiry
	pinnedInter := shape == 5
	if reversedCrlHdr || pinnedInter {
		shape = 2
	}
	var poolRoot, chainRoot, tcbRoot, qeRoot, crlRoot, inter, crlInter *x509.Certificate
	if shape == 1 {
		s.name = "shared-root"
		if sharedSigner {
			s.name = "shared-root+signer"
		}
		if focus != "" {
			s.name += "/first:" + focus
		}
		role = "root"
		poolRoot = cert(world.CNRoot, pki.RootKey, true, -60, 12, nil, pki.RootKey, false)
		chainRoot, tcbRoot, qeRoot, crlRoot = poolRoot, poolRoot, poolRoot, poolRoot
		role = "inter"
		inter = cert(world.CNPlatform, pki.InterKey, true, -5, 2, poolRoot, pki.RootKey, false)
		crlInter = inter
	} else {
		s.name = "own-copies"
		if focus != "" {
			s.name += "/first:" + focus
		}
		role = "root"
		poolRoot = cert(world.CNRoot, pki.RootKey, true, -60, 60, nil, pki.RootKey, false)
		role = "chainRoot"
		chainRoot = cert(world.CNRoot, pki.RootKey, true, -61, 12, nil, pki.RootKey, false)
		role = "tcbRoot"
		tcbRoot = cert(world.CNRoot, pki.RootKey, true, -62, 11, nil, pki.RootKey, false)
		role = "qeRoot"
		qeRoot = cert(world.CNRoot, pki.RootKey, true, -63, 13, nil, pki.RootKey, false)
		role = "crlRoot"
		crlRoot = cert(world.CNRoot, pki.RootKey, true, -64, 10, nil, pki.RootKey, false)
		role = "inter"
		inter = cert(world.CNPlatform, pki.InterKey, true, -5, 2, chainRoot, pki.RootKey, false)
		role = "crlInter"
		crlInter = cert(world.CNPlatform, pki.InterKey, true, -6, 9, crlRoot, pki.RootKey, false)
	}
	role = "leaf"
	leaf := cert(world.CNLeaf, pki.LeafKey, false, -1, 1, inter, pki.InterKey, true)
	role = "tcbSigner"
	tcbSigner := cert(world.CNTcb, pki.TcbKey, false, -2, 3, tcbRoot, pki.RootKey, false)
	role = "qeSigner"
	qeSigner := cert(world.CNTcb, tcb2Key, false, -3, 4, qeRoot, pki.RootKey, false)
	qeKey := tcb2Key
	if sharedSigner {
		qeSigner, qeKey = tcbSigner, pki.TcbKey
	}
	p := w.Parts.Clone()
	p.Chain = world.PEM(leaf, inter, chainRoot)
	raw, _ := p.Bytes()
	s.raw = raw
	ti, qi := w.TcbInfo, w.QeID
	nu := func(name string, staggered int) time.Time {
		if focus == "" {
			return mo(staggered)
		}
		if focus == name {
			return mo(1)
		}
		return mo(130 + staggered)
	}
	tcbNU, qeNU, pckCrlNU, rootCrlNU := nu("tcbNext", 5), nu("qeNext", 6), nu("pckCrlNext", 7), nu("rootCrlNext", 8)
	ti.NextUpdate, qi.NextUpdate = world.TimeStr(tcbNU), world.TimeStr(qeNU)
	ti.IssueDate, qi.IssueDate = world.TimeStr(mo(-300)), world.TimeStr(mo(-300)) // issued long ago: a stricter "not yet issued" check must not interfere
	if c06IssueDate != "" && c06IssueDate != "absent" {
		ti.IssueDate, qi.IssueDate = c06IssueDate, c06IssueDate
	}
	docJSON := func(v any) []byte {
		b := world.MustJSON(v)
		if c06IssueDate == "absent" {
			b = regexp.MustCompile(`"issueDate":"[^"]*",`).ReplaceAll(b, nil)
		}
		return b
	}
	if c06IssueDate != "" {
		s.name += "+issueDate=" + c06IssueDate
	}
	g := world.NewGetter()
	crlHdr := world.IssuerChainHeader(crlInter, crlRoot)
	if reversedCrlHdr {
		crlHdr = world.IssuerChainHeader(crlRoot, crlInter)
		s.name = strings.Replace(s.name, "own-copies", "own-copies+pckcrl-header-root-first", 1)
	}
	g.Responses[world.URLTcbInfo(hexs(plat.FMSPC))] = world.Response{Header: map[string][]string{world.HdrTcbInfo: {world.IssuerChainHeader(tcbSigner, tcbRoot)}},
		Body: world.SignedBody("tcbInfo", docJSON(ti), pki.TcbKey)}
	g.Responses[world.URLQeIdentity] = world.Response{Header: map[string][]string{world.HdrQeIdentity: {world.IssuerChainHeader(qeSigner, qeRoot)}},
		Body: world.SignedBody("enclaveIdentity", docJSON(qi), qeKey)}
	g.Responses[world.URLPckCrl("platform")] = world.Response{Header: map[string][]string{world.HdrPckCrl: {crlHdr}},
		Body: world.MakeCRL(world.CRLSpec{Issuer: inter, Signer: pki.InterKey, ThisUpdate: mo(-300), NextUpdate: pckCrlNU})}
	g.Responses[world.RootCRLURL] = world.Response{Body: world.MakeCRL(world.CRLSpec{Issuer: chainRoot, Signer: pki.RootKey, ThisUpdate: mo(-300), NextUpdate: rootCrlNU})}
	s.getter = g
	s.roots = world.Pool(poolRoot)
	if pinnedInter {
		pinned := world.MakeCert(world.CertSpec{CN: world.CNPlatform, IsCA: true, Key: pki.InterKey, MaxPathLen: -1, NotBefore: mo(-200), NotAfter: mo(200)}, poolRoot, pki.RootKey)
		s.roots = world.Pool(poolRoot, pinned)
		s.name = strings.Replace(s.name, "own-copies", "own-copies+platform-ca-pinned-in-pool", 1)
	}
	con := func(name string, field, level int, nb, na time.Time) {
		s.cons = append(s.cons, c06con{name, field, level, nb, na})
	}
	var z time.Time
	// PCK chain: explicit expiry of the three chain certificates + path validation (leaf, intermediate, trusted root)
	con("pck leaf", fPck, 0, leaf.NotBefore, leaf.NotAfter)
	if pinnedInter {
		con("pck intermediate carried in the quote (expiry)", fPck, 0, z, inter.NotAfter)
	} else {
		con("pck intermediate", fPck, 0, inter.NotBefore, inter.NotAfter)
	}
	con("pck chain root (expiry)", fPck, 0, z, chainRoot.NotAfter)
	con("trusted root (path)", fPck, 0, poolRoot.NotBefore, poolRoot.NotAfter)
	con("tcbInfo nextUpdate", fTcb, 1, z, tcbNU)
	con("tcbInfo signer", fTcb, 1, tcbSigner.NotBefore, tcbSigner.NotAfter)
	con("tcbInfo issuer root (expiry)", fTcb, 1, z, tcbRoot.NotAfter)
	con("trusted root (tcbInfo path)", fTcb, 1, poolRoot.NotBefore, poolRoot.NotAfter)
	con("qeIdentity nextUpdate", fQe, 1, z, qeNU)
	con("qeIdentity signer", fQe, 1, qeSigner.NotBefore, qeSigner.NotAfter)
	con("qeIdentity issuer root (expiry)", fQe, 1, z, qeRoot.NotAfter)
	con("trusted root (qeIdentity path)", fQe, 1, poolRoot.NotBefore, poolRoot.NotAfter)
	con("PCK CRL nextUpdate", fPckCrl, 2, z, pckCrlNU)
	con("PCK CRL issuer CA (expiry)", fPckCrl, 2, z, crlInter.NotAfter)
	con("PCK CRL issuer root (expiry)", fPckCrl, 2, z, crlRoot.NotAfter)
	con("Root CA CRL nextUpdate", fRootCrl, 2, z, rootCrlNU)
	if focus != "" {
		// candidate instants: only the one that bites first
		t := mo(1)
		if strings.HasPrefix(focus, "nb:") {
			t = mo(-1)
		}
		s.instants = []time.Time{t}
		s.focused = true
		return s
	}
	seen := map[int64]bool{}
	for _, c := range s.cons {
		for _, t := range []time.Time{c.nb, c.na} {
			if !t.IsZero() && !seen[t.Unix()] {
				seen[t.Unix()] = true
				s.instants = append(s.instants, t)
			}
		}
	}
	return s
}

// inDate: every artifact governed by a field at this level is inside its window at that field's time.
func (s *c06shape) inDate(level int, ts [5]time.Time) (bool, string) {
	for _, c := range s.cons {
		if c.level > level {
			continue
		}
		t := ts[c.field]
		if !c.nb.IsZero() && t.Before(c.nb) {
			return false, fmt.Sprintf("%s not yet valid at %s time", c.name, fieldNames[c.field])
		}
		if !c.na.IsZero() && t.After(c.na) {
			return false, fmt.Sprintf("%s expired at %s time", c.name, fieldNames[c.field])
		}
	}
	return true, ""
}

func runC06(r *mc.Run) {
	shapes := []*c06shape{c06Build(1, ""), c06Build(2, "")}
	for _, f := range []string{"leaf", "inter", "root", "tcbSigner", "qeSigner", "tcbNext", "qeNext", "pckCrlNext", "rootCrlNext", "nb:leaf", "nb:inter", "nb:root", "nb:tcbSigner", "nb:qeSigner"} {
		shapes = append(shapes, c06Build(1, f))
	}
	for _, f := range []string{"leaf", "inter", "root", "chainRoot", "tcbSigner", "tcbRoot", "qeSigner", "qeRoot", "crlInter", "crlRoot", "tcbNext", "qeNext", "pckCrlNext", "rootCrlNext", "nb:leaf", "nb:inter", "nb:root", "nb:tcbSigner", "nb:qeSigner"} {
		shapes = append(shapes, c06Build(2, f))
	}
	for _, f := range []string{"", "crlInter", "crlRoot", "nb:crlInter"} {
		shapes = append(shapes, c06Build(4, f))
	}
	for _, f := range []string{"", "inter", "leaf", "chainRoot"} {
		shapes = append(shapes, c06Build(5, f))
	}
	// documents whose issue date is absent or centuries away (a duration computed from it saturates)
	for _, d := range []string{"absent", "1700-01-01T00:00:00Z", "2400-01-01T00:00:00Z", "0001-01-01T00:00:00Z"} {
		c06IssueDate = d
		for _, f := range []string{"tcbNext", "qeNext"} {
			shapes = append(shapes, c06Build(2, f))
		}
		c06IssueDate = ""
	}
	// documents issued AFTER the moment their signer (or the root) became valid, that moment being the boundary
	// explored: a certificate is judged at the configured time, whatever the document says about its own issue
	for _, d := range []string{world.TimeStr(mo(0)), world.TimeStr(mo(-1).Add(time.Hour)), world.TimeStr(mo(1))} {
		c06IssueDate = d
		for _, f := range []string{"nb:tcbSigner", "nb:qeSigner", "nb:root"} {
			shapes = append(shapes, c06Build(2, f))
		}
		shapes = append(shapes, c06Build(3, "nb:tcbSigner"))
		c06IssueDate = ""
	}
	// Intel-like in one more respect: one TCB-signing certificate serves both JSON documents
	shapes = append(shapes, c06Build(3, ""))
	for _, f := range []string{"root", "tcbSigner", "nb:root", "nb:tcbSigner", "tcbNext", "qeNext"} {
		shapes = append(shapes, c06Build(3, f))
	}
	c06Histories(r, shapes[0])
	c06UnsignedDates(r)
	c06TwoDigitYears(r)
	for _, s := range shapes {
		// candidate values per field
		type tv struct {
			name string
			t    time.Time
		}
		var vals, pairVals, zoneVals []tv
		for _, e := range s.instants {
			k := (e.Year()-world.T0.Year())*12 + int(e.Month()) - 1
			for _, d := range []int{-1, 0, 1} {
				v := tv{fmt.Sprintf("m%+d%+ds", k, d), e.Add(time.Duration(d) * time.Second)}
				vals = append(vals, v)
				if d != -1 || e.Before(world.T0) {
					pairVals = append(pairVals, v)
				}
			}
			// the same instants written in other zones, and instants between whole seconds (singles only): an
			// instant is an instant, whatever its location or sub-second part
			for _, z := range []struct {
				n   string
				loc *time.Location
			}{{"utc-8", time.FixedZone("UTC-8", -8*3600)}, {"utc+5:30", time.FixedZone("UTC+5:30", 5*3600+1800)}} {
				for _, d := range []int{-1, 0, 1} {
					zoneVals = append(zoneVals, tv{fmt.Sprintf("m%+d%+ds@%s", k, d, z.n), e.Add(time.Duration(d) * time.Second).In(z.loc)})
				}
			}
			for _, d := range []time.Duration{-time.Nanosecond, time.Nanosecond, 500 * time.Millisecond, -500 * time.Millisecond} {
				zoneVals = append(zoneVals, tv{fmt.Sprintf("m%+d%+v", k, d), e.Add(d)})
			}
			// far later: one second before the instant plus a span after which a counter of seconds / nanoseconds kept
			// in 31, 32, 63 or 64 bits comes round again (68 / 136 / 292 / 584 years), and plain centuries
			const half = time.Duration(1<<63 - 1)
			for _, w := range []struct {
				n string
				f func(t time.Time) time.Time
			}{
				{"+2^31s", func(t time.Time) time.Time { return t.Add(time.Duration(1<<31) * time.Second) }},
				{"+2^32s", func(t time.Time) time.Time { return t.Add(time.Duration(1<<32) * time.Second) }},
				{"+2^63ns", func(t time.Time) time.Time { return t.Add(half).Add(1) }},
				{"+2^64ns", func(t time.Time) time.Time { return t.Add(half).Add(half).Add(2) }},
				{"+100y", func(t time.Time) time.Time { return t.AddDate(100, 0, 0) }},
				{"+1000y", func(t time.Time) time.Time { return t.AddDate(1000, 0, 0) }},
			} {
				zoneVals = append(zoneVals, tv{fmt.Sprintf("m%+d-1s%s", k, w.n), w.f(e.Add(-time.Second))})
			}
			zoneVals = append(zoneVals, tv{fmt.Sprintf("m%+d+1h@utc-8", k), e.Add(time.Hour).In(time.FixedZone("UTC-8", -8*3600))},
				tv{fmt.Sprintf("m%+d-1h@utc+5:30", k), e.Add(-time.Hour).In(time.FixedZone("UTC+5:30", 5*3600+1800))})
		}
		type asg struct {
			level int
			f     []int
			v     []tv
		}
		var work []asg
		lvls := []int{world.L0, world.L1, world.L2}
		for _, l := range lvls {
			work = append(work, asg{level: l})
			for f := 0; f < 5; f++ {
				for _, v := range vals {
					work = append(work, asg{l, []int{f}, []tv{v}})
				}
				for _, v := range zoneVals {
					work = append(work, asg{l, []int{f}, []tv{v}})
				}
			}
		}
		pairLevels := []int{world.L2}
		if r.Thorough() {
			pairLevels = lvls
		}
		if !r.Thorough() && !s.both {
			pairLevels = nil
		}
		if s.focused {
			pairLevels = lvls
			pairVals = vals
		}
		for _, l := range pairLevels {
			for f1 := 0; f1 < 5; f1++ {
				for f2 := f1 + 1; f2 < 5; f2++ {
					for _, v1 := range pairVals {
						for _, v2 := range pairVals {
							work = append(work, asg{l, []int{f1, f2}, []tv{v1, v2}})
						}
					}
				}
			}
		}
		if r.Thorough() && s.both {
			// triples over the expiry instants only, at the revocation level
			var ex []tv
			for _, v := range pairVals {
				if v.t.After(world.T0) {
					ex = append(ex, v)
				}
			}
			for f1 := 0; f1 < 5; f1++ {
				for f2 := f1 + 1; f2 < 5; f2++ {
					for f3 := f2 + 1; f3 < 5; f3++ {
						for i1 := 0; i1 < len(ex); i1 += 2 {
							for i2 := 1; i2 < len(ex); i2 += 2 {
								for i3 := 0; i3 < len(ex); i3 += 2 {
									work = append(work, asg{world.L2, []int{f1, f2, f3}, []tv{ex[i1], ex[i2], ex[i3]}})
								}
							}
						}
					}
				}
			}
		}
		done := r.Parallel(len(work), func(i int) {
			a := work[i]
			ts := [5]time.Time{world.T0, world.T0, world.T0, world.T0, world.T0}
			id := fmt.Sprintf("time/%s/%s/", s.name, lvlName[a.level])
			for k, f := range a.f {
				ts[f] = a.v[k].t
				id += fmt.Sprintf("%s=%s,", fieldNames[f], a.v[k].name)
			}
			if !r.Want(id) {
				return
			}
			now := verify.TimeSet{PckCertChain: ts[0], TcbInfo: ts[1], QeIdentity: ts[2], PckCrl: ts[3], RootCaCrl: ts[4]}
			o := &verify.Options{GetCollateral: a.level >= 1, CheckRevocations: a.level >= 2, Getter: s.getter.Clone(), Now: &now, TrustedRoots: s.roots}
			err := verifyRawBoth(r, id, s.raw, o)
			want, why := s.inDate(a.level, ts)
			out := verdict(err)
			detail := map[string]any{"now": fmt.Sprint(now), "reference": why}
			switch {
			case world.IsPanic(err):
			case err == nil && !want:
				r.Violate("accepted-out-of-date:"+s.name+":"+why, id, "quote accepted although "+why, detail)
				out = "accept!"
			case err != nil && want && s.both:
				r.Violate("rejected-in-date:"+s.name+":"+lvlName[a.level]+":"+offFields(a.f), id, "quote rejected although every artifact is in date at its own time: "+errStr(err), detail)
				out = "reject!"
			}
			r.Eval(id, len(a.f) > 0, fmt.Sprintf("%s:want=%v/%s", s.name, want, out))
			// a caller that does not check revocation leaves the two CRL entries of the time set unset: the other
			// entries are judged exactly as before
			usesCrlField := false
			for _, f := range a.f {
				usesCrlField = usesCrlField || f >= 3
			}
			if a.level == world.L1 && !usesCrlField {
				id2 := id + "crl-times-unset"
				if r.Want(id2) {
					now2 := verify.TimeSet{PckCertChain: ts[0], TcbInfo: ts[1], QeIdentity: ts[2]}
					o2 := &verify.Options{GetCollateral: true, Getter: s.getter.Clone(), Now: &now2, TrustedRoots: s.roots}
					err2 := verifyRawBoth(r, id2, s.raw, o2)
					out2 := verdict(err2)
					switch {
					case world.IsPanic(err2):
					case err2 == nil && !want:
						r.Violate("accepted-out-of-date:crl-times-unset:"+s.name+":"+why, id2, "quote accepted (CRL entries of the time set left unset) although "+why, detail)
						out2 = "accept!"
					case err2 != nil && want && s.both:
						r.Violate("rejected-in-date:crl-times-unset:"+s.name+":"+offFields(a.f), id2, "quote rejected (CRL entries of the time set left unset) although every artifact looked at is in date at its own time: "+errStr(err2), detail)
						out2 = "reject!"
					}
					r.Eval(id2, true, fmt.Sprintf("%s:crl-unset:want=%v/%s", s.name, want, out2))
				}
			}
		})
		r.SectionDone(mc.Section{Name: "time-assignments/" + s.name, Evaluations: int64(done), Exhaustive: done == len(work),
			Note: fmt.Sprintf("%d distinct instants; singles at L0-L2, pairs at %v", len(s.instants), pairLevels)})
	}
}

// c06Histories: every sequence of a fixed length over {point Options.Now at a NEW time set, overwrite
// the time set Options.Now already points to, copy the options by value, verify at L0/L1/L2} on ONE
// shared options value; each verification is judged against the reference at the times configured at
// that moment, so a time that is read once and remembered shows.
func c06Histories(r *mc.Run, s *c06shape) {
	type tset struct {
		name string
		ts   [5]time.Time
	}
	all0 := [5]time.Time{world.T0, world.T0, world.T0, world.T0, world.T0}
	menu := []tset{{"all@T0", all0}}
	for f := 0; f < 5; f++ {
		var first time.Time
		for _, c := range s.cons {
			if c.field == f && !c.na.IsZero() && (first.IsZero() || c.na.Before(first)) {
				first = c.na
			}
		}
		if first.IsZero() {
			continue
		}
		ts := all0
		ts[f] = first.Add(time.Second)
		menu = append(menu, tset{fieldNames[f] + "@first-expiry+1s", ts})
	}
	mk := func(ts [5]time.Time) verify.TimeSet {
		return verify.TimeSet{PckCertChain: ts[0], TcbInfo: ts[1], QeIdentity: ts[2], PckCrl: ts[3], RootCaCrl: ts[4]}
	}
	type op struct {
		name  string
		kind  int // 0 new pointer, 1 overwrite in place, 2 copy options, 3 verify
		arg   int
		level int
	}
	var ops []op
	for i, m := range menu {
		ops = append(ops, op{"Now=&{" + m.name + "}", 0, i, 0}, op{"*Now={" + m.name + "}", 1, i, 0})
	}
	ops = append(ops, op{"copy-options-by-value", 2, 0, 0})
	nv := 3
	for l := 0; l < nv; l++ {
		ops = append(ops, op{"verify(" + lvlName[l] + ")", 3, 0, l})
	}
	depth := 3
	if r.Thorough() {
		depth = 4
	}
	n := len(ops)
	total := nv
	for i := 1; i < depth; i++ {
		total *= n
	}
	done := r.Parallel(total, func(idx int) {
		seq := make([]int, depth)
		x := idx
		seq[depth-1] = n - nv + x%nv
		x /= nv
		for i := depth - 2; i >= 0; i-- {
			seq[i] = x % n
			x /= n
		}
		id := "history/" + s.name + "/"
		for _, k := range seq {
			id += ops[k].name + ";"
		}
		if !r.Want(id) {
			return
		}
		cur := all0
		now := mk(cur)
		o := &verify.Options{Now: &now, TrustedRoots: s.roots}
		out := ""
		for step, k := range seq {
			p := ops[k]
			switch p.kind {
			case 0:
				cur = menu[p.arg].ts
				t := mk(cur)
				o.Now = &t
			case 1:
				cur = menu[p.arg].ts
				*o.Now = mk(cur)
			case 2:
				c := *o
				o = &c
			case 3:
				o.GetCollateral, o.CheckRevocations, o.Getter = p.level >= 1, p.level >= 2, s.getter.Clone()
				err := world.SafeVerifyRaw(s.raw, o)
				want, why := s.inDate(p.level, cur)
				v := verdict(err)
				detail := map[string]any{"now": fmt.Sprint(*o.Now), "reference": why, "step": step + 1}
				switch {
				case world.IsPanic(err):
					r.Violate("history:panic:"+crashSite(err), id, "verification through a re-used options value crashes: "+errStr(err), detail)
				case err == nil && !want:
					r.Violate("history:accepted-out-of-date:"+why, id, "through a re-used options value the quote is accepted although "+why+" (at the times configured for this call)", detail)
					v = "accept!"
				case err != nil && want:
					r.Violate("history:rejected-in-date:"+lvlName[p.level], id, "through a re-used options value the quote is rejected although every artifact is in date at the times configured for this call: "+errStr(err), detail)
					v = "reject!"
				}
				out += fmt.Sprintf("%v/%s;", want, v)
			}
		}
		r.Eval(id, true, "history:"+out)
	})
	r.SectionDone(mc.Section{Name: "reused-options-histories/" + s.name, Evaluations: int64(done), MaxDepth: depth, Exhaustive: done == total,
		Note: fmt.Sprintf("alphabet of %d operations (%d time sets x {new pointer, in place}, copy, verify at 3 levels), every sequence of length %d ending in a verification", n, len(menu), depth)})
}

func offFields(f []int) string {
	s := ""
	for _, x := range f {
		s += fieldNames[x] + "+"
	}
	return s
}

// c06UnsignedDates: the dates that decide are those of the SIGNED document. Responses whose signed member lacks
// nextUpdate (absent / null), or states one that has passed, accompanied by unsigned look-alike members (other
// capitalisation of the member name, before or after the signed one; an unsigned top-level nextUpdate) that state a
// date far in the future: never in date. The complete signed document next to the same look-alikes is the control.
// c06TwoDigitYears: CRLs whose nextUpdate is a UTCTime with a year of 50..99 — by RFC 5280 that is 19YY, decades in
// the past (and before the list's own thisUpdate; issuing tools do not check) — and, as controls, the last instants a
// UTCTime can express in this century. Lists of 1951, 1987 and 1999 are expired in 2030.
func c06TwoDigitYears(r *mc.Run) {
	n := 0
	for _, which := range []string{"pck-crl", "root-crl"} {
		for _, nu := range []struct {
			text  string
			stale bool
		}{{"510101000000Z", true}, {"870601120000Z", true}, {"991231235959Z", true}, {"500101000000Z", true}, {"491231235959Z", false}, {"300201000000Z", false}, {"291231235959Z", true}, {"000101000000Z", true}} {
			id := fmt.Sprintf("two-digit-years/%s/nextUpdate=%s", which, nu.text)
			if !r.Want(id) {
				continue
			}
			n++
			w := world.Honest("T")
			if which == "pck-crl" {
				w.PckCrl = world.RedateCRL(world.MakeCRL(world.CRLSpec{Issuer: w.PKI.Inter, Signer: w.PKI.InterKey}), w.PKI.InterKey, nu.text)
			} else {
				w.RootCrl = world.RedateCRL(world.MakeCRL(world.CRLSpec{Issuer: w.PKI.Root, Signer: w.PKI.RootKey}), w.PKI.RootKey, nu.text)
			}
			w.Finish()
			err := verifyRawBoth(r, id, w.Raw(), w.Options(world.L2))
			out := verdict(err)
			switch {
			case world.IsPanic(err):
			case nu.stale && err == nil:
				r.Violate("two-digit-years:expired-crl-accepted:"+which, id, "quote accepted at 2030-01-01 although the "+which+"'s nextUpdate is "+nu.text+" (UTCTime: years 50..99 are 19YY)", nil)
				out = "accept!"
			case !nu.stale && err != nil:
				r.Violate("two-digit-years:in-date-crl-rejected:"+which, id, "quote rejected although the "+which+" (nextUpdate "+nu.text+") is in date: "+errStr(err), nil)
				out = "reject!"
			}
			r.Eval(id, true, "two-digit-years:"+out)
		}
	}
	r.SectionDone(mc.Section{Name: "two-digit-years", Evaluations: int64(n), Exhaustive: true})
}

func c06UnsignedDates(r *mc.Run) {
	w := world.Honest("T")
	type docSel struct {
		member, shadowName, url, hdrKey string
		raw                             []byte
		hdr                             map[string][]string
	}
	docs := []docSel{{"tcbInfo", "TcbInfo", world.URLTcbInfo(hexs(w.Plat.FMSPC)), world.HdrTcbInfo, w.TcbRaw, w.TcbHdr},
		{"enclaveIdentity", "EnclaveIdentity", world.URLQeIdentity, world.HdrQeIdentity, w.QeRaw, w.QeHdr}}
	reNU := regexp.MustCompile(`"nextUpdate":"[^"]*"`)
	type variant struct {
		name   string
		signed func(raw []byte) []byte
		inDate bool // whether the signed document is in date at T0
	}
	variants := []variant{
		{"complete", func(raw []byte) []byte { return raw }, true},
		{"next-update-absent", func(raw []byte) []byte {
			return bytes.ReplaceAll(reNU.ReplaceAll(raw, nil), []byte(`,,`), []byte(`,`))
		}, false},
		{"next-update-null", func(raw []byte) []byte { return reNU.ReplaceAll(raw, []byte(`"nextUpdate":null`)) }, false},
		{"next-update-passed", func(raw []byte) []byte {
			return reNU.ReplaceAll(raw, []byte(`"nextUpdate":"`+world.TimeStr(world.T0.AddDate(0, 0, -1))+`"`))
		}, false},
	}
	shadows := []string{"none", "capitalised-member-after", "capitalised-member-before", "upper-case-member-after", "same-name-member-before", "top-level-nextUpdate", "top-level-NextUpdate-and-issueDate"}
	type job struct{ d, v, sh int }
	var jobs []job
	for d := range docs {
		for v := range variants {
			for sh := range shadows {
				jobs = append(jobs, job{d, v, sh})
			}
		}
	}
	done := r.Parallel(len(jobs), func(i int) {
		j := jobs[i]
		d, v := docs[j.d], variants[j.v]
		id := fmt.Sprintf("unsigned-dates/%s/signed=%s/shadow=%s", d.member, v.name, shadows[j.sh])
		if !r.Want(id) {
			return
		}
		signed := v.signed(d.raw)
		if !json.Valid(signed) {
			r.HarnessError("C06 %s: edited document is not valid JSON: %s", id, signed)
			return
		}
		far := reNU.ReplaceAll(d.raw, []byte(`"nextUpdate":"2099-01-01T00:00:00Z"`))
		sig := hex.EncodeToString(w.PKI.TcbKey.SignRaw(signed))
		m := fmt.Sprintf("%q:%s", d.member, signed)
		sg := fmt.Sprintf("%q:%q", "signature", sig)
		var body string
		switch shadows[j.sh] {
		case "none":
			body = "{" + m + "," + sg + "}"
		case "capitalised-member-after":
			body = "{" + m + "," + sg + fmt.Sprintf(",%q:%s}", d.shadowName, far)
		case "capitalised-member-before":
			body = fmt.Sprintf("{%q:%s,", d.shadowName, far) + m + "," + sg + "}"
		case "upper-case-member-after":
			body = "{" + m + "," + sg + fmt.Sprintf(",%q:%s}", strings.ToUpper(d.member), far)
		case "same-name-member-before":
			body = fmt.Sprintf("{%q:%s,", d.member, far) + m + "," + sg + "}"
		case "top-level-nextUpdate":
			body = "{" + m + "," + sg + `,"nextUpdate":"2099-01-01T00:00:00Z"}`
		case "top-level-NextUpdate-and-issueDate":
			body = `{"NextUpdate":"2099-01-01T00:00:00Z","issueDate":"2001-01-01T00:00:00Z",` + m + "," + sg + "}"
		}
		if !json.Valid([]byte(body)) {
			r.HarnessError("C06 %s: response body is not valid JSON", id)
			return
		}
		g := w.Getter.Clone()
		g.Responses[d.url] = world.Response{Header: d.hdr, Body: []byte(body)}
		o := w.Options(world.L1)
		o.Getter = g
		err := verifyRawBoth(r, id, w.Raw(), o)
		out := verdict(err)
		switch {
		case world.IsPanic(err):
		case err == nil && !v.inDate:
			r.Violate("unsigned-dates:accepted:"+v.name+":"+shadows[j.sh], id, "quote accepted although the signed "+d.member+" document is not in date (its nextUpdate is "+v.name[len("next-update-"):]+"); an unsigned member of the response states a later date", map[string]any{"body": body})
			out = "accept!"
		case err != nil && v.inDate && shadows[j.sh] == "none":
			r.Violate("unsigned-dates:control-rejected", id, "the honest response is rejected: "+errStr(err), nil)
			out = "reject!"
		}
		r.Eval(id, j.v != 0 || j.sh != 0, fmt.Sprintf("unsigned-dates:in-date=%v/%s", v.inDate, out))
	})
	r.SectionDone(mc.Section{Name: "unsigned-dates", Evaluations: int64(done), Exhaustive: done == len(jobs), Note: "2 documents x 4 signed variants x 7 unsigned look-alikes"})
}
