package checks

import (
	"bytes"
	"crypto/sha512"
	"crypto/x509"
	"encoding/binary"
	"errors"
	"fmt"
	"math/big"
	"os"
	"strings"

	"github.com/google/go-eventlog/extract"
	"github.com/google/go-eventlog/proto/state"
	"github.com/google/go-tdx-guest/rtmr"
	"github.com/google/go-tdx-guest/validate"
	"github.com/google/go-tdx-guest/verify"

	"verifharness/mc"
	"verifharness/ref"
	"verifharness/world"
)

func init() {
	mc.Register(&mc.Check{ID: "C18", Category: "exploration",
		Rule:   "the repository's COS event log with its quote body re-signed under the harness PKI; cases: (verification gate in {ok, 11 signature-chain / trust / expiry faults}) x (policy gate in {ok, 12 mismatching expectations incl. REPORT_DATA vs nonce and SVN minima}) x (RTMR in {unchanged, every single-bit flip of RTMR0-3, each correctly re-signed}); all pairs of gate faults, every RTMR bit alone and with one fault of each gate. Non-trivial: any case other than the all-ok baseline; distinct by id",
		Assume: append([]string{"which RTMRs the log measures is established by an independent TCG event-log walk in the harness (also used as driver self-check: its replay must equal the quote's RTMRs)", "a flip in an RTMR the log does not measure has no stated verdict"}, cryptoAssume...),
		Run:    runC18})
}

// ccelMeasured walks a crypto-agile TCG event log and replays SHA-384 digests per register.
func ccelMeasured(log []byte) (regs [4][48]byte, measured [4]bool, events int, ok bool) {
	regs, measured, events, _, ok = ccelWalk(log)
	return
}

// ccelAppend writes one more SHA-384 event (EV_EVENT_TAG) for CC measurement register idx at the end of the
// events of log (into its padding) and returns the new log.
func ccelAppend(log []byte, idx uint32, data []byte) ([]byte, bool) {
	_, _, _, end, ok := ccelWalk(log)
	if !ok {
		return nil, false
	}
	d := sha512.Sum384(data)
	var ev []byte
	le := binary.LittleEndian
	ev = le.AppendUint32(ev, idx)
	ev = le.AppendUint32(ev, 6)
	ev = le.AppendUint32(ev, 1)
	ev = le.AppendUint16(ev, 0x000c)
	ev = append(ev, d[:]...)
	ev = le.AppendUint32(ev, uint32(len(data)))
	ev = append(ev, data...)
	if end+len(ev) > len(log) {
		return nil, false
	}
	out := append([]byte(nil), log...)
	copy(out[end:], ev)
	return out, true
}

func ccelWalk(log []byte) (regs [4][48]byte, measured [4]bool, events int, end int, ok bool) {
	off := 0
	u32 := func() (uint32, bool) {
		if off+4 > len(log) {
			return 0, false
		}
		v := binary.LittleEndian.Uint32(log[off:])
		off += 4
		return v, true
	}
	// header event in the SHA-1 format
	if _, ok1 := u32(); !ok1 {
		return
	}
	if _, ok1 := u32(); !ok1 {
		return
	}
	off += 20
	sz, ok1 := u32()
	if !ok1 || off+int(sz) > len(log) {
		return
	}
	off += int(sz)
	algSize := map[uint16]int{0x0004: 20, 0x000b: 32, 0x000c: 48, 0x000d: 64, 0x0012: 32}
	for off+12 <= len(log) {
		end = off
		idx, _ := u32()
		typ, _ := u32()
		cnt, _ := u32()
		if idx == 0xffffffff || (idx == 0 && typ == 0 && cnt == 0) || cnt > 8 {
			break
		}
		var d384 []byte
		for k := uint32(0); k < cnt; k++ {
			if off+2 > len(log) {
				return
			}
			alg := binary.LittleEndian.Uint16(log[off:])
			off += 2
			n, known := algSize[alg]
			if !known || off+n > len(log) {
				return
			}
			if alg == 0x000c {
				d384 = log[off : off+n]
			}
			off += n
		}
		esz, ok2 := u32()
		if !ok2 || off+int(esz) > len(log) {
			return
		}
		off += int(esz)
		end = off
		events++
		if idx >= 1 && idx <= 4 && d384 != nil {
			h := sha512.New384()
			h.Write(regs[idx-1][:])
			h.Write(d384)
			copy(regs[idx-1][:], h.Sum(nil))
			measured[idx-1] = true
		}
	}
	return regs, measured, events, end, events > 0
}

type c18fault struct {
	name  string
	apply func(p *world.QuoteParts, o *rtmr.ParseTdxCcelOpts)
}

func runC18(r *mc.Run) {
	rd := func(n string) []byte {
		b, err := os.ReadFile(repoRoot() + "/testing/testdata/ccel/" + n)
		if err != nil {
			r.HarnessError("C18: cannot read sample %s: %v", n, err)
		}
		return b
	}
	ccelBytes, tableBytes, cos, nonce := rd("ccel_data.dat"), rd("ccel_table.dat"), rd("cos-113-tdx-quote.dat"), rd("nonce.dat")
	if len(cos) < 632 || len(ccelBytes) == 0 {
		return
	}
	regs, measured, nev, ok := ccelMeasured(ccelBytes)
	if !ok {
		r.HarnessError("C18: the harness's event-log walk cannot read the sample log")
		return
	}
	for i := 0; i < 4; i++ {
		if measured[i] && !bytes.Equal(regs[i][:], cos[48+328+48*i:48+376+48*i]) {
			r.HarnessError("C18 driver self-check: independent replay of RTMR%d differs from the sample quote", i)
			return
		}
	}
	r.Set("event_log", map[string]any{"events": nev, "measured_rtmrs": measured})
	// a second log: the sample plus one run-time event for CC MR index 4 (RTMR3), so that every register is measured
	ccel2, ok2 := ccelAppend(ccelBytes, 4, []byte("verif: run-time measurement into RTMR3"))
	regs2, measured2, _, _ := ccelMeasured(ccel2)
	if !ok2 || !measured2[3] || measured2 != [4]bool{true, true, true, true} && !(measured[0] && measured[1] && measured[2]) {
		r.HarnessError("C18: cannot append an RTMR3 event to the sample log")
		return
	}
	logs := [][]byte{ccelBytes, ccel2}
	measuredBy := [][4]bool{measured, measured2}
	w := world.Honest("T")
	// collateral that matches the sample quote's TD body, so that the verification gate can also be
	// exercised with collateral and revocation checking switched on
	tee := cos[48 : 48+16]
	w.TcbInfo = world.DefaultTcbInfo(w.Plat, tee)
	w.TcbInfo.TdxModule = world.TdxModule{Mrsigner: hexs(cos[48+64 : 48+112]), Attributes: hexs(cos[48+112 : 48+120]), AttributesMask: "FFFFFFFFFFFFFFFF"}
	if tee[1] != 0 {
		w.TcbInfo.TdxModuleIdentities = []world.ModuleIdentity{{ID: fmt.Sprintf("TDX_%02x", tee[1]), Mrsigner: hexs(cos[48+64 : 48+112]), Attributes: "0000000000000000", AttributesMask: "FFFFFFFFFFFFFFFF",
			TcbLevels: []world.Level{{Tcb: world.Tcb{Isvsvn: world.IntP(int(tee[0]))}, TcbDate: "2029-01-01T00:00:00Z", TcbStatus: "UpToDate"}}}}
	}
	w.Finish()
	T, F := w.PKI, world.CachedPKI("F")
	withGetter := func(o *rtmr.ParseTdxCcelOpts, level int, mod func(g *world.Getter)) {
		g := w.Getter.Clone()
		if mod != nil {
			mod(g)
		}
		o.Verification.Getter = g
		o.Verification.GetCollateral, o.Verification.CheckRevocations = level >= 1, level >= 2
	}
	down := world.Response{Err: errors.New("503 service unavailable")}
	att := world.NewKey("att")
	baseParts := func() *world.QuoteParts {
		p := w.Parts.Clone()
		p.Header = append([]byte(nil), cos[0:48]...)
		p.Body = append([]byte(nil), cos[48:632]...)
		return p
	}
	baseOpts := func() *rtmr.ParseTdxCcelOpts {
		o := rtmr.TdxDefaultOpts(nonce)
		now := world.TimeSetAt(world.T0)
		o.Verification = &verify.Options{Now: &now, TrustedRoots: w.Roots}
		o.ExtractOpt = extract.Opts{Loader: extract.GRUB}
		return &o
	}
	noResign := map[string]bool{}
	vfaults := []c18fault{
		{"ok", nil},
		{"body-altered-after-signing", func(p *world.QuoteParts, o *rtmr.ParseTdxCcelOpts) { p.Body[20] ^= 1 }},
		{"body-signed-by-foreign-key", func(p *world.QuoteParts, o *rtmr.ParseTdxCcelOpts) { p.SignBody(world.NewKey("c18-foreign")) }},
		{"qe-signed-by-foreign-key", func(p *world.QuoteParts, o *rtmr.ParseTdxCcelOpts) { p.SignQE(world.NewKey("c18-foreign")) }},
		{"hash-binding-broken", func(p *world.QuoteParts, o *rtmr.ParseTdxCcelOpts) { p.QEReport[325] ^= 4; p.SignQE(T.LeafKey) }},
		{"chain-under-foreign-pki", func(p *world.QuoteParts, o *rtmr.ParseTdxCcelOpts) { p.Chain = F.Chain(); p.SignQE(F.LeafKey) }},
		{"look-alike-intermediate", func(p *world.QuoteParts, o *rtmr.ParseTdxCcelOpts) { p.Chain = world.PEM(T.Leaf, F.Inter, T.Root) }},
		{"wrong-trusted-pool", func(p *world.QuoteParts, o *rtmr.ParseTdxCcelOpts) { o.Verification.TrustedRoots = world.Pool(F.Root) }},
		{"embedded-root-instead", func(p *world.QuoteParts, o *rtmr.ParseTdxCcelOpts) { o.Verification.TrustedRoots = nil }},
		{"expired", func(p *world.QuoteParts, o *rtmr.ParseTdxCcelOpts) {
			now := world.TimeSetAt(world.T0.AddDate(40, 0, 0))
			o.Verification.Now = &now
		}},
		{"revocation-without-collateral", func(p *world.QuoteParts, o *rtmr.ParseTdxCcelOpts) { o.Verification.CheckRevocations = true }},
		{"carried-root-is-an-expired-issue-of-the-trusted-root", func(p *world.QuoteParts, o *rtmr.ParseTdxCcelOpts) {
			old := world.MakeCert(world.CertSpec{CN: world.CNRoot, IsCA: true, Key: T.RootKey, MaxPathLen: 1, Serial: big.NewInt(0x0c18), NotBefore: world.T0.AddDate(-10, 0, 0), NotAfter: world.T0.AddDate(0, 0, -3)}, nil, T.RootKey)
			p.Chain = world.PEM(T.Leaf, T.Inter, old)
		}},
		{"carried-intermediate-is-an-expired-issue", func(p *world.QuoteParts, o *rtmr.ParseTdxCcelOpts) {
			old := world.MakeCert(world.CertSpec{CN: world.CNPlatform, IsCA: true, Key: T.InterKey, MaxPathLen: -1, Serial: big.NewInt(0x1c18), NotBefore: world.T0.AddDate(-10, 0, 0), NotAfter: world.T0.AddDate(0, 0, -3)}, T.Root, T.RootKey)
			p.Chain = world.PEM(T.Leaf, old, T.Root)
		}},
		{"zeroed-signature", func(p *world.QuoteParts, o *rtmr.ParseTdxCcelOpts) { p.Sig = make([]byte, 64) }},
		// faults that only exist with collateral / revocation checking on
		{"L1:tcbinfo-endpoint-down", func(p *world.QuoteParts, o *rtmr.ParseTdxCcelOpts) {
			withGetter(o, 1, func(g *world.Getter) { g.Responses[world.URLTcbInfo(hexs(w.Plat.FMSPC))] = down })
		}},
		{"L1:qeidentity-endpoint-down", func(p *world.QuoteParts, o *rtmr.ParseTdxCcelOpts) {
			withGetter(o, 1, func(g *world.Getter) { g.Responses[world.URLQeIdentity] = down })
		}},
		{"L2:pck-crl-endpoint-down", func(p *world.QuoteParts, o *rtmr.ParseTdxCcelOpts) {
			withGetter(o, 2, func(g *world.Getter) { g.Responses[world.URLPckCrl("platform")] = down })
		}},
		{"L2:root-crl-endpoint-down", func(p *world.QuoteParts, o *rtmr.ParseTdxCcelOpts) {
			withGetter(o, 2, func(g *world.Getter) { g.Responses[world.RootCRLURL] = down })
		}},
		{"L2:pck-crl-garbage", func(p *world.QuoteParts, o *rtmr.ParseTdxCcelOpts) {
			withGetter(o, 2, func(g *world.Getter) {
				g.Responses[world.URLPckCrl("platform")] = world.Response{Header: w.PckHdr, Body: []byte("garbage")}
			})
		}},
		{"L2:leaf-revoked", func(p *world.QuoteParts, o *rtmr.ParseTdxCcelOpts) {
			withGetter(o, 2, func(g *world.Getter) {
				g.Responses[world.URLPckCrl("platform")] = world.Response{Header: w.PckHdr, Body: world.MakeCRL(world.CRLSpec{Issuer: T.Inter, Signer: T.InterKey, Revoked: []*big.Int{T.Leaf.SerialNumber}})}
			})
		}},
		{"L1:tcb-revoked", func(p *world.QuoteParts, o *rtmr.ParseTdxCcelOpts) {
			withGetter(o, 1, func(g *world.Getter) {
				ti := w.TcbInfo
				ti.TcbLevels = []world.Level{world.PlatformLevel(w.Plat, tee, "Revoked")}
				g.Responses[world.URLTcbInfo(hexs(w.Plat.FMSPC))] = world.Response{Header: w.TcbHdr, Body: world.SignedBody("tcbInfo", world.MustJSON(ti), T.TcbKey)}
			})
		}},
		{"L2:crl-outage+body-signed-by-foreign-key", func(p *world.QuoteParts, o *rtmr.ParseTdxCcelOpts) {
			p.SignBody(world.NewKey("c18-foreign"))
			withGetter(o, 2, func(g *world.Getter) { g.Responses[world.RootCRLURL] = down })
		}},
	}
	// controls: the gate passes with collateral / revocation checking on (a state must come back)
	vcontrols := []c18fault{
		{"L1:ok", func(p *world.QuoteParts, o *rtmr.ParseTdxCcelOpts) { withGetter(o, 1, nil) }},
		{"L2:ok", func(p *world.QuoteParts, o *rtmr.ParseTdxCcelOpts) { withGetter(o, 2, nil) }},
	}
	// (appended, so that the positions of the faults above stay what the case lists below refer to)
	vfaults = append(vfaults,
		c18fault{"report-data-upper-half-not-zero", func(p *world.QuoteParts, o *rtmr.ParseTdxCcelOpts) { p.QEReport[352+5] = 1; p.SignQE(T.LeafKey) }},
		c18fault{"report-data-last-byte-not-zero", func(p *world.QuoteParts, o *rtmr.ParseTdxCcelOpts) { p.QEReport[383] = 0x80; p.SignQE(T.LeafKey) }})
	nControlsFrom := len(vfaults)
	vfaults = append(vfaults, vcontrols...)
	noResign["body-altered-after-signing"], noResign["body-signed-by-foreign-key"], noResign["zeroed-signature"] = true, true, true
	_ = noResign
	flip := func(b []byte, i int) []byte { c := append([]byte(nil), b...); c[i] ^= 0x20; return c }
	pfaults := []c18fault{
		{"ok", nil},
		{"report-data-vs-nonce", func(p *world.QuoteParts, o *rtmr.ParseTdxCcelOpts) {
			o.Validation.TdQuoteBodyOptions.ReportData = flip(o.Validation.TdQuoteBodyOptions.ReportData, 3)
		}},
		{"report-data-two-bytes-high-bit", func(p *world.QuoteParts, o *rtmr.ParseTdxCcelOpts) {
			v := append([]byte(nil), o.Validation.TdQuoteBodyOptions.ReportData...)
			v[3] ^= 0x80
			v[40] ^= 0x80
			o.Validation.TdQuoteBodyOptions.ReportData = v
		}},
		{"report-data-01+ff", func(p *world.QuoteParts, o *rtmr.ParseTdxCcelOpts) {
			v := append([]byte(nil), o.Validation.TdQuoteBodyOptions.ReportData...)
			v[0] ^= 0x01
			v[63] ^= 0xff
			o.Validation.TdQuoteBodyOptions.ReportData = v
		}},
		{"rtmr1-expectation-four-bytes-0x40", func(p *world.QuoteParts, o *rtmr.ParseTdxCcelOpts) {
			var l [][]byte
			for i := 0; i < 4; i++ {
				l = append(l, append([]byte(nil), cos[48+328+48*i:48+376+48*i]...))
			}
			for _, k := range []int{1, 7, 20, 47} {
				l[1][k] ^= 0x40
			}
			o.Validation.TdQuoteBodyOptions.Rtmrs = l
		}},
		{"report-data-last-byte", func(p *world.QuoteParts, o *rtmr.ParseTdxCcelOpts) {
			o.Validation.TdQuoteBodyOptions.ReportData = flip(o.Validation.TdQuoteBodyOptions.ReportData, 63)
		}},
		{"mr-td", func(p *world.QuoteParts, o *rtmr.ParseTdxCcelOpts) {
			o.Validation.TdQuoteBodyOptions.MrTd = flip(cos[48+136:48+184], 0)
		}},
		{"mr-seam", func(p *world.QuoteParts, o *rtmr.ParseTdxCcelOpts) {
			o.Validation.TdQuoteBodyOptions.MrSeam = flip(cos[48+16:48+64], 47)
		}},
		{"mr-config-id", func(p *world.QuoteParts, o *rtmr.ParseTdxCcelOpts) {
			o.Validation.TdQuoteBodyOptions.MrConfigID = flip(cos[48+184:48+232], 1)
		}},
		{"mr-owner", func(p *world.QuoteParts, o *rtmr.ParseTdxCcelOpts) {
			o.Validation.TdQuoteBodyOptions.MrOwner = flip(cos[48+232:48+280], 1)
		}},
		{"td-attributes", func(p *world.QuoteParts, o *rtmr.ParseTdxCcelOpts) {
			o.Validation.TdQuoteBodyOptions.TdAttributes = flip(cos[48+120:48+128], 7)
		}},
		{"xfam", func(p *world.QuoteParts, o *rtmr.ParseTdxCcelOpts) {
			o.Validation.TdQuoteBodyOptions.Xfam = flip(cos[48+128:48+136], 0)
		}},
		{"qe-vendor-id", func(p *world.QuoteParts, o *rtmr.ParseTdxCcelOpts) {
			o.Validation.HeaderOptions.QeVendorID = flip(cos[12:28], 5)
		}},
		{"minimum-qe-svn", func(p *world.QuoteParts, o *rtmr.ParseTdxCcelOpts) {
			o.Validation.HeaderOptions.MinimumQeSvn = binary.LittleEndian.Uint16(cos[10:12]) + 1
		}},
		{"minimum-tee-tcb-svn", func(p *world.QuoteParts, o *rtmr.ParseTdxCcelOpts) {
			v := append([]byte(nil), cos[48:64]...)
			v[0]++
			o.Validation.TdQuoteBodyOptions.MinimumTeeTcbSvn = v
		}},
		{"minimum-tee-tcb-svn:earlier-component-lower,later-higher", func(p *world.QuoteParts, o *rtmr.ParseTdxCcelOpts) {
			v := append([]byte(nil), cos[48:64]...)
			v[0]--
			v[2]++
			o.Validation.TdQuoteBodyOptions.MinimumTeeTcbSvn = v
		}},
		{"minimum-tee-tcb-svn:component9-higher-only", func(p *world.QuoteParts, o *rtmr.ParseTdxCcelOpts) {
			v := append([]byte(nil), cos[48:64]...)
			v[1] = 0
			v[9]++
			o.Validation.TdQuoteBodyOptions.MinimumTeeTcbSvn = v
		}},
		{"expected-rtmr1", func(p *world.QuoteParts, o *rtmr.ParseTdxCcelOpts) {
			o.Validation.TdQuoteBodyOptions.Rtmrs = [][]byte{nil, flip(cos[48+376:48+424], 2), nil, nil}
		}},
		{"any-mr-td", func(p *world.QuoteParts, o *rtmr.ParseTdxCcelOpts) {
			o.Validation.TdQuoteBodyOptions.AnyMrTd = [][]byte{flip(cos[48+136:48+184], 9)}
		}},
	}
	// two expectations on one field: both must hold (a pinned MR_TD and an allowed list; pinned RTMRs and report data)
	pfaults = append(pfaults,
		c18fault{"mr-td-pinned-to-another-value+any-mr-td-lists-the-quotes", func(p *world.QuoteParts, o *rtmr.ParseTdxCcelOpts) {
			o.Validation.TdQuoteBodyOptions.MrTd = flip(p.Body[136:184], 4)
			o.Validation.TdQuoteBodyOptions.AnyMrTd = [][]byte{world.Fill("c18-other-mrtd", 48), append([]byte(nil), p.Body[136:184]...)}
		}},
		c18fault{"mr-td-pinned-to-the-quotes+any-mr-td-lacks-it", func(p *world.QuoteParts, o *rtmr.ParseTdxCcelOpts) {
			o.Validation.TdQuoteBodyOptions.MrTd = append([]byte(nil), p.Body[136:184]...)
			o.Validation.TdQuoteBodyOptions.AnyMrTd = [][]byte{world.Fill("c18-other-mrtd", 48), flip(p.Body[136:184], 40)}
		}},
		c18fault{"mr-td-pinned-to-the-quotes+any-mr-td-lists-it(control)", func(p *world.QuoteParts, o *rtmr.ParseTdxCcelOpts) {
			o.Validation.TdQuoteBodyOptions.MrTd = append([]byte(nil), p.Body[136:184]...)
			o.Validation.TdQuoteBodyOptions.AnyMrTd = [][]byte{append([]byte(nil), p.Body[136:184]...)}
		}})
	// a field pinned to exactly the value the quote carries (a no-op for a legal quote; the architectural masks hold
	// whether or not the field is pinned)
	pinFrom := len(pfaults)
	pfaults = append(pfaults,
		c18fault{"td-attributes-pinned-to-the-quotes-own-value", func(p *world.QuoteParts, o *rtmr.ParseTdxCcelOpts) {
			o.Validation.TdQuoteBodyOptions.TdAttributes = append([]byte(nil), p.Body[120:128]...)
		}},
		c18fault{"xfam-pinned-to-the-quotes-own-value", func(p *world.QuoteParts, o *rtmr.ParseTdxCcelOpts) {
			o.Validation.TdQuoteBodyOptions.Xfam = append([]byte(nil), p.Body[128:136]...)
		}},
		c18fault{"td-attributes+xfam-pinned-to-the-quotes-own-values", func(p *world.QuoteParts, o *rtmr.ParseTdxCcelOpts) {
			o.Validation.TdQuoteBodyOptions.TdAttributes = append([]byte(nil), p.Body[120:128]...)
			o.Validation.TdQuoteBodyOptions.Xfam = append([]byte(nil), p.Body[128:136]...)
		}})
	pinTo := len(pfaults)
	// the three owner-supplied identities (all 48 bytes) pinned to the quote's own values — a control — and
	// cross-wired: each expectation holding another identity's value of the same quote
	ownerFrom := len(pfaults)
	fieldAt := func(p *world.QuoteParts, k int) []byte { return append([]byte(nil), p.Body[184+48*k:232+48*k]...) }
	for _, perm := range [][3]int{{0, 1, 2}, {0, 2, 1}, {1, 0, 2}, {2, 1, 0}, {1, 2, 0}, {2, 0, 1}} {
		perm := perm
		pfaults = append(pfaults, c18fault{fmt.Sprintf("owner-identities-pinned:config-id=field%d,owner=field%d,owner-config=field%d", perm[0], perm[1], perm[2]), func(p *world.QuoteParts, o *rtmr.ParseTdxCcelOpts) {
			o.Validation.TdQuoteBodyOptions.MrConfigID = fieldAt(p, perm[0])
			o.Validation.TdQuoteBodyOptions.MrOwner = fieldAt(p, perm[1])
			o.Validation.TdQuoteBodyOptions.MrOwnerConfig = fieldAt(p, perm[2])
		}})
	}
	for k, nm := range []string{"config-id", "owner", "owner-config"} {
		for j := 0; j < 3; j++ {
			if j == k {
				continue
			}
			k, j := k, j
			pfaults = append(pfaults, c18fault{fmt.Sprintf("only-%s-pinned-to-field%d", nm, j), func(p *world.QuoteParts, o *rtmr.ParseTdxCcelOpts) {
				v := fieldAt(p, j)
				switch k {
				case 0:
					o.Validation.TdQuoteBodyOptions.MrConfigID = v
				case 1:
					o.Validation.TdQuoteBodyOptions.MrOwner = v
				case 2:
					o.Validation.TdQuoteBodyOptions.MrOwnerConfig = v
				}
			}})
		}
	}
	ownerTo := len(pfaults)
	// minimum QE / PCE security versions against quotes whose header carries non-zero, non-palindromic values
	svnFrom := len(pfaults)
	for _, n := range []uint16{1, 2, 5, 255, 256, 257, 0x0500, 0xffff} {
		n := n
		pfaults = append(pfaults, c18fault{fmt.Sprintf("minimum-qe-svn=%d", n), func(p *world.QuoteParts, o *rtmr.ParseTdxCcelOpts) { o.Validation.HeaderOptions.MinimumQeSvn = n }},
			c18fault{fmt.Sprintf("minimum-pce-svn=%d", n), func(p *world.QuoteParts, o *rtmr.ParseTdxCcelOpts) { o.Validation.HeaderOptions.MinimumPceSvn = n }})
	}
	svnTo := len(pfaults)
	type c18case struct{ v, p, bit, lg int }
	var cases []c18case
	for v := range vfaults {
		for p := range pfaults {
			cases = append(cases, c18case{v, p, -1, 0})
		}
	}
	// lg bits 4 / 5: the quote's TD_ATTRIBUTES has a reserved bit set / its XFAM a forbidden bit
	for p := pinFrom; p < pinTo; p++ {
		cases = append(cases, c18case{0, p, -1, 16}, c18case{0, p, -1, 32}, c18case{0, p, -1, 48})
	}
	cases = append(cases, c18case{0, 0, -1, 16}, c18case{0, 0, -1, 32})
	// every single bit of TD_ATTRIBUTES and of XFAM set (lg>>8 = 1+bit / 65+bit): the policy gate follows the fixed-bit
	// rules for each position, not only for the first and last bit of a group
	for b := 1; b <= 128; b++ {
		cases = append(cases, c18case{0, 0, -1, b << 8}, c18case{0, 5, -1, b << 8})
	}
	// a register of the (re-signed) quote differs from the replay while ANOTHER 48-byte field of the body holds the
	// value the replay gives for it (lg>>8 = 200 + 7*register + field): only the register itself is compared
	// the message is changed AFTER parsing: register k of the parsed message is replaced (a fresh slice) by the value
	// the log replays to, while the signed bytes hold another value. The signature does not cover what is presented
	// (lg>>8 = 300 + k)
	for k := 0; k < 4; k++ {
		cases = append(cases, c18case{0, 0, k*384 + 5, (300 + k) << 8}, c18case{0, 0, k*384 + 5, (300+k)<<8 | 1})
	}
	// the parsed message's 16-bit numeric fields widened by 65536 (the serialised, signed form cannot tell): such a
	// message is not a valid quote (lg>>8 = 310 + field)
	for f := 0; f < 7; f++ {
		cases = append(cases, c18case{0, 0, -1, (310 + f) << 8})
	}
	for reg := 0; reg < 4; reg++ {
		for f := 0; f < 7; f++ {
			cases = append(cases, c18case{0, 0, reg * 384, (200 + 7*reg + f) << 8}, c18case{0, 0, reg*384 + 383, (200 + 7*reg + f) << 8})
		}
	}
	// lg bits 2 / 3: the header carries PCE SVN 5 / QE SVN 1 (bytes 05 00 / 01 00) resp. PCE SVN 0x0201 / QE SVN 0x0100
	for p := svnFrom; p < svnTo; p++ {
		cases = append(cases, c18case{0, p, -1, 4}, c18case{0, p, -1, 8})
	}
	cases = append(cases, c18case{0, 0, -1, 4}, c18case{0, 0, -1, 8}, c18case{2, 0, -1, 4})
	// lg bit 1: the quote carries three distinct owner-supplied identities (the sample's are equal to each other)
	for p := range pfaults {
		cases = append(cases, c18case{0, p, -1, 2})
		if p == 0 || (p >= ownerFrom && p < ownerTo) {
			cases = append(cases, c18case{2, p, -1, 2}, c18case{0, p, -1, 3}, c18case{0, p, 384 + 5, 2})
		}
	}
	nbits := 4 * 384
	for b := 0; b < nbits; b++ {
		cases = append(cases, c18case{0, 0, b, 0})
	}
	// bits combined with one fault of each gate (every 8th bit quick, all thorough)
	step := 8
	if r.Thorough() {
		step = 1
	}
	for b := 0; b < nbits; b += step {
		for _, vp := range [][2]int{{2, 0}, {7, 0}, {0, 1}, {0, 3}, {5, 10}} {
			cases = append(cases, c18case{vp[0], vp[1], b, 0})
		}
	}
	// whole-register values a shortcut might treat specially: all zero (the reset value), all 0xFF, another
	// register's value, only the first 32 / last 16 bytes kept, byte-reversed; alone and with one fault of each gate
	specials := []string{"zero", "ff", "next-register", "tail16-zero", "head32-zero", "reversed"}
	for i := 0; i < 4; i++ {
		for k := range specials {
			for _, vp := range [][2]int{{0, 0}, {2, 0}, {0, 1}} {
				cases = append(cases, c18case{vp[0], vp[1], nbits + 10*i + k, 0})
			}
		}
	}
	// the log with an RTMR3 event: baseline, every bit of RTMR3, the special values of every register, every 8th
	// bit of the others, one fault of each gate
	cases = append(cases, c18case{0, 0, -1, 1}, c18case{2, 0, -1, 1}, c18case{0, 1, -1, 1})
	for b := 0; b < nbits; b++ {
		if b/384 == 3 || b%8 == 0 {
			cases = append(cases, c18case{0, 0, b, 1})
		}
	}
	for i := 0; i < 4; i++ {
		for k := range specials {
			cases = append(cases, c18case{0, 0, nbits + 10*i + k, 1})
		}
	}
	if r.Thorough() {
		for v := range vfaults {
			for p := range pfaults {
				for b := 0; b < nbits; b += 16 {
					cases = append(cases, c18case{v, p, b, 0})
				}
			}
		}
	}
	rp0, _ := ref.ParseQuote(func() []byte { b, _ := baseParts().Bytes(); return b }())
	_ = rp0
	done := r.Parallel(len(cases), func(i int) {
		c := cases[i]
		id := fmt.Sprintf("ccel/verify=%s,policy=%s", vfaults[c.v].name, pfaults[c.p].name)
		special := c.bit >= nbits
		reg := c.bit / 384
		if special {
			reg = (c.bit - nbits) / 10
			id += fmt.Sprintf(",rtmr%d=%s", reg, specials[(c.bit-nbits)%10])
		} else if c.bit >= 0 {
			id += fmt.Sprintf(",rtmr%d^bit%d", c.bit/384, c.bit%384)
		}
		if c.lg&1 == 1 {
			id = "ccel+rtmr3-event/" + id[5:]
		}
		if c.lg&2 != 0 {
			id += ",distinct-owner-identities"
		}
		if c.lg&4 != 0 {
			id += ",header-svns=pce5/qe1"
		}
		if c.lg&16 != 0 {
			id += ",td-attributes-reserved-bit4"
		}
		if c.lg&32 != 0 {
			id += ",xfam-forbidden-bit3"
		}
		if c.lg&8 != 0 {
			id += ",header-svns=pce0x0201/qe0x0100"
		}
		c18Fields := []string{"mr_seam", "mrsigner_seam", "mr_td", "mr_config_id", "mr_owner", "mr_owner_config", "next-register"}
		c18Wide := []string{"qe_report.isv_svn", "qe_report.isv_prod_id", "header.version", "header.attestation_key_type", "header.version(+131072)", "certification_data.type", "qe_auth_data.parsed_data_size"}
		if fb := c.lg >> 8; fb >= 310 {
			id += ",message-" + c18Wide[fb-310] + "+65536"
		} else if fb >= 300 {
			id += fmt.Sprintf(",message-rtmr%d-replaced-by-replay-value-after-parsing", fb-300)
		} else if fb >= 200 {
			id += fmt.Sprintf(",replay-value-of-rtmr%d-in-%s", (fb-200)/7, c18Fields[(fb-200)%7])
		} else if fb > 64 {
			id += fmt.Sprintf(",xfam|=bit%d", fb-65)
		} else if fb > 0 {
			id += fmt.Sprintf(",td-attributes|=bit%d", fb-1)
		}
		if !r.Want(id) {
			return
		}
		measured := measuredBy[c.lg&1]
		p := baseParts()
		if c.lg&4 != 0 {
			copy(p.Header[8:12], []byte{5, 0, 1, 0})
		}
		if c.lg&16 != 0 {
			p.Body[120] |= 0x10
		}
		if c.lg&32 != 0 {
			p.Body[128] |= 0x08
		}
		if c.lg&8 != 0 {
			copy(p.Header[8:12], []byte{1, 2, 0, 1})
		}
		if fb := c.lg >> 8; fb >= 300 {
			// nothing to do to the signed bytes beyond the bit flip below
		} else if fb >= 200 {
			rg, f := (fb-200)/7, (fb-200)%7
			off := []int{16, 64, 136, 184, 232, 280, 328 + 48*((rg+1)%4)}[f]
			if c.lg&1 == 1 && rg == 3 {
				copy(p.Body[off:off+48], regs2[3][:])
			} else {
				copy(p.Body[off:off+48], append([]byte(nil), p.Body[328+48*rg:376+48*rg]...))
			}
		} else if fb > 64 {
			p.Body[128+(fb-65)/8] |= 1 << uint((fb-65)%8)
		} else if fb > 0 {
			p.Body[120+(fb-1)/8] |= 1 << uint((fb-1)%8)
		}
		if c.lg&2 != 0 {
			copy(p.Body[184:232], world.Fill("c18-config-id", 48))
			copy(p.Body[232:280], world.Fill("c18-owner", 48))
			copy(p.Body[280:328], world.Fill("c18-owner-config", 48))
		}
		if c.lg&1 == 1 {
			copy(p.Body[328+48*3:376+48*3], regs2[3][:])
		}
		o := baseOpts()
		changed := c.bit >= 0
		if special {
			cur := p.Body[328+48*reg : 376+48*reg]
			old := append([]byte(nil), cur...)
			switch specials[(c.bit-nbits)%10] {
			case "zero":
				copy(cur, make([]byte, 48))
			case "ff":
				copy(cur, bytes.Repeat([]byte{0xff}, 48))
			case "next-register":
				nx := (reg + 1) % 4
				copy(cur, append([]byte(nil), p.Body[328+48*nx:376+48*nx]...))
			case "tail16-zero":
				copy(cur[32:], make([]byte, 16))
			case "head32-zero":
				copy(cur[:32], make([]byte, 32))
			case "reversed":
				for a, b := 0, 47; a < b; a, b = a+1, b-1 {
					cur[a], cur[b] = cur[b], cur[a]
				}
			}
			changed = !bytes.Equal(old, cur)
		} else if c.bit >= 0 {
			p.Body[328+c.bit/8] ^= 1 << uint(c.bit%8)
		}
		p.SignBody(att) // the RTMR change is correctly re-signed: the signature chain stays valid
		if f := vfaults[c.v].apply; f != nil {
			f(p, o)
		}
		if f := pfaults[c.p].apply; f != nil {
			f(p, o)
		}
		raw, _ := p.Bytes()
		q, perr := safeToProto(raw)
		if perr != nil {
			r.HarnessError("C18 %s: generated quote does not parse: %v", id, perr)
			return
		}
		presentedDiffers := false
		if fb := c.lg >> 8; fb >= 310 {
			sd := q.GetSignedData().GetCertificationData()
			qc := sd.GetQeReportCertificationData()
			switch fb - 310 {
			case 0:
				qc.QeReport.IsvSvn += 65536
			case 1:
				qc.QeReport.IsvProdId += 65536
			case 2:
				q.Header.Version += 65536
			case 3:
				q.Header.AttestationKeyType += 65536
			case 4:
				q.Header.Version += 2 * 65536
			case 5:
				sd.CertificateDataType += 65536
			case 6:
				qc.QeAuthData.ParsedDataSize += 65536
			}
			presentedDiffers = true
		}
		if fb := c.lg >> 8; fb >= 300 && fb < 304 && c.bit >= 0 && !special {
			k := fb - 300
			orig := append([]byte(nil), p.Body[328+48*k:376+48*k]...)
			orig[(c.bit%384)/8] ^= 1 << uint(c.bit%8) // the value before the (signed) bit flip: what the log replays to
			q.TdQuoteBody.Rtmrs[k] = orig
			presentedDiffers = true
		}
		var st *state.FirmwareLogState
		var err error
		func() {
			defer world.Recover(&err)
			st, err = rtmr.ParseCcelWithTdQuote(logs[c.lg&1], tableBytes, q, o)
		}()
		// reference gates
		gateV := (c.v == 0 || c.v >= nControlsFrom) && !presentedDiffers
		pol := polOf(o.Validation)
		rp, _ := ref.ParseQuote(raw)
		gateP := pol.Judge(rp) == ref.MustAccept
		measuredFlip := changed && measured[reg]
		unmeasuredFlip := changed && !measured[reg]
		out := "error"
		if st != nil && err == nil {
			out = "state"
		} else if st != nil {
			out = "state+error"
		}
		detail := map[string]any{"error": errStr(err)}
		switch {
		case world.IsPanic(err):
			r.Violate("panic:"+crashSite(err), id, "ParseCcelWithTdQuote crashes: "+errStr(err), detail)
			out = "panic"
		case st != nil && !gateV:
			r.Violate("state-despite-verification-failure:"+vfaults[c.v].name, id, "a firmware log state is returned although the quote fails verification ("+vfaults[c.v].name+")", detail)
			out += "!"
		case st != nil && !gateP:
			r.Violate("state-despite-policy-failure:"+pfaults[c.p].name, id, "a firmware log state is returned although the quote fails the policy ("+pfaults[c.p].name+")", detail)
			out += "!"
		case st != nil && measuredFlip:
			r.Violate(fmt.Sprintf("state-despite-rtmr-mismatch:rtmr%d", reg), id, "a firmware log state is returned although a measured RTMR of the (correctly re-signed) quote differs from the replay", detail)
			out += "!"
		case (!gateV || !gateP || measuredFlip) && err == nil:
			r.Violate("no-error-on-failure", id, "a gate failed but no error is returned", detail)
			out = "nil-error!"
		case gateV && gateP && !changed && (st == nil || err != nil):
			r.Violate("baseline-rejected", id, "the unmodified re-signed quote with its event log yields no state: "+errStr(err), detail)
			out += "!"
		}
		kind := "gates"
		if measuredFlip {
			kind = "measured-rtmr-flip"
		} else if unmeasuredFlip {
			kind = "unmeasured-rtmr-flip"
		}
		r.Eval(id, i != 0, fmt.Sprintf("%s:v=%v,p=%v:%s", kind, gateV, gateP, out))
	})
	r.SectionDone(mc.Section{Name: "gates-x-rtmr", Evaluations: int64(done), Exhaustive: done == len(cases)})
	// the GENUINE sample quote (certified by Intel's real chain) with its event log: a state comes back under the
	// embedded root (no pool given) and under no pool that does not hold Intel's root — empty, unrelated, the harness's
	{
		when := world.T0
		if pq, perr := ref.ParseQuote(cos); perr == nil {
			if ders := ref.ChainDERs([]byte(strings.TrimRight(string(pq.Chain), "\x00"))); len(ders) > 0 {
				if leaf, e := x509.ParseCertificate(ders[0]); e == nil {
					when = leaf.NotBefore.AddDate(0, 0, 1)
				}
			}
		}
		qcos, perr := safeToProto(cos)
		for _, pc := range []struct {
			name string
			pool *x509.CertPool
			want bool
		}{{"nil(embedded-root)", nil, true}, {"empty-pool", x509.NewCertPool(), false}, {"empty-pool-after-use", func() *x509.CertPool {
			p := x509.NewCertPool()
			p.AppendCertsFromPEM([]byte("not a certificate"))
			return p
		}(), false}, {"{harness-root}", world.Pool(T.Root), false}, {"{look-alike-of-intel-root}", world.Pool(world.MakeCert(world.CertSpec{CN: world.CNRoot, IsCA: true, Key: F.RootKey, MaxPathLen: 1}, nil, F.RootKey)), false}} {
			id := "genuine-sample/pool=" + pc.name
			if perr != nil || !r.Want(id) {
				continue
			}
			o := rtmr.TdxDefaultOpts(nonce)
			now := world.TimeSetAt(when)
			o.Verification = &verify.Options{Now: &now, TrustedRoots: pc.pool}
			o.ExtractOpt = extract.Opts{Loader: extract.GRUB}
			var st *state.FirmwareLogState
			var err error
			func() {
				defer world.Recover(&err)
				st, err = rtmr.ParseCcelWithTdQuote(ccelBytes, tableBytes, qcos, &o)
			}()
			out := "error"
			switch {
			case world.IsPanic(err):
				r.Violate("genuine:panic:"+crashSite(err), id, "ParseCcelWithTdQuote crashes: "+errStr(err), nil)
				out = "panic"
			case (st != nil || err == nil) && !pc.want:
				r.Violate("genuine:state-without-trusted-root:"+pc.name, id, "a firmware log state is returned for the Intel-certified sample although the configured pool does not hold Intel's root", nil)
				out = "state!"
			case pc.want && (st == nil || err != nil):
				r.Violate("genuine:rejected-under-embedded-root", id, "the genuine sample with its event log yields no state under the embedded root: "+errStr(err), nil)
				out = "error!"
			case st != nil:
				out = "state"
			}
			r.Eval(id, true, "genuine:"+out)
		}
	}
	_ = validate.Options{}
	_ = x509.Certificate{}
}
