package checks

import (
	"bytes"
	"crypto/x509"
	"encoding/binary"
	"encoding/json"
	"errors"
	"fmt"
	"math/big"
	"os"
	"strings"
	"time"

	testcases "github.com/google/go-tdx-guest/testing"
	"github.com/google/go-tdx-guest/testing/testdata"
	"github.com/google/go-tdx-guest/verify"

	"verifharness/mc"
	"verifharness/ref"
	"verifharness/world"
)

func init() {
	mc.Register(&mc.Check{ID: "C11", Category: "exploration",
		Rule:   "Engine A over the honest generator's dimensions, every world verified at L0, L1 and L2: contents of free header/body/QE-report fields {pattern, zero, 0xFF}; QE auth-data length {32,0,1,31,33,64,255,256,65535}; extra bytes {0,1,16,1000}; NUL after the chain; platform SVN vectors (components at 0/127/128/255, PCESVN 0/255/256/65535); FMSPC with bytes >= 0x80 and upper-case hex in TCB Info; matching UpToDate level at listed position 0/1/2 behind non-matching levels of every status; TEE_TCB_SVN[1] zero / non-zero with its module identity; QE identity with other masks; CRLs with unrelated and near-miss serials; time sets at the window edges; trusted pool with extra roots. Plus the four verifier-converted raw signatures with r or s of every leading-byte shape (deterministic signer walked along its nonce sequence). Plus the two genuine Intel samples under the embedded root. Non-trivial: >=1 deviation from the baseline honest world; distinct by decision vector",
		Assume: append([]string{"Processor-CA chains and upper-case PCE-ID hex are excluded: the property does not settle them"}, cryptoAssume...),
		Run:    runC11})
}

func runC11(r *mc.Run) {
	T := world.CachedPKI("T")
	U := world.CachedPKI("U")
	authLens := []int{32, 0, 1, 31, 33, 64, 255, 256, 65535}
	extraLens := []int{0, 1, 16, 1000}
	svnVecs := [][16]byte{
		{5, 5, 2, 2, 3, 1, 0, 3, 0, 0, 0, 0, 0, 0, 0, 0},
		{},
		{255, 255, 255, 255, 255, 255, 255, 255, 255, 255, 255, 255, 255, 255, 255, 255},
		{127, 128, 0, 255, 1, 129, 200, 3, 128, 127, 0, 0, 255, 1, 2, 128},
	}
	pceSvns := []uint16{11, 0, 255, 256, 65535}
	fmspcs := [][]byte{{0x50, 0x80, 0x6f, 0, 0, 0}, {0xff, 0x80, 0xa0, 0xc0, 0xe0, 0xf0}, {0, 0, 0, 0, 0, 0}}
	fills := []string{"pattern", "zero", "ff"}
	bound := 2
	if r.Thorough() {
		bound = 3
	}
	// the whole exploration runs at the logger's default level and, with one deviation fewer, at verbosity 2
	for _, lvl := range []int{0, 2} {
		world.SetLogLevel(lvl)
		exName, exBound := "honest-worlds", bound
		if lvl != 0 {
			exName, exBound = "honest-worlds/log-level=2", bound-1
		}
		r.Explore(exName, exBound, func(c *mc.Ctx) {
			fill := c.Choose("fill", len(fills))
			al := c.Choose("authlen", len(authLens))
			el := c.Choose("extra", len(extraLens))
			nul := c.Choose("nul", 2)
			sv := c.Choose("cpusvn", len(svnVecs))
			pc := c.Choose("pcesvn", len(pceSvns))
			fm := c.Choose("fmspc", len(fmspcs))
			fcase := c.Choose("fmspc-case", 2)
			lpos := c.Choose("level-position", 4)
			svn1 := c.Choose("tee-svn1", 3)
			qmask := c.Choose("qe-masks", 5)
			crl := c.Choose("crl-contents", 6)
			tm := c.Choose("times", 3)
			pool := c.Choose("pool", 3)
			li := c.Free("level", 3)
			// (further dimensions are chosen below; the final id is taken after the last of them)
			if id0 := "honest/" + c.ID(); r.ReplayID != "" && id0 != "honest/default" && !strings.HasPrefix(r.ReplayID, id0) {
				return
			}
			w := world.Honest("T")
			w.Plat.CPUSVN = svnVecs[sv]
			w.Plat.PCESVN = pceSvns[pc]
			w.Plat.FMSPC = fmspcs[fm]
			ids := c.Choose("identifier-contents", 3)
			switch ids {
			case 1: // identifiers whose leading bytes read as a DER header of exactly the remaining length
				w.Plat.PPID = append([]byte{0x04, 0x0e}, world.Fill("c11-ppid", 14)...)
				w.Plat.PCEID = []byte{0x04, 0x00}
				w.Plat.FMSPC = []byte{0x04, 0x04, 0xa1, 0xb2, 0xc3, 0xd4}
			case 2: // ... of a SEQUENCE / INTEGER
				w.Plat.PPID = append([]byte{0x30, 0x0e}, world.Fill("c11-ppid2", 14)...)
				w.Plat.PCEID = []byte{0x02, 0x00}
				w.Plat.FMSPC = []byte{0x02, 0x04, 0x7f, 0x00, 0x00, 0x01}
			}
			if sv != 0 || pc != 0 || fm != 0 || ids != 0 {
				w.PKI = T.WithLeaf(w.Plat)
			}
			attKey := world.NewKey("att")
			if ks := c.Choose("attestation-key-shape", 4); ks != 0 {
				// keys whose X / Y coordinate starts with a zero octet (1 in 128 fresh keys), or with the high bit set
				for n := 0; ; n++ {
					k := world.NewKey(fmt.Sprintf("c11-att-shape%d-%d", ks, n))
					raw := k.Raw64()
					if (ks == 1 && raw[0] == 0) || (ks == 2 && raw[32] == 0) || (ks == 3 && raw[0] >= 0x80 && raw[32] >= 0x80) {
						attKey = k
						break
					}
				}
			}
			sp := world.QuoteSpec{PKI: w.PKI, AttKey: attKey, Auth: world.Fill("c11-auth", authLens[al]), Extra: world.Fill("c11-extra", extraLens[el]), NulAfter: nul == 1,
				FillLabel: "c11", PceSvn: 0x0d07, QeSvn: 0x0208}
			sp.TeeTcbSvn = []byte{3, []byte{0, 3, 0x0a}[svn1], 5, 0, 0, 0, 0, 0, 0, 0, 0, 0, 0, 0, 0, 1}
			sp.MrSeamSigner = world.Fill("c11-seam", 48)
			sp.SeamAttrs = []byte{1, 2, 3, 4, 5, 6, 7, 8}
			sp.IsvProdID, sp.IsvSvn, sp.MiscSelect = 2, 8, 0x00ff00ff
			sp.Attributes = []byte{0x15, 0, 0, 0, 0, 0, 0, 0, 0xe7, 0, 0, 0, 0, 0, 0, 0}
			w.Spec = sp
			p := sp.Parts()
			// contents of the fields nothing else depends on
			if fill != 0 {
				v := byte(0)
				if fills[fill] == "ff" {
					v = 0xff
				}
				set := func(b []byte) {
					for i := range b {
						b[i] = v
					}
				}
				set(p.Header[8:12])  // PCE SVN, QE SVN
				set(p.Header[12:48]) // vendor id, user data
				for _, f := range world.BodyFields {
					if f.Name != "tee_tcb_svn" && f.Name != "mr_signer_seam" && f.Name != "seam_attributes" {
						set(p.Body[f.Off : f.Off+f.Len])
					}
				}
				for _, f := range world.QEReportFields {
					switch f.Name {
					case "cpu_svn", "reserved1", "mr_enclave", "reserved2", "reserved3", "reserved4":
						set(p.QEReport[f.Off : f.Off+f.Len])
					}
				}
				p.SignBody(attKey)
				p.SignQE(w.PKI.LeafKey)
			}
			w.Parts = p
			// collateral that matches this platform the way Intel would publish it
			tee := p.Body[0:16]
			ti := world.DefaultTcbInfo(w.Plat, tee)
			ti.TdxModule = world.TdxModule{Mrsigner: hexs(sp.MrSeamSigner), Attributes: "0102030405060708", AttributesMask: "FFFFFFFFFFFFFFFF"}
			switch c.Choose("seam-attributes-mask", 4) {
			case 1: // zero octets between significant ones
				ti.TdxModule.Attributes, ti.TdxModule.AttributesMask = "0100030005000700", "FF00FF00FF00FF00"
			case 2: // ... in front
				ti.TdxModule.Attributes, ti.TdxModule.AttributesMask = "0002030405060708", "00FFFFFFFFFFFFFF"
			case 3: // a single significant bit at the far end
				ti.TdxModule.Attributes, ti.TdxModule.AttributesMask = "0000000000000008", "0000000000000008"
			}
			if fcase == 1 {
				ti.Fmspc = strings.ToUpper(ti.Fmspc)
			}
			match := world.PlatformLevel(w.Plat, tee, "UpToDate")
			if tee[1] != 0 && c.Choose("level-tdx-components-0-1", 2) == 1 {
				// with a non-zero module version the first two TDX components are not compared with the level's
				nm := append([]world.Comp(nil), match.Tcb.Tdx...)
				nm[0].Svn, nm[1].Svn = 255, int(tee[1])+1
				match.Tcb.Tdx = nm
			}
			var before []world.Level
			// in which way the levels listed before the matching one fail to match
			beforeKind := 0
			if lpos > 0 {
				beforeKind = c.Choose("preceding-level-kind", 4)
			}
			for k := 0; k < lpos && k < 3; k++ {
				// levels that do not match: one component above the platform's, each with a different non-UpToDate status
				l := world.PlatformLevel(w.Plat, tee, world.Statuses[1+2*k])
				switch beforeKind {
				case 0:
					nm := append([]world.Comp(nil), l.Tcb.Tdx...)
					nm[2+k].Svn = int(tee[2+k]) + 1 + k
					l.Tcb.Tdx = nm
				case 1: // an EARLIER SGX component below the platform's, a LATER one above it
					nm := append([]world.Comp(nil), l.Tcb.Sgx...)
					if nm[k].Svn > 0 {
						nm[k].Svn--
					}
					if nm[15-k].Svn < 255 {
						nm[15-k].Svn++
					} else {
						// the component cannot go higher: fail the level in a TDX component instead
						nt := append([]world.Comp(nil), l.Tcb.Tdx...)
						nt[15].Svn = int(tee[15]) + 1
						l.Tcb.Tdx = nt
					}
					l.Tcb.Sgx = nm
				case 2: // every component below, the PCE SVN above (when it can be)
					ns, nt := append([]world.Comp(nil), l.Tcb.Sgx...), append([]world.Comp(nil), l.Tcb.Tdx...)
					for i := range ns {
						if ns[i].Svn > 0 {
							ns[i].Svn--
						}
					}
					for i := 2; i < len(nt); i++ {
						if nt[i].Svn > 0 {
							nt[i].Svn--
						}
					}
					l.Tcb.Sgx, l.Tcb.Tdx = ns, nt
					if w.Plat.PCESVN < 65535 {
						l.Tcb.Pcesvn = world.IntP(int(w.Plat.PCESVN) + 1)
					} else {
						nt[15].Svn = int(tee[15]) + 1
					}
				case 3: // an earlier TDX component below, a later one above
					nt := append([]world.Comp(nil), l.Tcb.Tdx...)
					if nt[2].Svn > 0 {
						nt[2].Svn--
					}
					nt[9+k].Svn = int(tee[9+k]) + 1
					l.Tcb.Tdx = nt
				}
				before = append(before, l)
			}
			lastDate := "2020-01-01T00:00:00Z"
			if dm := c.Choose("level-dates", 3); dm != 0 {
				if dm == 1 {
					lastDate = "2026-01-01T00:00:00Z" // the always-matching OutOfDate level listed last is the newest
				}
				// dates that run against the listed order (or with it): the first matching level decides
				for i := range before {
					before[i].TcbDate = fmt.Sprintf("20%02d-03-01T00:00:00Z", map[int]int{1: 20 + i, 2: 35 - i}[dm])
				}
				match.TcbDate = fmt.Sprintf("20%02d-03-01T00:00:00Z", map[int]int{1: 24, 2: 30}[dm])
			}
			ti.TcbLevels = append(before, match, world.Level{Tcb: world.Tcb{Sgx: world.CompsOf(make([]byte, 16)), Pcesvn: world.IntP(0), Tdx: world.CompsOf(make([]byte, 16))}, TcbDate: lastDate, TcbStatus: "OutOfDate"})
			if tee[1] != 0 {
				ti.TdxModuleIdentities = []world.ModuleIdentity{
					{ID: "TDX_01", Mrsigner: strings.Repeat("00", 48), Attributes: "0000000000000000", AttributesMask: "FFFFFFFFFFFFFFFF",
						TcbLevels: []world.Level{{Tcb: world.Tcb{Isvsvn: world.IntP(2)}, TcbDate: "2029-01-01T00:00:00Z", TcbStatus: "OutOfDate"}}},
					{ID: fmt.Sprintf("TDX_%02x", tee[1]), Mrsigner: strings.Repeat("00", 48), Attributes: "0000000000000000", AttributesMask: "FFFFFFFFFFFFFFFF",
						TcbLevels: []world.Level{{Tcb: world.Tcb{Isvsvn: world.IntP(9)}, TcbDate: "2029-03-01T00:00:00Z", TcbStatus: "Revoked"},
							{Tcb: world.Tcb{Isvsvn: world.IntP(int(tee[0]))}, TcbDate: "2029-01-01T00:00:00Z", TcbStatus: "UpToDate"},
							{Tcb: world.Tcb{Isvsvn: world.IntP(1)}, TcbDate: "2028-01-01T00:00:00Z", TcbStatus: "OutOfDate"}}}}
			}
			w.TcbInfo = ti
			qe := world.DefaultQeIdentity()
			qe.IsvProdID = 2
			ms := make([]byte, 4)
			binary.LittleEndian.PutUint32(ms, sp.MiscSelect)
			switch qmask {
			case 0:
				qe.Miscselect, qe.MiscselectMask = hexs(ms), "FFFFFFFF"
				qe.Attributes, qe.AttributesMask = hexs(p.QEReport[48:64]), strings.Repeat("FF", 16)
			case 1: // masks that hide part of the value
				qe.Miscselect, qe.MiscselectMask = "ff00ff00", "ff00ff00"
				qe.Attributes, qe.AttributesMask = "11000000000000000000000000000000", "fbffffffffffffff0000000000000000"
			case 2: // all-zero masks
				qe.Miscselect, qe.MiscselectMask = "00000000", "00000000"
				qe.Attributes, qe.AttributesMask = strings.Repeat("00", 16), strings.Repeat("00", 16)
			case 3, 4: // masks with zero octets in FRONT of / BETWEEN significant ones; the identity's value is the masked report value
				mm, am := "00ffffff", "00ffffffffffffffffffffffffffffff"
				if qmask == 4 {
					mm, am = "ff00ff00", "ff00ff00ff00ff00ff00ff00ff00ff00"
				}
				and := func(v []byte, maskHex string) string {
					out := make([]byte, len(v))
					for i := range v {
						var mb byte
						fmt.Sscanf(maskHex[2*i:2*i+2], "%02x", &mb)
						out[i] = v[i] & mb
					}
					return hexs(out)
				}
				qe.Miscselect, qe.MiscselectMask = and(ms, mm), mm
				qe.Attributes, qe.AttributesMask = and(p.QEReport[48:64], am), am
			}
			qe.TcbLevels = []world.Level{{Tcb: world.Tcb{Isvsvn: world.IntP(9)}, TcbDate: "2029-07-01T00:00:00Z", TcbStatus: "OutOfDate"},
				{Tcb: world.Tcb{Isvsvn: world.IntP(8)}, TcbDate: "2029-06-01T00:00:00Z", TcbStatus: "UpToDate"},
				{Tcb: world.Tcb{Isvsvn: world.IntP(2)}, TcbDate: "2028-06-01T00:00:00Z", TcbStatus: "Revoked"}}
			w.QeID = qe
			leafSN, interSN := w.PKI.Leaf.SerialNumber, w.PKI.Inter.SerialNumber
			pm := func(v *big.Int, d int64) *big.Int { return new(big.Int).Add(v, big.NewInt(d)) }
			var pckRev, rootRev []*big.Int
			switch crl {
			case 1:
				pckRev, rootRev = []*big.Int{big.NewInt(99)}, []*big.Int{big.NewInt(98)}
			case 2:
				pckRev, rootRev = []*big.Int{pm(leafSN, 1), pm(leafSN, -1), interSN}, []*big.Int{pm(interSN, 1), leafSN, pm(w.PKI.Tcb.SerialNumber, -1)}
			case 3:
				for i := 0; i < 200; i++ {
					pckRev = append(pckRev, big.NewInt(int64(5000+i)))
					rootRev = append(rootRev, big.NewInt(int64(9000+i)))
				}
			case 4: // other certificates' serials that agree with the chain's in their low 64 / 32 / 8 bits
				up := func(v *big.Int, bit uint) *big.Int { return new(big.Int).Add(v, new(big.Int).Lsh(big.NewInt(1), bit)) }
				tcbSN := w.PKI.Tcb.SerialNumber
				pckRev = []*big.Int{up(leafSN, 64), up(leafSN, 32), up(leafSN, 8), up(leafSN, 152)}
				rootRev = []*big.Int{up(interSN, 64), up(tcbSN, 64), up(interSN, 32), up(tcbSN, 32), up(tcbSN, 8), up(tcbSN, 152)}
			case 5: // serials that extend / shorten the chain's by whole octets (prefixes and suffixes of the hex text)
				tcbSN := w.PKI.Tcb.SerialNumber
				sh := func(v *big.Int) []*big.Int {
					return []*big.Int{new(big.Int).Lsh(v, 8), new(big.Int).Add(new(big.Int).Lsh(v, 8), big.NewInt(1)), new(big.Int).Add(new(big.Int).Rsh(v, 8), big.NewInt(0))}
				}
				for _, x := range sh(leafSN) {
					if x.Cmp(leafSN) != 0 && x.BitLen() <= 159 {
						pckRev = append(pckRev, x)
					}
				}
				for _, v := range []*big.Int{interSN, tcbSN} {
					for _, x := range sh(v) {
						if x.Cmp(interSN) != 0 && x.Cmp(tcbSN) != 0 && x.BitLen() <= 159 {
							rootRev = append(rootRev, x)
						}
					}
				}
			}
			w.PckCrl = world.MakeCRL(world.CRLSpec{Issuer: w.PKI.Inter, Signer: w.PKI.InterKey, Revoked: pckRev})
			w.RootCrl = world.MakeCRL(world.CRLSpec{Issuer: w.PKI.Root, Signer: w.PKI.RootKey, Revoked: rootRev})
			w.Finish()
			// members the library's structures do not declare (Intel adds members to these documents over time):
			// at the top level, inside every TCB level, inside every component, inside the TDX module / identities
			if je := c.Choose("json-extra-members", 5); je != 0 {
				edit := func(raw []byte) []byte {
					switch je {
					case 1:
						return append(append([]byte{}, raw[:len(raw)-1]...), []byte(`,"futureMember":{"a":[1,2,{"b":null}]},"anotherOne":"x"}`)...)
					case 2:
						return bytes.ReplaceAll(raw, []byte(`{"tcb":`), []byte(`{"futureLevelMember":[],"tcb":`))
					case 3:
						return bytes.ReplaceAll(raw, []byte(`{"svn":`), []byte(`{"futureComponentMember":"y","svn":`))
					case 4:
						out := bytes.ReplaceAll(raw, []byte(`"mrsigner":`), []byte(`"futureIdentityMember":true,"mrsigner":`))
						return bytes.ReplaceAll(out, []byte(`"isvsvn":`), []byte(`"futureTcbMember":0,"isvsvn":`))
					}
					return raw
				}
				w.TcbRaw, w.QeRaw = edit(w.TcbRaw), edit(w.QeRaw)
				if !json.Valid(w.TcbRaw) || !json.Valid(w.QeRaw) {
					r.HarnessError("C11: edited collateral is not valid JSON")
					return
				}
				w.TcbBody = world.SignedBody("tcbInfo", w.TcbRaw, w.PKI.TcbKey)
				w.QeBody = world.SignedBody("enclaveIdentity", w.QeRaw, w.PKI.TcbKey)
				w.BuildGetter()
			}
			// the two documents need not come from one signing certificate: after a renewal of Intel's TCB signing
			// certificate one response still carries the old certificate, the other the new one (both under the root)
			twoRoots := false
			if cs := c.Choose("collateral-signers", 5); cs != 0 {
				k2 := world.NewKey("c11-tcb-signer-2")
				cert2 := world.MakeCert(world.CertSpec{CN: world.CNTcb, Key: k2, Serial: big.NewInt(0x5eed0002)}, w.PKI.Root, w.PKI.RootKey)
				hdr2 := world.IssuerChainHeader(cert2, w.PKI.Root)
				if cs >= 3 {
					// ... or even from under ANOTHER trusted root of the same name (two roots in the pool: an old and a new
					// key); judged without revocation checking, where each document stands on its own chain
					twoRoots = true
					rk2 := world.NewKey("c11-second-root")
					root2 := world.MakeCert(world.CertSpec{CN: world.CNRoot, IsCA: true, Key: rk2, MaxPathLen: 1}, nil, rk2)
					cert2 = world.MakeCert(world.CertSpec{CN: world.CNTcb, Key: k2, Serial: big.NewInt(0x5eed0003)}, root2, rk2)
					hdr2 = world.IssuerChainHeader(cert2, root2)
					w.Roots = world.Pool(w.PKI.Root, root2)
				}
				if cs == 1 || cs == 3 {
					w.QeBody = world.SignedBody("enclaveIdentity", w.QeRaw, k2)
					w.QeHdr = map[string][]string{world.HdrQeIdentity: {hdr2}}
				} else {
					w.TcbBody = world.SignedBody("tcbInfo", w.TcbRaw, k2)
					w.TcbHdr = map[string][]string{world.HdrTcbInfo: {hdr2}}
				}
				w.BuildGetter()
			}
			switch tm {
			case 1: // just after the latest notBefore / issue date
				w.Now = world.TimeSetAt(world.T0.AddDate(0, 0, -5).Add(1))
			case 2: // exactly at the earliest expiry (tcbInfo nextUpdate)
				w.Now = world.TimeSetAt(world.T0.AddDate(0, 0, 20))
			}
			if !twoRoots {
				switch pool {
				case 1:
					w.Roots = world.Pool(U.Root, w.PKI.Root)
				case 2:
					w.Roots = world.Pool(w.PKI.Root, U.Root, world.CachedPKI("F").Root)
				}
			}
			level := []int{world.L0, world.L1, world.L2}[li]
			id := "honest/" + c.ID() + world.LogTag()
			if !r.Want(id) {
				return
			}
			if twoRoots && level == world.L2 {
				return // which root's CRL covers which signing certificate is not settled for two-root worlds
			}
			// driver self-check: the reference agrees that this world is honest
			raw := w.Raw()
			if rp, perr := ref.ParseQuote(raw); perr != nil || !ref.LinksOf(rp).All() {
				r.HarnessError("C11 driver self-check: generated honest quote is not honest (%v)", perr)
				return
			}
			err := verifyRawBoth(r, id, raw, w.Options(level))
			out := verdict(err)
			if err != nil {
				r.Violate("honest-rejected:"+lvlName[level]+":"+c11Dims(c), id, "an honestly produced, in-date quote is rejected at "+lvlName[level]+": "+errStr(err), map[string]any{"raw_quote_hex_prefix": hexs(raw[:700])})
				out += "!"
			}
			r.Eval(id, c.Deviations() > 0, lvlName[level]+":"+out)
		})
	}
	world.SetLogLevel(0)

	c11SignatureShapes(r)
	c11LongLived(r)
	c11RootCrlPoints(r)
	c11KeyIdentifiers(r)

	// genuine Intel samples
	now := world.TimeSetAt(intelRefTime)
	// (the recorded sample collateral is newer than the sample quote and, as the repository's own
	// TestNegativeRawQuoteVerifyWithCollateral states, does not match it: only L0 applies)
	for _, l := range []int{world.L0} {
		id := "intel-sample/SPR/" + lvlName[l]
		if !r.Want(id) {
			continue
		}
		n := now
		err := world.SafeVerifyRaw(testdata.RawQuote, &verify.Options{GetCollateral: l >= 1, CheckRevocations: l >= 2, Getter: testcases.TestGetter, Now: &n})
		if err != nil {
			r.Violate("intel-sample-rejected:SPR:"+lvlName[l], id, "Intel's sample quote is rejected under the embedded root at its reference time: "+errStr(err), nil)
		}
		r.Eval(id, true, "intel:"+verdict(err))
	}
	if cos, err := os.ReadFile(repoRoot() + "/testing/testdata/ccel/cos-113-tdx-quote.dat"); err == nil {
		id := "intel-sample/COS/L0"
		if r.Want(id) {
			when := intelRefTime
			if p, perr := ref.ParseQuote(cos); perr == nil {
				if ders := ref.ChainDERs([]byte(strings.TrimRight(string(p.Chain), "\x00"))); len(ders) > 0 {
					if leaf, e := x509.ParseCertificate(ders[0]); e == nil {
						when = leaf.NotBefore.AddDate(0, 0, 1)
					}
				}
			}
			n := world.TimeSetAt(when)
			verr := world.SafeVerifyRaw(cos, &verify.Options{Now: &n})
			if verr != nil {
				r.Violate("intel-sample-rejected:COS", id, "the genuine COS sample quote is rejected under the embedded root: "+errStr(verr), nil)
			}
			r.Eval(id, true, "intel:"+verdict(verr))
		}
	}
}

// c11Dims names the deviating dimensions (not their values) for the violation signature.
func c11Dims(c *mc.Ctx) string {
	var out []string
	for _, p := range c.Trace() {
		if p.Choice != 0 && !p.Free {
			out = append(out, p.Label)
		}
	}
	return strings.Join(out, "+")
}

// c11SignatureShapes: every raw r||s signature the verifier converts itself (quote signature, QE report
// signature, TCB Info signature, QE Identity signature) with r or s of every leading-byte shape: the
// deterministic signer walks its nonce sequence until the wanted shape appears, so each world is still
// honestly signed and must be accepted.
// c11LongLived: honest worlds one of whose artifacts (or all of them) stays valid far into the future: just past the
// year 2262 (where a 64-bit count of nanoseconds since 1970 ends), 2400, 2600, and 9999-12-31T23:59:59Z (RFC 5280's
// "no well-defined expiration date"). In date is in date, however far the end lies.
func c11LongLived(r *mc.Run) {
	T := world.CachedPKI("T")
	horizons := []time.Time{time.Date(2262, 4, 11, 23, 47, 17, 0, time.UTC), time.Date(2262, 4, 12, 0, 0, 0, 0, time.UTC), time.Date(2400, 1, 1, 0, 0, 0, 0, time.UTC),
		time.Date(2600, 1, 1, 0, 0, 0, 0, time.UTC), time.Date(2900, 1, 1, 0, 0, 0, 0, time.UTC), time.Date(9999, 12, 31, 23, 59, 59, 0, time.UTC)}
	whats := []string{"root", "intermediate", "leaf", "tcb-signer", "pck-crl", "root-crl", "tcbinfo", "qeidentity", "all"}
	const pckDP = "https://api.trustedservices.intel.com/sgx/certification/v4/pckcrl?ca=platform&encoding=der"
	n := 0
	for _, h := range horizons {
		for _, what := range whats {
			is := func(k string) bool { return what == k || what == "all" }
			w := world.Honest("T")
			pk := *T
			if is("root") {
				pk.Root = world.MakeCert(world.CertSpec{CN: world.CNRoot, IsCA: true, Key: T.RootKey, MaxPathLen: 1, NotAfter: h}, nil, T.RootKey)
			}
			if is("intermediate") {
				pk.Inter = world.MakeCert(world.CertSpec{CN: world.CNPlatform, IsCA: true, Key: T.InterKey, MaxPathLen: -1, NotAfter: h}, pk.Root, T.RootKey)
			}
			if is("leaf") {
				pk.Leaf = world.MakeCert(world.CertSpec{CN: world.CNLeaf, Key: T.LeafKey, SGXExt: world.SGXExtension(w.Plat), CRLDP: []string{pckDP}, NotAfter: h}, pk.Inter, T.InterKey)
			}
			if is("tcb-signer") {
				pk.Tcb = world.MakeCert(world.CertSpec{CN: world.CNTcb, Key: T.TcbKey, NotAfter: h}, pk.Root, T.RootKey)
			}
			w.PKI = &pk
			w.Spec.PKI = w.PKI
			w.Parts = w.Spec.Parts()
			w.Roots = world.Pool(pk.Root)
			if is("pck-crl") {
				w.PckCrl = world.MakeCRL(world.CRLSpec{Issuer: pk.Inter, Signer: pk.InterKey, NextUpdate: h})
			}
			if is("root-crl") {
				w.RootCrl = world.MakeCRL(world.CRLSpec{Issuer: pk.Root, Signer: pk.RootKey, NextUpdate: h})
			}
			if is("tcbinfo") {
				w.TcbInfo.NextUpdate = world.TimeStr(h)
			}
			if is("qeidentity") {
				w.QeID.NextUpdate = world.TimeStr(h)
			}
			w.Finish()
			for _, level := range []int{world.L0, world.L1, world.L2} {
				id := fmt.Sprintf("long-lived/%s-until-%s/%s", what, h.Format("2006-01-02"), lvlName[level])
				if !r.Want(id) {
					continue
				}
				n++
				raw := w.Raw()
				err := verifyRawBoth(r, id, raw, w.Options(level))
				out := verdict(err)
				if err != nil {
					r.Violate("long-lived:honest-rejected:"+what, id, "an honestly produced, in-date quote is rejected at "+lvlName[level]+" ("+what+" valid until "+h.Format(time.RFC3339)+"): "+errStr(err), nil)
					out += "!"
				}
				r.Eval(id, true, "long-lived:"+lvlName[level]+":"+out)
			}
		}
	}
	r.SectionDone(mc.Section{Name: "long-lived-worlds", Evaluations: int64(n), Exhaustive: true})
}

// c11RootCrlPoints: honest worlds whose root names two or three CRL distribution points, of which some are down or
// serve something that is not a CRL while another delivers the clean list: an honest quote is accepted at every level.
func c11RootCrlPoints(r *mc.Run) {
	T := world.CachedPKI("T")
	const dp3 = "https://mirror2.example.test/IntelSGXRootCA.der"
	kinds := []string{"ok", "down", "error-page", "empty", "truncated"}
	n := 0
	for _, points := range [][]string{{world.RootCRLURL, c05dp2}, {world.RootCRLURL, c05dp2, dp3}} {
		total := 1
		for range points {
			total *= len(kinds)
		}
		for code := 0; code < total; code++ {
			ans := make([]int, len(points))
			c, anyOK := code, false
			for i := range points {
				ans[i] = c % len(kinds)
				c /= len(kinds)
				anyOK = anyOK || ans[i] == 0
			}
			if !anyOK {
				continue
			}
			var names []string
			for _, a := range ans {
				names = append(names, kinds[a])
			}
			w := world.Honest("T")
			pk := *T
			pk.Root = world.MakeCert(world.CertSpec{CN: world.CNRoot, IsCA: true, Key: T.RootKey, MaxPathLen: 1, CRLDP: points}, nil, T.RootKey)
			w.PKI = &pk
			w.Spec.PKI = w.PKI
			w.Parts = w.Spec.Parts()
			w.Roots = world.Pool(pk.Root)
			w.RootCrl = world.MakeCRL(world.CRLSpec{Issuer: pk.Root, Signer: pk.RootKey})
			w.Finish()
			good := world.Response{Body: w.RootCrl}
			for i, u := range points {
				switch kinds[ans[i]] {
				case "ok":
					w.Getter.Responses[u] = good
				case "down":
					w.Getter.Responses[u] = world.Response{Err: errors.New("dial tcp: connection refused")}
				case "error-page":
					w.Getter.Responses[u] = world.Response{Body: []byte("<html>503 Service Unavailable</html>")}
				case "empty":
					w.Getter.Responses[u] = world.Response{Body: []byte{}}
				case "truncated":
					w.Getter.Responses[u] = world.Response{Body: w.RootCrl[:len(w.RootCrl)-9]}
				}
			}
			for _, level := range []int{world.L0, world.L1, world.L2} {
				id := fmt.Sprintf("root-crl-points/%s/%s", strings.Join(names, ","), lvlName[level])
				if !r.Want(id) {
					continue
				}
				n++
				err := verifyRawBoth(r, id, w.Raw(), w.Options(level))
				out := verdict(err)
				if err != nil {
					r.Violate("root-crl-points:honest-rejected", id, "an honestly produced, in-date quote is rejected at "+lvlName[level]+" although a distribution point of the root delivers the clean CRL ("+strings.Join(names, ",")+"): "+errStr(err), nil)
					out += "!"
				}
				r.Eval(id, true, "root-crl-points:"+lvlName[level]+":"+out)
			}
		}
	}
	r.SectionDone(mc.Section{Name: "root-crl-distribution-points", Evaluations: int64(n), Exhaustive: true})
}

// c11KeyIdentifiers: honest chains in which a CA certificate was re-issued (same key, same name) with ANOTHER subject
// key identifier than the one the certificates below it name as their authority key identifier, or in which the
// identifiers are absent / of another length. Key identifiers are hints for finding a path, not part of validating it.
func c11KeyIdentifiers(r *mc.Run) {
	T := world.CachedPKI("T")
	other := world.Fill("c11-other-key-identifier", 20)
	short := world.Fill("c11-short-key-identifier", 8)
	const pckDP = "https://api.trustedservices.intel.com/sgx/certification/v4/pckcrl?ca=platform&encoding=der"
	n := 0
	for _, v := range []string{"intermediate-reissued-with-another-ski", "root-reissued-with-another-ski", "leaf-names-another-aki", "tcb-signer-names-another-aki", "intermediate-with-8-byte-ski", "all-of-these"} {
		is := func(k string) bool { return v == k || v == "all-of-these" }
		w := world.Honest("T")
		pk := *T
		if is("root-reissued-with-another-ski") {
			pk.Root = world.MakeCert(world.CertSpec{CN: world.CNRoot, IsCA: true, Key: T.RootKey, MaxPathLen: 1, SubjectKeyID: other}, nil, T.RootKey)
		}
		if is("intermediate-reissued-with-another-ski") {
			pk.Inter = world.MakeCert(world.CertSpec{CN: world.CNPlatform, IsCA: true, Key: T.InterKey, MaxPathLen: -1, SubjectKeyID: other}, T.Root, T.RootKey)
		}
		if v == "intermediate-with-8-byte-ski" {
			pk.Inter = world.MakeCert(world.CertSpec{CN: world.CNPlatform, IsCA: true, Key: T.InterKey, MaxPathLen: -1, SubjectKeyID: short}, T.Root, T.RootKey)
		}
		if is("leaf-names-another-aki") {
			pk.Leaf = world.MakeCert(world.CertSpec{CN: world.CNLeaf, Key: T.LeafKey, SGXExt: world.SGXExtension(w.Plat), CRLDP: []string{pckDP}, AuthorityKeyID: world.Fill("c11-third-identifier", 20)}, T.Inter, T.InterKey)
		}
		if is("tcb-signer-names-another-aki") {
			pk.Tcb = world.MakeCert(world.CertSpec{CN: world.CNTcb, Key: T.TcbKey, AuthorityKeyID: world.Fill("c11-fourth-identifier", 20)}, T.Root, T.RootKey)
		}
		w.PKI = &pk
		w.Spec.PKI = w.PKI
		w.Parts = w.Spec.Parts()
		w.Roots = world.Pool(pk.Root)
		w.PckCrl = world.MakeCRL(world.CRLSpec{Issuer: pk.Inter, Signer: pk.InterKey})
		w.RootCrl = world.MakeCRL(world.CRLSpec{Issuer: pk.Root, Signer: pk.RootKey})
		w.Finish()
		for _, level := range []int{world.L0, world.L1, world.L2} {
			id := fmt.Sprintf("key-identifiers/%s/%s", v, lvlName[level])
			if !r.Want(id) {
				continue
			}
			n++
			err := verifyRawBoth(r, id, w.Raw(), w.Options(level))
			out := verdict(err)
			if err != nil {
				r.Violate("key-identifiers:honest-rejected:"+v, id, "an honestly produced, in-date quote is rejected at "+lvlName[level]+" ("+v+"): "+errStr(err), nil)
				out += "!"
			}
			r.Eval(id, true, "key-identifiers:"+lvlName[level]+":"+out)
		}
	}
	r.SectionDone(mc.Section{Name: "key-identifiers", Evaluations: int64(n), Exhaustive: true})
}

func c11SignatureShapes(r *mc.Run) {
	type shape struct {
		name string
		ok   func(v []byte) bool
	}
	shapes := []shape{
		{"00,>=80", func(v []byte) bool { return v[0] == 0 && v[1] >= 0x80 }},
		{"00,<80", func(v []byte) bool { return v[0] == 0 && v[1] < 0x80 && v[1] != 0 }},
		{">=80", func(v []byte) bool { return v[0] >= 0x80 }},
		{"01..7f", func(v []byte) bool { return v[0] > 0 && v[0] < 0x80 }},
		{"7f,ff", func(v []byte) bool { return v[0] == 0x7f && v[1] >= 0x80 }},
		{"80,00..", func(v []byte) bool { return v[0] == 0x80 && v[1] < 0x80 }},
		{"ends-00", func(v []byte) bool { return v[31] == 0 && v[0] != 0 }},
		{"ends-ff", func(v []byte) bool { return v[31] == 0xff }},
	}
	if r.Thorough() {
		shapes = append(shapes, shape{"00,00", func(v []byte) bool { return v[0] == 0 && v[1] == 0 }},
			shape{"last-byte-00", func(v []byte) bool { return v[31] == 0 && v[0] == 0 }})
	}
	sigs := []string{"quote-signature", "qe-report-signature", "tcbinfo-signature", "qe-identity-signature"}
	type cs struct {
		sig    int
		rs, ss int // shape of r, shape of s; -1 = any
	}
	var cases []cs
	for g := range sigs {
		for i := range shapes {
			cases = append(cases, cs{g, i, -1}, cs{g, -1, i})
		}
		if r.Thorough() { // both halves short at once
			cases = append(cases, cs{g, 0, 0}, cs{g, 0, 1}, cs{g, 1, 0})
		}
	}
	att := world.NewKey("att")
	done := r.Parallel(len(cases), func(i int) {
		c := cases[i]
		nm := func(k int) string {
			if k < 0 {
				return "any"
			}
			return shapes[k].name
		}
		base := fmt.Sprintf("sigshape/%s/r=%s/s=%s", sigs[c.sig], nm(c.rs), nm(c.ss))
		if !r.Want(base+"/L0") && !r.Want(base+"/L1") && !r.Want(base+"/L2") {
			return
		}
		pred := func(rb, sb []byte) bool {
			return (c.rs < 0 || shapes[c.rs].ok(rb)) && (c.ss < 0 || shapes[c.ss].ok(sb))
		}
		w := world.Honest("T")
		p := w.Parts.Clone()
		var sig []byte
		switch c.sig {
		case 0:
			sig = att.SignRawWhere(append(append([]byte{}, p.Header...), p.Body...), pred)
			p.Sig = sig
		case 1:
			sig = w.PKI.LeafKey.SignRawWhere(p.QEReport, pred)
			p.QESig = sig
		case 2:
			sig = w.PKI.TcbKey.SignRawWhere(w.TcbRaw, pred)
			w.TcbBody = world.BodyWithSig("tcbInfo", w.TcbRaw, hexs(sig))
		case 3:
			sig = w.PKI.TcbKey.SignRawWhere(w.QeRaw, pred)
			w.QeBody = world.BodyWithSig("enclaveIdentity", w.QeRaw, hexs(sig))
		}
		w.Parts = p
		w.BuildGetter()
		raw := w.Raw()
		if rp, perr := ref.ParseQuote(raw); perr != nil || !ref.LinksOf(rp).All() {
			r.HarnessError("C11 driver self-check: quote with a shaped signature is not honest (%v)", perr)
			return
		}
		if c.sig >= 2 {
			member, body, hdr := "tcbInfo", w.TcbBody, w.TcbHdr[world.HdrTcbInfo]
			if c.sig == 3 {
				member, body, hdr = "enclaveIdentity", w.QeBody, w.QeHdr[world.HdrQeIdentity]
			}
			if !ref.DocAuthentic(body, hdr, member, []*x509.Certificate{w.PKI.Root}).Authentic {
				r.HarnessError("C11 driver self-check: collateral with a shaped signature does not verify under the reference")
				return
			}
		}
		for _, level := range []int{world.L0, world.L1, world.L2} {
			id := base + "/" + lvlName[level]
			if !r.Want(id) {
				continue
			}
			err := w.Verify(level)
			if err != nil {
				r.Violate(fmt.Sprintf("honest-rejected:signature-shape:%s:%s", sigs[c.sig], lvlName[level]), id,
					fmt.Sprintf("an honestly signed world is rejected at %s when the %s has r=%s.. s=%s..: %s", lvlName[level], sigs[c.sig], hexs(sig[:2]), hexs(sig[32:34]), errStr(err)),
					map[string]any{"signature": hexs(sig)})
			}
			r.Eval(id, true, lvlName[level]+":"+verdict(err))
		}
	})
	r.SectionDone(mc.Section{Name: "signature-shapes", Evaluations: int64(done) * 3, Exhaustive: done == len(cases)})
}
