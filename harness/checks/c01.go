package checks

import (
	"bytes"
	"crypto/elliptic"
	"crypto/sha256"
	"crypto/x509"
	"crypto/x509/pkix"
	"fmt"
	"math/big"
	"strings"

	"github.com/google/go-tdx-guest/abi"
	pb "github.com/google/go-tdx-guest/proto/tdx"
	"google.golang.org/protobuf/proto"
	"google.golang.org/protobuf/reflect/protoreflect"

	"verifharness/mc"
	"verifharness/ref"
	"verifharness/world"
)

func init() {
	mc.Register(&mc.Check{ID: "C01", Category: "exploration",
		Rule:   "cases: (a) every single-bit mutant of two honest raw quotes per checking level, (b) every decision vector of the structured-forgery menu within the deviation bound (Engine A), (c) every single-bit mutant of every field of the parsed message; a case is non-trivial when it differs from the honest baseline, distinct by its canonical id (bit position / decision vector / field+bit, level)",
		Assume: cryptoAssume, Run: runC01})
}

type c01base struct {
	name string
	w    *world.World
	raw  []byte
	reg  world.Regions
	p    *ref.Parsed
}

func c01Baselines() []*c01base {
	var out []*c01base
	w1 := world.Honest("T")
	// header SVN fields that differ from each other and between their bytes (a transposition is then visible)
	w1.Spec.PceSvn, w1.Spec.QeSvn = 0x0d07, 0x0208
	// integer fields of the QE report whose bytes all differ (a byte-order slip is then visible), with a QE
	// identity that matches them
	w1.Spec.MiscSelect, w1.Spec.IsvProdID, w1.Spec.IsvSvn = 0x12345678, 0x0102, 0x0304
	w1.QeID.Miscselect, w1.QeID.IsvProdID = "78563412", 0x0102
	w1.Parts = w1.Spec.Parts()
	w1.Finish()
	w2 := world.Honest("T")
	w2.Spec.Auth = []byte{}
	w2.Spec.Extra = world.Fill("extra", 16)
	w2.Spec.NulAfter = true
	w2.Parts = w2.Spec.Parts()
	for i, w := range []*world.World{w1, w2} {
		raw, reg := w.Parts.Bytes()
		p, err := ref.ParseQuote(raw)
		if err != nil {
			panic("harness: reference parser rejects the honest baseline: " + err.Error())
		}
		out = append(out, &c01base{name: []string{"auth32", "auth0+nul+extra16"}[i], w: w, raw: raw, reg: reg, p: p})
	}
	return out
}

// c01FillBaselines are honest quotes whose free header / TD body / QE report fields are all zero and all 0xFF:
// a signed message that leaves a field out (zero in its place) is only exposed by a quote whose genuine
// value of that field is zero.
func c01FillBaselines() []*c01base {
	var out []*c01base
	for _, v := range []byte{0x00, 0xff} {
		w := world.Honest("T")
		p := w.Spec.Parts()
		set := func(b []byte) {
			for i := range b {
				b[i] = v
			}
		}
		set(p.Header[8:48])
		set(p.Body)
		for _, f := range world.QEReportFields {
			if f.Name != "report_data" {
				set(p.QEReport[f.Off : f.Off+f.Len])
			}
		}
		p.SignBody(world.NewKey("att"))
		p.SignQE(w.PKI.LeafKey)
		w.Parts = p
		raw, reg := p.Bytes()
		rp, err := ref.ParseQuote(raw)
		if err != nil || !ref.LinksOf(rp).All() {
			panic(fmt.Sprintf("harness: filled baseline is not honest: %v", err))
		}
		out = append(out, &c01base{name: fmt.Sprintf("fields-%02x", v), w: w, raw: raw, reg: reg, p: rp})
	}
	return out
}

// protectedRegion names the protected region containing byte off, or "".
func (b *c01base) protectedRegion(off int) string {
	switch {
	case off < 48:
		return "header"
	case off < 632:
		return "td_body"
	case off >= b.reg.AttKey[0] && off < b.reg.AttKey[1]:
		return "attestation_key"
	case off >= b.reg.QEReport[0] && off < b.reg.QEReport[1]:
		return "qe_report"
	case off >= b.reg.Auth[0] && off < b.reg.Auth[1]:
		return "qe_auth_data"
	}
	return ""
}

func (b *c01base) regionName(off int) string {
	if r := b.protectedRegion(off); r != "" {
		return r
	}
	in := func(x [2]int) bool { return off >= x[0] && off < x[1] }
	switch {
	case in(b.reg.SigDataSize):
		return "signed_data_size"
	case in(b.reg.Sig):
		return "signature"
	case in(b.reg.CertType), in(b.reg.CertSize):
		return "cert_data_hdr"
	case in(b.reg.QESig):
		return "qe_signature"
	case in(b.reg.AuthSize):
		return "auth_size"
	case in(b.reg.ChainType), in(b.reg.ChainSize):
		return "chain_hdr"
	case in(b.reg.Chain):
		return "chain"
	case in(b.reg.Extra):
		return "extra"
	}
	return "?"
}

// c01Judge applies the oracle of C01 to one verification result.
func c01Judge(r *mc.Run, id, sigPrefix string, raw []byte, err error, base *c01base, flippedProtected string) string {
	out := verdict(err)
	if world.IsPanic(err) {
		// Crashes are C10's business; C01 only judges acceptances.
		return out
	}
	if err != nil {
		return out
	}
	if flippedProtected != "" {
		r.Violate(sigPrefix+"accepted-protected-flip:"+flippedProtected, id,
			"quote accepted although a bit of its "+flippedProtected+" was changed", map[string]any{"raw_quote_hex": hexs(raw)})
		return "accept!"
	}
	p, perr := ref.ParseQuote(raw)
	if perr != nil {
		r.Violate(sigPrefix+"accepted-unparsable", id, "quote accepted although the reference layout parser rejects it: "+perr.Error(),
			map[string]any{"raw_quote_hex": hexs(raw)})
		return "accept!"
	}
	l := ref.LinksOf(p)
	if !l.All() {
		r.Violate(fmt.Sprintf("%saccepted-broken-link:body=%v,hash=%v,qe=%v", sigPrefix, l.BodySigned, l.HashBound, l.QESignedLeaf), id,
			fmt.Sprintf("quote accepted although a signature-chain link does not hold (body signed by att key=%v, report-data bound=%v, QE report signed by leaf=%v)", l.BodySigned, l.HashBound, l.QESignedLeaf),
			map[string]any{"raw_quote_hex": hexs(raw)})
		return "accept!"
	}
	if base != nil && !ref.SameSemantics(base.p, p) {
		r.Violate(sigPrefix+"accepted-changed-content", id, "mutant accepted although its protected content differs from the genuine quote", map[string]any{"raw_quote_hex": hexs(raw)})
		return "accept!"
	}
	return out
}

func runC01(r *mc.Run) {
	bases := c01Baselines()
	lv := []int{world.L0}
	if r.Thorough() {
		lv = []int{world.L0, world.L1, world.L2}
	}
	// Non-vacuity: baselines accepted at every level (information only: completeness is C11).
	baseOK := true
	for _, b := range bases {
		for l := world.L0; l <= world.L2; l++ {
			if err := b.w.Verify(l); err != nil {
				baseOK = false
			}
		}
	}
	r.Set("baseline_accepted", baseOK)

	// (a) all single-bit mutants of the raw quotes. The PEM chain is 80% of the
	// bytes and is C02's subject: quick walks it once (baseline 1, L0), thorough everywhere.
	type pass struct {
		b         *c01base
		level     int
		withChain bool
	}
	var passes []pass
	if r.Thorough() {
		for _, b := range bases {
			for _, l := range lv {
				passes = append(passes, pass{b, l, true})
			}
		}
	} else {
		passes = []pass{{bases[0], world.L0, true}, {bases[0], world.L2, false}, {bases[1], world.L0, false}}
	}
	for _, fb := range c01FillBaselines() {
		if err := fb.w.Verify(world.L0); err != nil {
			baseOK = false
			r.Set("baseline_accepted", baseOK)
		}
		passes = append(passes, pass{fb, world.L0, false})
	}
	for _, ps := range passes {
		b, l := ps.b, ps.level
		var bits []int
		for i := 0; i < len(b.raw)*8; i++ {
			if !ps.withChain && i/8 >= b.reg.Chain[0] && i/8 < b.reg.Chain[1] {
				continue
			}
			bits = append(bits, i)
		}
		done := r.Parallel(len(bits), func(k int) {
			i := bits[k]
			id := fmt.Sprintf("bit/%s/%s/%d.%d", b.name, lvlName[l], i/8, i%8)
			if !r.Want(id) {
				return
			}
			m := append([]byte(nil), b.raw...)
			m[i/8] ^= 1 << uint(i%8)
			err := verifyRawBoth(r, id, m, b.w.Options(l))
			prot := b.protectedRegion(i / 8)
			out := c01Judge(r, id, "bit:"+b.regionName(i/8)+":", m, err, b, prot)
			r.Eval(id, true, b.regionName(i/8)+":"+out)
		})
		note := "all bits"
		if !ps.withChain {
			note = "all bits outside the PEM chain"
		}
		r.SectionDone(mc.Section{Name: fmt.Sprintf("bitflips/%s/%s", b.name, lvlName[l]), Evaluations: int64(done), Exhaustive: done == len(bits), Note: note})
	}

	// (a') transpositions: every pair of equally long fields of one region exchanged (a signed message assembled
	// with two fields in each other's place accepts exactly such a quote, and only if the two values differ)
	{
		b := bases[0]
		type tr struct {
			region string
			base   int
			f, g   world.Field
		}
		var trs []tr
		for _, rg := range []struct {
			name string
			base int
			fs   []world.Field
		}{{"header", 0, world.HeaderFields}, {"td_body", 48, world.BodyFields}, {"qe_report", b.reg.QEReport[0], world.QEReportFields}} {
			for i, f := range rg.fs {
				for _, g := range rg.fs[i+1:] {
					if f.Len == g.Len {
						trs = append(trs, tr{rg.name, rg.base, f, g})
					}
				}
			}
		}
		// ... and every field of two or more bytes with its bytes in reverse order
		var revs []tr
		for _, rg := range []struct {
			name string
			base int
			fs   []world.Field
		}{{"header", 0, world.HeaderFields}, {"td_body", 48, world.BodyFields}, {"qe_report", b.reg.QEReport[0], world.QEReportFields}} {
			for _, f := range rg.fs {
				if f.Len >= 2 {
					revs = append(revs, tr{rg.name, rg.base, f, f})
				}
			}
		}
		// ... and in the other byte orders a value of that size is met in: GUID mixed-endian storage (first group of
		// four and the two groups of two reversed), every 2 / 4 / 8 bytes reversed, the two halves exchanged
		modes := []string{"reverse", "guid-mixed-endian", "each-2-reversed", "each-4-reversed", "each-8-reversed", "halves-exchanged"}
		doneR := r.Parallel(len(revs)*2*len(modes), func(k0 int) {
			mode := modes[k0%len(modes)]
			k := k0 / len(modes)
			t, l := revs[k/2], []int{world.L0, world.L2}[k%2]
			id := fmt.Sprintf("reverse/%s/%s/%s", b.name, lvlName[l], t.f.Name)
			if mode != "reverse" {
				id = fmt.Sprintf("reencode/%s/%s/%s/%s", mode, b.name, lvlName[l], t.f.Name)
			}
			if !r.Want(id) {
				return
			}
			m := append([]byte(nil), b.raw...)
			fld := m[t.base+t.f.Off : t.base+t.f.Off+t.f.Len]
			orig := append([]byte(nil), fld...)
			rev := func(x []byte) {
				for i, j := 0, len(x)-1; i < j; i, j = i+1, j-1 {
					x[i], x[j] = x[j], x[i]
				}
			}
			group := func(n int) {
				for o := 0; o+n <= len(fld); o += n {
					rev(fld[o : o+n])
				}
			}
			switch mode {
			case "reverse":
				rev(fld)
			case "guid-mixed-endian":
				if len(fld) >= 8 {
					rev(fld[0:4])
					rev(fld[4:6])
					rev(fld[6:8])
				}
			case "each-2-reversed":
				group(2)
			case "each-4-reversed":
				group(4)
			case "each-8-reversed":
				group(8)
			case "halves-exchanged":
				h := len(fld) / 2
				copy(fld, append(append([]byte{}, orig[len(fld)-h:]...), orig[:len(fld)-h]...))
			}
			if bytes.Equal(orig, fld) {
				r.Eval(id, false, "reverse:palindrome")
				return
			}
			err := verifyRawBoth(r, id, m, b.w.Options(l))
			out := c01Judge(r, id, "reverse:"+t.region+":", m, err, b, t.region)
			r.Eval(id, true, "reverse:"+t.region+":"+out)
		})
		r.SectionDone(mc.Section{Name: "field-byte-reversals/" + b.name, Evaluations: int64(doneR), Exhaustive: doneR == len(revs)*2*len(modes)})
		done := r.Parallel(len(trs)*2, func(k int) {
			t, l := trs[k/2], []int{world.L0, world.L2}[k%2]
			id := fmt.Sprintf("swap/%s/%s/%s<->%s", b.name, lvlName[l], t.f.Name, t.g.Name)
			if !r.Want(id) {
				return
			}
			m := append([]byte(nil), b.raw...)
			x := append([]byte(nil), m[t.base+t.f.Off:t.base+t.f.Off+t.f.Len]...)
			y := append([]byte(nil), m[t.base+t.g.Off:t.base+t.g.Off+t.g.Len]...)
			if bytes.Equal(x, y) {
				r.Eval(id, false, "swap:identical-values")
				return
			}
			copy(m[t.base+t.f.Off:], y)
			copy(m[t.base+t.g.Off:], x)
			err := verifyRawBoth(r, id, m, b.w.Options(l))
			out := c01Judge(r, id, "swap:"+t.region+":", m, err, b, t.region)
			r.Eval(id, true, "swap:"+t.region+":"+out)
		})
		r.SectionDone(mc.Section{Name: "field-transpositions/" + b.name, Evaluations: int64(done), Exhaustive: done == len(trs)*2})
	}

	// (b) structured forgeries (Engine A).
	bound := 2
	if r.Thorough() {
		bound = 3
	}
	nl := len(lv)
	st := r.Explore("forgeries", bound, func(c *mc.Ctx) { c01Forgery(r, c, bases[0], lv, nl) })
	world.SetLogLevel(2) // single forgeries again with the library's logger at verbosity 2
	r.Explore("forgeries/log-level=2", 1, func(c *mc.Ctx) { c01Forgery(r, c, bases[0], lv, nl) })
	world.SetLogLevel(0)
	r.Set("forgery_bound_completed", st.Bound)

	// (b') the binding hash computed over ANOTHER SPELLING of the attestation key
	c01KeyEncodings(r, lv)

	// (c) message-level single-bit mutants handed to verify.TdxQuote.
	c01MessageMutants(r, bases[0], lv)
	// (c') structural mutations of the message (on the generated baseline and on the all-zero one)
	c01MessageStructure(r, bases[0], bases[0].name)
	if fb := c01FillBaselines(); len(fb) > 0 {
		c01MessageStructure(r, fb[0], fb[0].name)
	}
}

func c01Forgery(r *mc.Run, c *mc.Ctx, base *c01base, lv []int, nl int) {
	w := base.w
	pki := w.PKI
	p := w.Parts.Clone()
	att := world.NewKey("att")
	foreign := world.NewKey("foreign-att")
	other := world.NewKey("other-signer")

	attMode := c.Choose("attkey", 10)
	bodySigner := c.Choose("bodysigner", 3)
	signedBytes := c.Choose("signedbytes", 4)
	rdMode := c.Choose("reportdata", 13)
	qeSigner := c.Choose("qesigner", 5)
	qeAltered := c.Choose("qealtered", 3)
	bodySigForm := c.Choose("bodysigform", 5)
	qeSigForm := c.Choose("qesigform", 5)
	resize := c.Choose("resize", 6)
	// which certificates of the carried chain bear the SGX extension (a mark of the PCK certificate's profile, not of
	// its role: the QE report is signed by the chain's LEAF): leaf only / also the intermediate / also the root
	sgxOn := c.Choose("sgx-extension-also-on", 3)
	li := c.Free("level", nl)
	id := "forge/" + c.ID() + world.LogTag()
	if !r.Want(id) {
		return
	}

	effAtt := att // key whose private half the forger would use for "matching" signatures
	rebind := false
	switch attMode {
	case 1: // foreign key swapped in, body re-signed consistently, report-data not rebound
		p.AttKey = foreign.Raw64()
		effAtt = foreign
	case 2: // as 1 plus report-data rebound, but the QE report is not re-signed by the PCK key
		p.AttKey = foreign.Raw64()
		effAtt = foreign
		rebind = true
	case 3:
		p.AttKey = make([]byte, 64)
	case 4:
		p.AttKey = append([]byte(nil), p.AttKey...)
		p.AttKey[63] ^= 1
	case 5:
		k := p.AttKey
		p.AttKey = append(append([]byte(nil), k[32:]...), k[:32]...)
	}
	qeResign := false
	if rebind {
		p.BindReportData() // stale QE signature on purpose
	}
	if attMode >= 6 {
		// the holder of the PCK key certifies (report data rebound, QE report re-signed) a key field that carries
		// ANOTHER ENCODING of the key that signs header||body: each coordinate byte-reversed (little-endian), the
		// whole field reversed, the point negated, the coordinates in Y||X order. The field as carried is not that key
		k := att.Raw64()
		v := append([]byte(nil), k...)
		switch attMode {
		case 6:
			for i := 0; i < 32; i++ {
				v[i], v[32+i] = k[31-i], k[63-i]
			}
		case 7:
			for i := 0; i < 64; i++ {
				v[i] = k[63-i]
			}
		case 8:
			y := new(big.Int).SetBytes(k[32:])
			y.Sub(elliptic.P256().Params().P, y)
			y.FillBytes(v[32:])
		case 9:
			copy(v[:32], k[32:])
			copy(v[32:], k[:32])
		}
		p.AttKey = v
		p.BindReportData()
		qeResign = true
	}
	switch rdMode {
	case 1:
		p.QEReport[320] ^= 1
		qeResign = true
	case 2:
		p.QEReport[383] = 1
		qeResign = true
	case 3:
		d := sha256.Sum256(p.AttKey)
		copy(p.QEReport[320:352], d[:])
		qeResign = true
	case 4:
		d := sha256.Sum256(append(append([]byte{}, p.Auth...), p.AttKey...))
		copy(p.QEReport[320:352], d[:])
		qeResign = true
	case 5:
		d := sha256.Sum256(append(append([]byte{}, p.AttKey...), p.Auth[:len(p.Auth)-1]...))
		copy(p.QEReport[320:352], d[:])
		qeResign = true
	case 6, 7, 8, 9, 10:
		// the right digest at another offset of the 64-byte field, zeros around it
		k := []int{1, 8, 16, 31, 32}[rdMode-6]
		d := sha256.Sum256(append(append([]byte{}, p.AttKey...), p.Auth...))
		for i := 320; i < 384; i++ {
			p.QEReport[i] = 0
		}
		copy(p.QEReport[320+k:], d[:])
		qeResign = true
	case 11: // the right digest twice
		d := sha256.Sum256(append(append([]byte{}, p.AttKey...), p.Auth...))
		copy(p.QEReport[320:352], d[:])
		copy(p.QEReport[352:384], d[:])
		qeResign = true
	case 12: // the right digest followed by 0x20 / 0xff padding
		d := sha256.Sum256(append(append([]byte{}, p.AttKey...), p.Auth...))
		copy(p.QEReport[320:352], d[:])
		for i := 352; i < 384; i++ {
			p.QEReport[i] = 0x20
		}
		qeResign = true
	}
	if sgxOn != 0 {
		ext := []pkix.Extension{{Id: world.OidSGX, Value: world.SGXExtension(w.Plat)}}
		inter, root := pki.Inter, pki.Root
		if sgxOn == 1 {
			inter = world.MakeCert(world.CertSpec{CN: world.CNPlatform, IsCA: true, Key: pki.InterKey, MaxPathLen: -1, ExtraExts: ext}, pki.Root, pki.RootKey)
		} else {
			root = world.MakeCert(world.CertSpec{CN: world.CNRoot, IsCA: true, Key: pki.RootKey, MaxPathLen: 1, ExtraExts: ext}, nil, pki.RootKey)
		}
		p.Chain = world.PEM(pki.Leaf, inter, root)
	}
	signers := []*world.Key{pki.LeafKey, pki.InterKey, pki.RootKey, other, effAtt}
	if qeResign || qeSigner != 0 {
		p.SignQE(signers[qeSigner])
	}
	switch qeAltered {
	case 1:
		p.QEReport[128] ^= 0x80
	case 2:
		p.QEReport[258] ^= 1
	}
	// body signature
	var sk *world.Key
	switch bodySigner {
	case 0:
		sk = effAtt
	case 1:
		sk = other
	case 2:
		sk = pki.LeafKey
	}
	switch signedBytes {
	case 0:
		p.SignBody(sk)
	case 1:
		p.SignBody(sk)
		p.Header[30] ^= 1
	case 2:
		p.SignBody(sk)
		p.Body[140] ^= 1
	case 3:
		alt := append([]byte(nil), p.Body...)
		copy(alt[136:184], world.Fill("another-mrtd", 48))
		p.Sig = sk.SignRaw(append(append([]byte{}, p.Header...), alt...))
	}
	p.Sig = sigForm(p.Sig, bodySigForm)
	p.QESig = sigForm(p.QESig, qeSigForm)
	switch resize {
	case 1:
		p.Auth = append(append([]byte(nil), p.Auth...), 0xAA)
	case 2:
		v := uint16(len(p.Auth) + 1)
		p.AuthSize = &v
	case 3, 4, 5:
		// NUL octets appended to the QE authentication data (every size field follows): the data as carried is no
		// longer what the QE report vouches for
		p.Auth = append(append([]byte(nil), p.Auth...), make([]byte, map[int]int{3: 1, 4: 32, 5: 224}[resize])...)
	}
	raw, _ := p.Bytes()

	// Driver self-check: the reference link evaluation must agree with what the descriptor says.
	expectAll := attMode == 0 && bodySigner == 0 && signedBytes == 0 && rdMode == 0 && qeSigner == 0 && qeAltered == 0 &&
		(bodySigForm == 0 || bodySigForm == 3) && (qeSigForm == 0 || qeSigForm == 3) && resize == 0
	if rp, perr := ref.ParseQuote(raw); perr == nil {
		if got := ref.LinksOf(rp).All(); got != expectAll && c.Deviations() <= 1 {
			r.HarnessError("C01 driver self-check: %s descriptor says links=%v, reference says %v", id, expectAll, got)
			return
		}
	} else if resize != 2 {
		r.HarnessError("C01 driver self-check: %s reference parser rejects a forged quote that keeps the layout: %v", id, perr)
		return
	}
	err := verifyRawBoth(r, id, raw, w.Options(lv[li]))
	out := c01Judge(r, id, "forge:", raw, err, nil, "")
	r.Eval(id, c.Deviations() > 0, out)
}

// sigForm rewrites a raw r||s signature.
// c01ShapedKey grinds a key whose raw form satisfies want (deterministic: labels are tried in order).
func c01ShapedKey(tag string, want func(raw []byte) bool) *world.Key {
	for n := 0; ; n++ {
		k := world.NewKey(fmt.Sprintf("c01-att-%s-%d", tag, n))
		if want(k.Raw64()) {
			return k
		}
	}
}

// c01KeyEncodings: the quote is genuine except that the PCK key holder bound (report data, QE report re-signed)
// SHA-256 over another spelling of the attestation key followed by the auth data: minimal big-endian coordinates
// (leading zero octets dropped: differs from the field only for 1 key in 128), SEC 1 forms, DER, hex text ... The
// statement binds the 64-byte key field itself, so each is a forgery unless the spelling equals the field. The
// correctly bound quote for the same key is expected to be accepted (C11 has the same obligation; here it shows the
// section is not vacuous).
func c01KeyEncodings(r *mc.Run, lv []int) {
	keys := []struct {
		name string
		k    *world.Key
	}{
		{"plain", world.NewKey("att")},
		{"x-leading-zero", c01ShapedKey("x0", func(b []byte) bool { return b[0] == 0 })},
		{"y-leading-zero", c01ShapedKey("y0", func(b []byte) bool { return b[32] == 0 })},
		{"x-high-bit", c01ShapedKey("xh", func(b []byte) bool { return b[0] >= 0x80 && b[32] < 0x80 })},
		{"x-trailing-zero", c01ShapedKey("xt", func(b []byte) bool { return b[31] == 0 })},
		{"y-trailing-zero", c01ShapedKey("yt", func(b []byte) bool { return b[63] == 0 })},
	}
	type enc struct {
		name string
		f    func(k *world.Key) []byte
	}
	minimal := func(b []byte) []byte { return new(big.Int).SetBytes(b).Bytes() }
	signedMin := func(b []byte) []byte { // DER INTEGER content: a zero octet in front when the high bit is set
		m := minimal(b)
		if len(m) > 0 && m[0] >= 0x80 {
			return append([]byte{0}, m...)
		}
		return m
	}
	trimRight := func(b []byte) []byte { return bytes.TrimRight(b, "\x00") }
	encs := []enc{
		{"field", func(k *world.Key) []byte { return k.Raw64() }},
		{"minimal-x||minimal-y", func(k *world.Key) []byte { b := k.Raw64(); return append(minimal(b[:32]), minimal(b[32:])...) }},
		{"minimal-x||y", func(k *world.Key) []byte { b := k.Raw64(); return append(minimal(b[:32]), b[32:]...) }},
		{"x||minimal-y", func(k *world.Key) []byte {
			b := k.Raw64()
			return append(append([]byte{}, b[:32]...), minimal(b[32:])...)
		}},
		{"two's-complement-x||y", func(k *world.Key) []byte { b := k.Raw64(); return append(signedMin(b[:32]), signedMin(b[32:])...) }},
		{"minimal(field)", func(k *world.Key) []byte { return minimal(k.Raw64()) }},
		{"field-without-trailing-zeros", func(k *world.Key) []byte { return trimRight(k.Raw64()) }},
		{"x-without-trailing-zeros||y", func(k *world.Key) []byte { b := k.Raw64(); return append(trimRight(b[:32]), b[32:]...) }},
		{"sec1-uncompressed", func(k *world.Key) []byte { return append([]byte{4}, k.Raw64()...) }},
		{"sec1-compressed", func(k *world.Key) []byte { return elliptic.MarshalCompressed(elliptic.P256(), k.Pub.X, k.Pub.Y) }},
		{"der-spki", func(k *world.Key) []byte { d, _ := x509.MarshalPKIXPublicKey(&k.Pub); return d }},
		{"hex-text", func(k *world.Key) []byte { return []byte(hexs(k.Raw64())) }},
		{"x-only", func(k *world.Key) []byte { return k.Raw64()[:32] }},
		{"little-endian-coordinates", func(k *world.Key) []byte {
			b := k.Raw64()
			v := make([]byte, 64)
			for i := 0; i < 32; i++ {
				v[i], v[32+i] = b[31-i], b[63-i]
			}
			return v
		}},
	}
	auths := [][]byte{world.Fill("auth", 32), {}, {0}, append([]byte{0}, world.Fill("auth", 31)...)}
	n := 0
	for _, l := range lv {
		for _, kk := range keys {
			for ai, auth := range auths {
				w := world.Honest("T")
				w.Spec.AttKey, w.Spec.Auth = kk.k, auth
				w.Parts = w.Spec.Parts()
				raw0, reg := w.Parts.Bytes()
				p0, err := ref.ParseQuote(raw0)
				if err != nil {
					r.HarnessError("c01 key-encodings: reference parser rejects the baseline: " + err.Error())
					return
				}
				base := &c01base{name: kk.name, w: w, raw: raw0, reg: reg, p: p0}
				for _, e := range encs {
					id := fmt.Sprintf("keyenc/%s/%s/auth%d/%s", lvlName[l], kk.name, ai, e.name)
					if !r.Want(id) {
						continue
					}
					n++
					spelled := e.f(kk.k)
					p := w.Parts.Clone()
					d := sha256.Sum256(append(append([]byte{}, spelled...), auth...))
					copy(p.QEReport[320:352], d[:])
					p.SignQE(w.PKI.LeafKey)
					raw, _ := p.Bytes()
					verr := verifyRawBoth(r, id, raw, w.Options(l))
					same := bytes.Equal(d[:], p0.QEReport[320:352])
					if same {
						if verr != nil && !world.IsPanic(verr) {
							r.Violate("keyenc:genuine-rejected:"+kk.name, id, "a genuine quote (attestation key "+kk.name+") is rejected: "+verr.Error(), map[string]any{"raw_quote_hex": hexs(raw)})
						}
						r.Eval(id, e.name != "field", "keyenc:genuine:"+verdict(verr))
						continue
					}
					out := c01Judge(r, id, "keyenc:"+e.name+":", raw, verr, base, "")
					r.Eval(id, true, "keyenc:"+out)
				}
			}
		}
	}
	r.SectionDone(mc.Section{Name: "key-encodings", Evaluations: int64(n), Exhaustive: true})
}

func sigForm(sig []byte, mode int) []byte {
	switch mode {
	case 1:
		return make([]byte, 64)
	case 2:
		return append(append([]byte(nil), sig[32:]...), sig[:32]...)
	case 3: // (r, n-s): the malleable twin, still a valid signature of the same key
		n := elliptic.P256().Params().N
		s := new(big.Int).SetBytes(sig[32:])
		s.Sub(n, s)
		out := append([]byte(nil), sig...)
		s.FillBytes(out[32:])
		return out
	case 4:
		out := append([]byte(nil), sig...)
		for i := 0; i < 32; i++ {
			out[i] = 0
		}
		return out
	}
	return sig
}

// c01MessageMutants flips every bit of every scalar/bytes field of the parsed message.
func c01MessageMutants(r *mc.Run, base *c01base, lv []int) {
	qa, err := abi.QuoteToProto(base.raw)
	if err != nil {
		r.Set("message_mutants", "baseline does not parse: "+err.Error())
		return
	}
	q0 := qa.(*pb.QuoteV4)
	type mut struct {
		path  string
		apply func(q *pb.QuoteV4)
		prot  string
	}
	var muts []mut
	var walk func(path string, get func(q *pb.QuoteV4) protoreflect.Message, m protoreflect.Message)
	walk = func(path string, get func(q *pb.QuoteV4) protoreflect.Message, m protoreflect.Message) {
		fds := m.Descriptor().Fields()
		for i := 0; i < fds.Len(); i++ {
			fd := fds.Get(i)
			name := path + string(fd.Name())
			switch {
			case fd.IsList() && fd.Kind() == protoreflect.BytesKind:
				n := m.Get(fd).List().Len()
				for k := 0; k < n; k++ {
					l := len(m.Get(fd).List().Get(k).Bytes())
					for bit := 0; bit < l*8; bit++ {
						k, bit, fd := k, bit, fd
						muts = append(muts, mut{fmt.Sprintf("%s[%d]@%d", name, k, bit), func(q *pb.QuoteV4) {
							lst := get(q).Mutable(fd).List()
							b := append([]byte(nil), lst.Get(k).Bytes()...)
							b[bit/8] ^= 1 << uint(bit%8)
							lst.Set(k, protoreflect.ValueOfBytes(b))
						}, protectedField(name)})
					}
				}
			case fd.Kind() == protoreflect.BytesKind:
				l := len(m.Get(fd).Bytes())
				for bit := 0; bit < l*8; bit++ {
					bit, fd := bit, fd
					muts = append(muts, mut{fmt.Sprintf("%s@%d", name, bit), func(q *pb.QuoteV4) {
						mm := get(q)
						b := append([]byte(nil), mm.Get(fd).Bytes()...)
						b[bit/8] ^= 1 << uint(bit%8)
						mm.Set(fd, protoreflect.ValueOfBytes(b))
					}, protectedField(name)})
				}
			case fd.Kind() == protoreflect.Uint32Kind:
				for bit := 0; bit < 32; bit++ {
					bit, fd := bit, fd
					muts = append(muts, mut{fmt.Sprintf("%s@%d", name, bit), func(q *pb.QuoteV4) {
						mm := get(q)
						mm.Set(fd, protoreflect.ValueOfUint32(uint32(mm.Get(fd).Uint())^(1<<uint(bit))))
					}, protectedField(name)})
				}
			case fd.Kind() == protoreflect.MessageKind:
				fd := fd
				sub := func(q *pb.QuoteV4) protoreflect.Message { return get(q).Mutable(fd).Message() }
				walk(name+".", sub, m.Get(fd).Message())
			}
		}
	}
	walk("", func(q *pb.QuoteV4) protoreflect.Message { return q.ProtoReflect() }, q0.ProtoReflect())
	if !r.Thorough() {
		var keep []mut
		for _, m := range muts {
			if !strings.Contains(m.path, "pck_cert_chain@") {
				keep = append(keep, m)
			}
		}
		muts = keep
	}
	for _, l := range lv {
		l := l
		done := r.Parallel(len(muts), func(i int) {
			m := muts[i]
			id := fmt.Sprintf("msg/%s/%s", lvlName[l], m.path)
			if !r.Want(id) {
				return
			}
			q := proto.Clone(q0).(*pb.QuoteV4)
			m.apply(q)
			err := world.SafeVerify(q, base.w.Options(l))
			out := verdict(err)
			if err == nil {
				if m.prot != "" {
					r.Violate("msg:accepted-protected-flip:"+m.prot, id, "message accepted by verify.TdxQuote although a bit of "+m.prot+" was changed", nil)
					out = "accept!"
				} else if strings.Contains(m.path, "pck_cert_chain@") {
					a := ref.ChainDERs(q.GetSignedData().GetCertificationData().GetQeReportCertificationData().GetPckCertificateChainData().GetPckCertChain())
					b := ref.ChainDERs(base.p.Chain)
					same := a != nil && len(a) == len(b)
					for k := 0; same && k < len(a); k++ {
						same = bytes.Equal(a[k], b[k])
					}
					if !same {
						r.Violate("msg:accepted-changed-chain", id, "message accepted although its certificate chain content changed", nil)
						out = "accept!"
					}
				}
			}
			r.Eval(id, true, "msg:"+out)
		})
		r.SectionDone(mc.Section{Name: "message-mutants/" + lvlName[l], Evaluations: int64(done), Exhaustive: done == len(muts)})
	}
}

// c01MessageStructure: every single and double structural mutation of the genuine message (lengths, counts, absent
// parts, numeric boundaries) and every re-split of the four RTMRs whose lengths still add up to 192 bytes, handed to
// verify.TdxQuote: whatever is accepted must carry exactly the genuine protected content (a serialiser that truncates
// or pads a wrongly sized field would re-create the signed bytes from a different message).
func c01MessageStructure(r *mc.Run, base *c01base, tag string) {
	qa, err := abi.QuoteToProto(base.raw)
	if err != nil {
		return
	}
	q0 := qa.(*pb.QuoteV4)
	same := func(q *pb.QuoteV4) bool {
		a, b := q.GetSignedData(), q0.GetSignedData()
		ac, bc := a.GetCertificationData().GetQeReportCertificationData(), b.GetCertificationData().GetQeReportCertificationData()
		return proto.Equal(q.GetHeader(), q0.GetHeader()) && proto.Equal(q.GetTdQuoteBody(), q0.GetTdQuoteBody()) &&
			bytes.Equal(a.GetEcdsaAttestationKey(), b.GetEcdsaAttestationKey()) && proto.Equal(ac.GetQeReport(), bc.GetQeReport()) &&
			bytes.Equal(ac.GetQeAuthData().GetData(), bc.GetQeAuthData().GetData())
	}
	judge := func(id string, q *pb.QuoteV4) {
		err := world.SafeVerify(q, base.w.Options(world.L0))
		out := verdict(err)
		if err == nil && !same(q) {
			r.Violate("msg:accepted-different-protected-content:"+tag, id, "verify.TdxQuote accepts a message whose header / TD body / attestation key / QE report / QE auth data is not the genuine one", nil)
			out = "accept!"
		}
		r.Eval(id, true, "msg-structure:"+out)
	}
	muts := structuralMutations(q0)
	type pair struct{ a, b int }
	var work []pair
	for i := range muts {
		work = append(work, pair{i, -1})
		for j := i + 1; j < len(muts); j++ {
			work = append(work, pair{i, j})
		}
	}
	done := r.Parallel(len(work), func(i int) {
		p := work[i]
		id := "msg-structure/" + tag + "/" + muts[p.a].name
		if p.b >= 0 {
			id += "+" + muts[p.b].name
		}
		if !r.Want(id) {
			return
		}
		q := proto.Clone(q0).(*pb.QuoteV4)
		muts[p.a].apply(q)
		if p.b >= 0 {
			muts[p.b].apply(q)
		}
		judge(id, q)
	})
	r.SectionDone(mc.Section{Name: "message-structure/" + tag, Evaluations: int64(done), Exhaustive: done == len(work)})
	// RTMR re-splits
	lens := []int{0, 1, 24, 47, 48, 49, 72, 96, 144, 192}
	var vecs [][4]int
	for _, a := range lens {
		for _, b := range lens {
			for _, c := range lens {
				d := 192 - a - b - c
				if d < 0 || (a == 48 && b == 48 && c == 48) {
					continue
				}
				vecs = append(vecs, [4]int{a, b, c, d})
			}
		}
	}
	orig := q0.GetTdQuoteBody().GetRtmrs()
	done = r.Parallel(len(vecs)*2, func(i int) {
		v, fill := vecs[i/2], []byte{0xAB, 0x00}[i%2]
		id := fmt.Sprintf("msg-structure/%s/rtmr-lengths=%v,filler=%#02x", tag, v, fill)
		if !r.Want(id) || len(orig) != 4 {
			return
		}
		q := proto.Clone(q0).(*pb.QuoteV4)
		var rt [][]byte
		for k := 0; k < 4; k++ {
			b := make([]byte, v[k])
			for x := range b {
				b[x] = fill
			}
			copy(b, orig[k])
			rt = append(rt, b)
		}
		q.TdQuoteBody.Rtmrs = rt
		judge(id, q)
	})
	r.SectionDone(mc.Section{Name: "message-structure/rtmr-resplits/" + tag, Evaluations: int64(done), Exhaustive: done == len(vecs)*2})
}

// protectedField maps a message field path to the protected region it belongs to.
func protectedField(name string) string {
	const qe = "signed_data.certification_data.qe_report_certification_data."
	switch {
	case strings.HasPrefix(name, "header."):
		return "header"
	case strings.HasPrefix(name, "td_quote_body."):
		return "td_body"
	case name == "signed_data.ecdsa_attestation_key":
		return "attestation_key"
	case strings.HasPrefix(name, qe+"qe_report."):
		return "qe_report"
	case name == qe+"qe_auth_data.data":
		return "qe_auth_data"
	case name == "signed_data.signature", name == qe+"qe_report_signature":
		return "signature"
	}
	return ""
}
