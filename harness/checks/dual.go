package checks

import (
	"fmt"
	"strings"

	pb "github.com/google/go-tdx-guest/proto/tdx"
	"github.com/google/go-tdx-guest/verify"
	"google.golang.org/protobuf/proto"

	"verifharness/mc"
	"verifharness/world"
)

// verifyRawBoth decides one (raw quote, options) pair through BOTH entry points: verify.RawTdxQuote on the bytes and —
// when the bytes parse — verify.TdxQuote on the parsed message, each with its own copy of the options (copied before
// the first call; the scripted getter is cloned). The verdict of a quote is a function of the quote and the options,
// so the two must agree; a disagreement means one of them breaks the property under test, whichever it is. The
// verdict of the raw entry point is returned for the check's own oracle.
func verifyRawBoth(r *mc.Run, id string, raw []byte, o *verify.Options) error {
	var o2 *verify.Options
	if o != nil {
		c := *o
		if o.Now != nil {
			t := *o.Now
			c.Now = &t
		}
		if g, ok := o.Getter.(*world.Getter); ok && g != nil {
			c.Getter = g.Clone()
		}
		o2 = &c
	}
	err := world.SafeVerifyRaw(raw, o)
	q, perr := safeToProto(raw)
	if perr != nil || o == nil {
		return err
	}
	// ... and the same message after a trip through the protobuf wire format (what a caller gets who received the
	// parsed quote from another process: empty byte fields arrive as nil, not as empty slices)
	var o3 *verify.Options
	if o2 != nil {
		c := *o2
		if o2.Now != nil {
			t := *o2.Now
			c.Now = &t
		}
		if g, ok := o2.Getter.(*world.Getter); ok && g != nil {
			c.Getter = g.Clone()
		}
		o3 = &c
	}
	err2 := world.SafeVerify(q, o2)
	// (the wire form on a fixed third of the cases — those whose id hashes to 0 mod 3 — and on every case with few deviations)
	if wire, merr := proto.Marshal(q); merr == nil && (hashOf(id)%3 == 0 || strings.Count(id, ",") < 2) {
		q3 := &pb.QuoteV4{}
		if proto.Unmarshal(wire, q3) == nil {
			err3 := world.SafeVerify(q3, o3)
			if (err == nil) != (err3 == nil) && !world.IsPanic(err) && !world.IsPanic(err3) {
				r.Violate("entry-points-disagree:wire-form", id, fmt.Sprintf("verify.RawTdxQuote says %q, verify.TdxQuote on the parsed message after a protobuf wire round trip says %q", errStr(err), errStr(err3)),
					map[string]any{"raw_quote_hex_prefix": hexs(raw[:prefixLen(raw)])})
			}
		}
	}
	if (err == nil) != (err2 == nil) && !world.IsPanic(err) && !world.IsPanic(err2) {
		r.Violate("entry-points-disagree", id, fmt.Sprintf("verify.RawTdxQuote says %q, verify.TdxQuote on the parsed message says %q for the same quote and options", errStr(err), errStr(err2)),
			map[string]any{"raw_quote_hex_prefix": hexs(raw[:prefixLen(raw)])})
	}
	return err
}

func prefixLen(b []byte) int {
	if len(b) < 700 {
		return len(b)
	}
	return 700
}
