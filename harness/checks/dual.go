package checks

import (
	"fmt"

	"github.com/google/go-tdx-guest/verify"

	"verifharness/mc"
	"verifharness/world"
)

// verifyRawBoth decides one (raw quote, options) pair through BOTH entry points: verify.RawTdxQuote on the bytes and —
// when the bytes parse — verify.TdxQuote on the parsed message, each with its own copy of the options (copied before
// the first call; the scripted getter is cloned). The verdict of a quote is a function of the quote and the options,
// so the two must agree; a disagreement means one of them breaks the property under test, whichever it is. The
// verdict of the raw entry point is returned for the check's own oracle.
func verifyRawBoth(r *mc.Run, id string, raw []byte, o *verify.Options) error {
	var o2 *verify.Options
	if o != nil {
		c := *o
		if o.Now != nil {
			t := *o.Now
			c.Now = &t
		}
		if g, ok := o.Getter.(*world.Getter); ok && g != nil {
			c.Getter = g.Clone()
		}
		o2 = &c
	}
	err := world.SafeVerifyRaw(raw, o)
	q, perr := safeToProto(raw)
	if perr != nil || o == nil {
		return err
	}
	err2 := world.SafeVerify(q, o2)
	if (err == nil) != (err2 == nil) && !world.IsPanic(err) && !world.IsPanic(err2) {
		r.Violate("entry-points-disagree", id, fmt.Sprintf("verify.RawTdxQuote says %q, verify.TdxQuote on the parsed message says %q for the same quote and options", errStr(err), errStr(err2)),
			map[string]any{"raw_quote_hex_prefix": hexs(raw[:prefixLen(raw)])})
	}
	return err
}

func prefixLen(b []byte) int {
	if len(b) < 700 {
		return len(b)
	}
	return 700
}
