package checks

import (
	"bytes"
	"encoding/binary"
	"encoding/hex"
	"encoding/json"
	"fmt"
	"regexp"
	"strings"

	"verifharness/mc"
	"verifharness/ref"
	"verifharness/world"
)

func init() {
	mc.Register(&mc.Check{ID: "C07", Category: "exploration",
		Rule:   "cases: QE reports re-signed by the PCK key against freshly signed QE Identity documents: every single MISCSELECT bit inside/outside a mixed mask; every ATTRIBUTES byte x {bit inside mask, bit outside mask}; mask / value lengths 15,16,17; every MRSIGNER byte; ISVPRODID {equal, +-1, byte-swapped}; level lists of length 1..3 with isvsvn {below, equal, above} x all 7 statuses (first level) / 3 status classes (others), both listed orders; hex case and odd-length hex; plus all pairs of the field deviations. Non-trivial: differs from the matching baseline; distinct by id",
		Assume: cryptoAssume, Run: runC07})
}

type c07case struct {
	id  string
	qe  func(qe []byte)                // edits the QE report before it is signed
	id2 func(e *world.EnclaveIdentity) // edits the identity before it is signed
	raw func(member []byte) []byte     // edits the identity's JSON text before it is signed
	// soundOnly: only "accepted => matches" is judged (a document with a member missing need not be accepted)
	soundOnly bool
	// sibling, when set, is an UNSIGNED member the response carries next to the signed one (name, before / after)
	sibling       string
	siblingBefore bool
	// hdr edits the quote header before the body signature is made (the header is the quote producer's to choose)
	hdr func(h []byte)
}

func runC07(r *mc.Run) {
	w := world.Honest("T")
	baseID := world.DefaultQeIdentity()
	baseID.Miscselect, baseID.MiscselectMask = "34120000", "ffff00f0"
	baseID.Attributes = "11000000000000000000000000005a00"
	baseID.AttributesMask = "fbffffffffffffff000000000000ff0f"
	baseID.IsvProdID = 0x0102
	baseID.TcbLevels = []world.Level{{Tcb: world.Tcb{Isvsvn: world.IntP(8)}, TcbDate: "2029-06-01T00:00:00Z", TcbStatus: "UpToDate"}}
	baseQE := func(qe []byte) {
		binary.LittleEndian.PutUint32(qe[16:], 0x0f001234) // bits 24..27 lie outside the mask
		copy(qe[48:64], []byte{0x15, 0, 0, 0, 0, 0, 0, 0, 0x77, 0x66, 0x55, 0x44, 0x33, 0x22, 0x5a, 0xf0})
		binary.LittleEndian.PutUint16(qe[256:], 0x0102)
		binary.LittleEndian.PutUint16(qe[258:], 8)
	}
	var cases []c07case
	add := func(id string, qe func([]byte), idf func(*world.EnclaveIdentity)) {
		cases = append(cases, c07case{id: id, qe: qe, id2: idf})
	}
	add("baseline", nil, nil)
	for bit := 0; bit < 32; bit++ {
		bit := bit
		add(fmt.Sprintf("miscselect/report^bit%d", bit), func(qe []byte) { qe[16+bit/8] ^= 1 << uint(bit%8) }, nil)
		add(fmt.Sprintf("miscselect/identity^bit%d", bit), nil, func(e *world.EnclaveIdentity) { e.Miscselect = flipHex(e.Miscselect, bit) })
		add(fmt.Sprintf("miscselect/mask^bit%d", bit), nil, func(e *world.EnclaveIdentity) { e.MiscselectMask = flipHex(e.MiscselectMask, bit) })
	}
	for _, l := range []int{3, 5} {
		l := l
		add(fmt.Sprintf("miscselect/mask-len%d", l), nil, func(e *world.EnclaveIdentity) { e.MiscselectMask = strings.Repeat("ff", l) })
		add(fmt.Sprintf("miscselect/value-len%d", l), nil, func(e *world.EnclaveIdentity) { e.Miscselect = strings.Repeat("00", l) })
	}
	for by := 0; by < 16; by++ {
		for _, bit := range []int{0, 2, 7} {
			by, bit := by, bit
			add(fmt.Sprintf("attributes/report^%d.%d", by, bit), func(qe []byte) { qe[48+by] ^= 1 << uint(bit) }, nil)
			add(fmt.Sprintf("attributes/identity^%d.%d", by, bit), nil, func(e *world.EnclaveIdentity) { e.Attributes = flipHex(e.Attributes, by*8+bit) })
			add(fmt.Sprintf("attributes/mask^%d.%d", by, bit), nil, func(e *world.EnclaveIdentity) { e.AttributesMask = flipHex(e.AttributesMask, by*8+bit) })
		}
	}
	for _, l := range []int{0, 15, 17} {
		l := l
		add(fmt.Sprintf("attributes/mask-len%d", l), nil, func(e *world.EnclaveIdentity) { e.AttributesMask = strings.Repeat("ff", l) })
		add(fmt.Sprintf("attributes/value-len%d", l), nil, func(e *world.EnclaveIdentity) { e.Attributes = (e.Attributes + "00")[:2*l] })
		add(fmt.Sprintf("attributes/both-len%d", l), nil, func(e *world.EnclaveIdentity) {
			e.AttributesMask = strings.Repeat("00", l)
			e.Attributes = strings.Repeat("00", l)
		})
	}
	// a QE whose ATTRIBUTES carry a further flag that the identity demands too (KSS, mode64, provision key ...: every
	// bit of the first two octets in turn): every OTHER requirement still holds — a mismatch elsewhere is a mismatch
	for bit := 0; bit < 16; bit++ {
		bit := bit
		withBit := func(qe []byte) { qe[48+bit/8] |= 1 << uint(bit%8) }
		idWith := func(e *world.EnclaveIdentity) {
			v := flipHex(e.Attributes, bit)
			m := e.AttributesMask
			var vb, mb byte
			fmt.Sscanf(e.Attributes[2*(bit/8):2*(bit/8)+2], "%02x", &vb)
			fmt.Sscanf(m[2*(bit/8):2*(bit/8)+2], "%02x", &mb)
			if vb&(1<<uint(bit%8)) == 0 {
				e.Attributes = v // the identity now requires the bit
			}
			if mb&(1<<uint(bit%8)) == 0 {
				e.AttributesMask = flipHex(m, bit) // ... and its mask covers it
			}
		}
		add(fmt.Sprintf("attribute-flag%d-demanded-and-present/otherwise-matching", bit), withBit, idWith)
		add(fmt.Sprintf("attribute-flag%d-demanded-and-present/isvprodid-differs", bit), func(qe []byte) { withBit(qe); binary.LittleEndian.PutUint16(qe[256:], 0x0103) }, idWith)
		add(fmt.Sprintf("attribute-flag%d-demanded-and-present/mrsigner-differs", bit), func(qe []byte) { withBit(qe); qe[128+9] ^= 0x40 }, idWith)
		add(fmt.Sprintf("attribute-flag%d-demanded-and-present/miscselect-differs", bit), func(qe []byte) { withBit(qe); qe[16] ^= 0x04 }, idWith)
		add(fmt.Sprintf("attribute-flag%d-demanded-and-present/isvsvn-below-every-level", bit), func(qe []byte) { withBit(qe); binary.LittleEndian.PutUint16(qe[258:], 1) }, idWith)
	}
	// the identity's value carries bits OUTSIDE its mask (no report can then match: report AND mask never has them) and
	// the report's raw field equals the identity's value octet for octet / in the masked part
	for _, bit := range []int{2, 8 * 8, 8*13 + 7, 8*15 + 4, 8*10 + 3} {
		bit := bit
		idAttrs := flipHex(baseID.Attributes, bit)
		rawID := make([]byte, 16)
		for i := range rawID {
			fmt.Sscanf(idAttrs[2*i:2*i+2], "%02x", &rawID[i])
		}
		add(fmt.Sprintf("attributes/identity-bit-outside-mask@%d,report=identity-value", bit), func(qe []byte) { copy(qe[48:64], rawID) }, func(e *world.EnclaveIdentity) { e.Attributes = idAttrs })
		add(fmt.Sprintf("attributes/identity-bit-outside-mask@%d,report-has-the-bit-too", bit), func(qe []byte) { qe[48+bit/8] |= 1 << uint(bit%8) }, func(e *world.EnclaveIdentity) { e.Attributes = idAttrs })
	}
	for _, bit := range []int{16, 23, 24, 27} {
		bit := bit
		idMisc := flipHex(baseID.Miscselect, bit)
		rawID := make([]byte, 4)
		for i := range rawID {
			fmt.Sscanf(idMisc[2*i:2*i+2], "%02x", &rawID[i])
		}
		add(fmt.Sprintf("miscselect/identity-bit-outside-mask@%d,report=identity-value", bit), func(qe []byte) { copy(qe[16:20], rawID) }, func(e *world.EnclaveIdentity) { e.Miscselect = idMisc })
	}
	// identity values of another length that are NUMERICALLY the masked report value: zero octets in front, or the
	// leading octets (hidden by the mask) left out; the identity's value is a byte string of the field's size
	add("attributes/value-front-padded-17", nil, func(e *world.EnclaveIdentity) { e.Attributes = "00" + e.Attributes })
	add("attributes/value-front-padded-18", nil, func(e *world.EnclaveIdentity) { e.Attributes = "0000" + e.Attributes })
	add("attributes/mask-hides-first-octet,value-15", nil, func(e *world.EnclaveIdentity) {
		e.AttributesMask = "00" + e.AttributesMask[2:]
		e.Attributes = e.Attributes[2:]
	})
	add("attributes/mask-hides-first-two-octets,value-14", nil, func(e *world.EnclaveIdentity) {
		e.AttributesMask = "0000" + e.AttributesMask[4:]
		e.Attributes = e.Attributes[4:]
	})
	for _, l := range []int{0, 1, 15, 17, 32} {
		l := l
		add(fmt.Sprintf("attributes/mask-all-zero,value-len%d", l), nil, func(e *world.EnclaveIdentity) {
			e.AttributesMask = strings.Repeat("00", 16)
			e.Attributes = strings.Repeat("00", l)
		})
	}
	add("miscselect/value-front-padded-5", nil, func(e *world.EnclaveIdentity) { e.Miscselect = "00" + e.Miscselect })
	add("miscselect/value-back-padded-5", nil, func(e *world.EnclaveIdentity) { e.Miscselect = e.Miscselect + "00" })
	for _, l := range []int{0, 1, 3, 5, 8} {
		l := l
		add(fmt.Sprintf("miscselect/mask-all-zero,value-len%d", l), nil, func(e *world.EnclaveIdentity) {
			e.MiscselectMask = "00000000"
			e.Miscselect = strings.Repeat("00", l)
		})
	}
	add("mrsigner/identity-front-padded-33", nil, func(e *world.EnclaveIdentity) { e.Mrsigner = "00" + e.Mrsigner })
	add("mrsigner/identity-back-padded-33", nil, func(e *world.EnclaveIdentity) { e.Mrsigner = e.Mrsigner + "00" })
	for by := 0; by < 32; by++ {
		by := by
		add(fmt.Sprintf("mrsigner/report^%d", by), func(qe []byte) { qe[128+by] ^= 0x40 }, nil)
		add(fmt.Sprintf("mrsigner/identity^%d", by), nil, func(e *world.EnclaveIdentity) { e.Mrsigner = flipHex(e.Mrsigner, by*8+6) })
	}
	add("mrsigner/identity-short", nil, func(e *world.EnclaveIdentity) { e.Mrsigner = e.Mrsigner[:62] })
	add("mrsigner/identity-empty", nil, func(e *world.EnclaveIdentity) { e.Mrsigner = "" })
	for _, v := range []int{0x0101, 0x0103, 0x0201, 0, 0xffff} {
		v := v
		add(fmt.Sprintf("isvprodid/report=%#x", v), func(qe []byte) { binary.LittleEndian.PutUint16(qe[256:], uint16(v)) }, nil)
		add(fmt.Sprintf("isvprodid/identity=%#x", v), nil, func(e *world.EnclaveIdentity) { e.IsvProdID = v })
	}
	// hex spelling
	add("hex/upper", nil, func(e *world.EnclaveIdentity) {
		e.Attributes, e.AttributesMask, e.Mrsigner = strings.ToUpper(e.Attributes), strings.ToUpper(e.AttributesMask), strings.ToUpper(e.Mrsigner)
		e.MiscselectMask = strings.ToUpper(e.MiscselectMask)
	})
	add("hex/odd-length-mrsigner", nil, func(e *world.EnclaveIdentity) { e.Mrsigner = e.Mrsigner[:63] })
	add("hex/odd-length-mask", nil, func(e *world.EnclaveIdentity) { e.AttributesMask = e.AttributesMask[:31] })
	add("hex/non-hex", nil, func(e *world.EnclaveIdentity) { e.Attributes = "zz" + e.Attributes[2:] })
	// level lists
	statuses := world.Statuses
	classes := []string{"UpToDate", "OutOfDate", "Revoked"}
	isvs := []int{7, 8, 9} // below, equal, above the report's 8
	mkLevel := func(isv int, st string) world.Level {
		return world.Level{Tcb: world.Tcb{Isvsvn: world.IntP(isv)}, TcbDate: "2029-06-01T00:00:00Z", TcbStatus: st}
	}
	maxLevels := 3
	if r.Thorough() {
		maxLevels = 4
	}
	for n := 1; n <= maxLevels; n++ {
		total := 21
		for k := 1; k < n; k++ {
			total *= 9
		}
		for code := 0; code < total; code++ {
			c := code
			var ls []world.Level
			name := ""
			ls = append(ls, mkLevel(isvs[c%3], statuses[(c/3)%7]))
			name += fmt.Sprintf("%d:%s", isvs[c%3], statuses[(c/3)%7])
			c /= 21
			for k := 1; k < n; k++ {
				ls = append(ls, mkLevel(isvs[c%3], classes[(c/3)%3]))
				name += fmt.Sprintf(",%d:%s", isvs[c%3], classes[(c/3)%3])
				c /= 9
			}
			lsCopy := ls
			add("levels/"+name, nil, func(e *world.EnclaveIdentity) { e.TcbLevels = lsCopy })
		}
	}
	// other spellings of a status: only Intel's own spelling is that status
	for _, st := range []string{"UpToDate", "OutOfDate", "Revoked", "SWHardeningNeeded"} {
		for _, sp := range []string{strings.ToUpper(st), strings.ToLower(st), strings.ToLower(st[:1]) + st[1:], st + " ", " " + st, strings.Replace(st, "o", "O", 1)} {
			if sp == st {
				continue
			}
			sp := sp
			add(fmt.Sprintf("status-spelling/%q", sp), nil, func(e *world.EnclaveIdentity) { e.TcbLevels = []world.Level{mkLevel(8, sp)} })
			add(fmt.Sprintf("status-spelling/%q-then-UpToDate", sp), nil, func(e *world.EnclaveIdentity) { e.TcbLevels = []world.Level{mkLevel(8, sp), mkLevel(7, "UpToDate")} })
		}
	}
	add("levels/empty-list", nil, func(e *world.EnclaveIdentity) { e.TcbLevels = []world.Level{} })
	add("levels/null", nil, func(e *world.EnclaveIdentity) { e.TcbLevels = nil })
	// level dates: the listed order decides, whatever the dates say (ascending = later listed is newer), and
	// lists that are not sorted by isvsvn (a search that assumes descending order goes wrong on them)
	for _, ls := range [][]world.Level{
		{mkLevel(8, "OutOfDate"), mkLevel(7, "UpToDate")}, {mkLevel(8, "UpToDate"), mkLevel(7, "Revoked")},
		{mkLevel(7, "OutOfDate"), mkLevel(9, "UpToDate"), mkLevel(6, "UpToDate")}, {mkLevel(7, "UpToDate"), mkLevel(9, "Revoked"), mkLevel(6, "OutOfDate")},
		{mkLevel(9, "UpToDate"), mkLevel(7, "OutOfDate"), mkLevel(9, "UpToDate"), mkLevel(8, "UpToDate")}, {mkLevel(6, "Revoked"), mkLevel(9, "UpToDate"), mkLevel(9, "UpToDate"), mkLevel(5, "UpToDate"), mkLevel(8, "UpToDate")},
		{mkLevel(9, "UpToDate"), mkLevel(9, "UpToDate"), mkLevel(9, "UpToDate"), mkLevel(5, "OutOfDate"), mkLevel(9, "UpToDate"), mkLevel(8, "UpToDate"), mkLevel(4, "UpToDate")},
	} {
		for _, mode := range []int{0, 1, 2, 3, 4, 5} {
			lsCopy := append([]world.Level(nil), ls...)
			name := ""
			for i := range lsCopy {
				switch mode {
				case 1:
					lsCopy[i].TcbDate = fmt.Sprintf("20%02d-03-01T00:00:00Z", 20+i)
				case 2:
					lsCopy[i].TcbDate = fmt.Sprintf("20%02d-03-01T00:00:00Z", 29-i)
				case 3: // the first listed levels are dated AFTER the verification time (2030), the later ones before it
					lsCopy[i].TcbDate = fmt.Sprintf("20%02d-03-01T00:00:00Z", 33-2*i)
				case 4: // alternately after / before the verification time
					lsCopy[i].TcbDate = fmt.Sprintf("20%02d-03-01T00:00:00Z", 28+5*((i+1)%2))
				case 5: // every level dated after the verification time
					lsCopy[i].TcbDate = fmt.Sprintf("20%02d-03-01T00:00:00Z", 40+i)
				}
				name += fmt.Sprintf("%d:%s,", *lsCopy[i].Tcb.Isvsvn, lsCopy[i].TcbStatus)
			}
			add(fmt.Sprintf("level-order/%sdates=%s", name, []string{"equal", "ascending", "descending", "first-ones-after-verification-time", "alternately-after-and-before", "all-after-verification-time"}[mode]), nil, func(e *world.EnclaveIdentity) { e.TcbLevels = lsCopy })
		}
	}
	// long level lists: the first listed level with isvsvn <= the report's decides, however many precede / follow it
	for _, n := range []int{8, 9, 16, 17, 33, 64, 100} {
		for _, pos := range []int{-1, 0, 1, n / 2, n - 2, n - 1} {
			for _, st := range statuses {
				var ls []world.Level
				other := "UpToDate"
				if st == "UpToDate" {
					other = "Revoked"
				}
				for k := 0; k < n; k++ {
					switch {
					case pos >= 0 && k == pos:
						ls = append(ls, mkLevel(8-k%2, st))
					case pos >= 0 && k > pos:
						ls = append(ls, mkLevel(8-k%3, other))
					default:
						ls = append(ls, mkLevel(9+(n-k)%5, "UpToDate"))
					}
				}
				lsCopy := ls
				add(fmt.Sprintf("long-levels/n=%d,first-match@%d:%s", n, pos, st), nil, func(e *world.EnclaveIdentity) { e.TcbLevels = lsCopy })
			}
		}
	}
	for _, v := range []int{0, 7, 9, 0x0800, 0xffff} {
		v := v
		add(fmt.Sprintf("isvsvn/report=%#x", v), func(qe []byte) { binary.LittleEndian.PutUint16(qe[258:], uint16(v)) }, nil)
	}
	// the same level lists (length <= 2) around ISVSVN values with the high bit / all bits of the 16-bit field set
	for _, rep := range []int{0x8001, 0xffff, 0x0100} {
		rep := rep
		hi := []int{rep - 1, rep, rep + 1}
		for n := 1; n <= 2; n++ {
			total := 21
			if n == 2 {
				total *= 9
			}
			for code := 0; code < total; code++ {
				c := code
				var ls []world.Level
				name := fmt.Sprintf("report=%#x/%#x:%s", rep, hi[c%3], statuses[(c/3)%7])
				ls = append(ls, mkLevel(hi[c%3], statuses[(c/3)%7]))
				c /= 21
				if n == 2 {
					ls = append(ls, mkLevel(hi[c%3], classes[(c/3)%3]))
					name += fmt.Sprintf(",%#x:%s", hi[c%3], classes[(c/3)%3])
				}
				lsCopy := ls
				add("levels-high/"+name, func(qe []byte) { binary.LittleEndian.PutUint16(qe[258:], uint16(rep)) }, func(e *world.EnclaveIdentity) { e.TcbLevels = lsCopy })
			}
		}
	}
	// members absent from / null in the signed JSON (a zero value must not be read as a match or as UpToDate)
	dropMember := func(name string, nth int, repl string) func([]byte) []byte {
		return func(m []byte) []byte {
			re := regexp.MustCompile(`"` + name + `":("[^"]*"|[0-9]+|\{[^{}]*\}),?`)
			k := 0
			out := re.ReplaceAllFunc(m, func(b []byte) []byte {
				k++
				if k-1 != nth {
					return b
				}
				if repl == "" {
					return nil
				}
				tail := ""
				if b[len(b)-1] == ',' {
					tail = ","
				}
				return []byte(`"` + name + `":` + repl + tail)
			})
			return bytes.ReplaceAll(bytes.ReplaceAll(out, []byte(",}"), []byte("}")), []byte(",]"), []byte("]"))
		}
	}
	threeLevels := func(e *world.EnclaveIdentity) {
		e.TcbLevels = []world.Level{mkLevel(9, "UpToDate"), mkLevel(8, "Revoked"), mkLevel(7, "UpToDate")}
	}
	for _, name := range []string{"miscselect", "miscselectMask", "attributes", "attributesMask", "mrsigner", "isvprodid", "id", "version", "issueDate", "nextUpdate"} {
		for _, v := range []struct{ n, repl string }{{"absent", ""}, {"null", "null"}} {
			cases = append(cases, c07case{id: "member/" + name + "=" + v.n, raw: dropMember(name, 0, v.repl), soundOnly: true})
		}
	}
	for lvl := 0; lvl < 3; lvl++ {
		for _, name := range []string{"tcbStatus", "tcbDate", "isvsvn", "tcb"} {
			for _, v := range []struct{ n, repl string }{{"absent", ""}, {"null", "null"}, {"empty", `""`}} {
				if v.n == "empty" && name != "tcbStatus" && name != "tcbDate" {
					continue
				}
				cases = append(cases, c07case{id: fmt.Sprintf("member/level%d.%s=%s", lvl, name, v.n), id2: threeLevels, raw: dropMember(name, lvl, v.repl), soundOnly: true})
			}
		}
	}
	// the same bit differing in two bytes of one field (a comparison that folds the bytes together lets the two cancel)
	for i := 0; i < 16; i++ {
		for j := i + 1; j < 16; j++ {
			i, j := i, j
			for _, bit := range []int{0, 4} {
				bit := bit
				add(fmt.Sprintf("twobytes/attributes/report^%d.%d+%d.%d", i, bit, j, bit), func(qe []byte) { qe[48+i] ^= 1 << uint(bit); qe[48+j] ^= 1 << uint(bit) }, nil)
				add(fmt.Sprintf("twobytes/attributes/identity^%d.%d+%d.%d", i, bit, j, bit), nil, func(e *world.EnclaveIdentity) { e.Attributes = flipHex(flipHex(e.Attributes, i*8+bit), j*8+bit) })
				add(fmt.Sprintf("twobytes/attributes/report^%d.%d+identity^%d.%d", i, bit, j, bit), func(qe []byte) { qe[48+i] ^= 1 << uint(bit) }, func(e *world.EnclaveIdentity) { e.Attributes = flipHex(e.Attributes, j*8+bit) })
			}
		}
	}
	for i := 0; i < 32; i++ {
		for j := i + 1; j < 32; j++ {
			i, j := i, j
			add(fmt.Sprintf("twobytes/mrsigner/report^%d+%d", i, j), func(qe []byte) { qe[128+i] ^= 0x40; qe[128+j] ^= 0x40 }, nil)
			add(fmt.Sprintf("twobytes/mrsigner/report^%d+identity^%d", i, j), func(qe []byte) { qe[128+i] ^= 0x40 }, func(e *world.EnclaveIdentity) { e.Mrsigner = flipHex(e.Mrsigner, j*8+6) })
		}
	}
	for i := 0; i < 4; i++ {
		for j := i + 1; j < 4; j++ {
			i, j := i, j
			for bit := 0; bit < 8; bit++ {
				bit := bit
				add(fmt.Sprintf("twobytes/miscselect/report^%d.%d+%d.%d", i, bit, j, bit), func(qe []byte) { qe[16+i] ^= 1 << uint(bit); qe[16+j] ^= 1 << uint(bit) }, nil)
				add(fmt.Sprintf("twobytes/miscselect/report^%d.%d+identity^%d.%d", i, bit, j, bit), func(qe []byte) { qe[16+i] ^= 1 << uint(bit) }, func(e *world.EnclaveIdentity) { e.Miscselect = flipHex(e.Miscselect, j*8+bit) })
			}
		}
	}
	// byte-swapped fields: the right bytes in the wrong places
	add("swapped/attributes-report-bytes-0-14", func(qe []byte) { qe[48], qe[48+14] = qe[48+14], qe[48] }, nil)
	add("swapped/mrsigner-report-reversed", func(qe []byte) {
		for a, b := 128, 159; a < b; a, b = a+1, b-1 {
			qe[a], qe[b] = qe[b], qe[a]
		}
	}, nil)
	// a signed identity that omits a member, next to an unsigned look-alike member (other capitalisation of the name,
	// before or after the signed one) holding the complete, matching identity: what is not signed does not count
	for _, om := range []struct {
		name string
		drop [][2]string // member name, nth occurrence as decimal
	}{
		{"level0.tcbStatus", [][2]string{{"tcbStatus", "0"}}}, {"level0.tcb", [][2]string{{"tcb", "0"}}}, {"attributes+mask", [][2]string{{"attributes", "0"}, {"attributesMask", "0"}}},
		{"miscselect+mask", [][2]string{{"miscselect", "0"}, {"miscselectMask", "0"}}}, {"mrsigner", [][2]string{{"mrsigner", "0"}}}, {"isvprodid", [][2]string{{"isvprodid", "0"}}},
		{"tcbLevels", nil}, {"nothing", [][2]string{}},
	} {
		om := om
		for _, sib := range []string{"EnclaveIdentity", "ENCLAVEIDENTITY", "enclaveidentity", "enclaveIdentity"} {
			for _, before := range []bool{true, false} {
				if sib == "enclaveIdentity" && !before {
					continue // an exact duplicate AFTER the signed member replaces it for every reader; C03's subject
				}
				edit := func(m []byte) []byte {
					for _, d := range om.drop {
						m = dropMember(d[0], int(d[1][0]-'0'), "")(m)
					}
					if om.name == "tcbLevels" {
						m = regexp.MustCompile(`"tcbLevels":\[[^\]]*\],?`).ReplaceAll(m, nil)
						m = bytes.ReplaceAll(m, []byte(",}"), []byte("}"))
					}
					return m
				}
				cases = append(cases, c07case{id: fmt.Sprintf("sibling/signed-without-%s/%s-%s", om.name, sib, map[bool]string{true: "before", false: "after"}[before]),
					id2: func(e *world.EnclaveIdentity) {
						if om.name == "level0.tcbStatus" || om.name == "level0.tcb" {
							// the signed first level is the one that decides; it is not UpToDate / loses its SVN
							e.TcbLevels = []world.Level{mkLevel(8, "OutOfDate"), mkLevel(7, "UpToDate")}
						}
					}, raw: edit, soundOnly: true, sibling: sib, siblingBefore: before})
			}
		}
	}
	// the QE identity applies whatever the quote's HEADER says: QE vendor id one bit off Intel's / all zero / all ff,
	// other header SVNs — combined with the baseline and with a selection of mismatching QE reports and identities
	{
		var sel []c07case
		for _, c := range cases {
			switch c.id {
			case "baseline", "miscselect/report^bit3", "attributes/report^0.2", "mrsigner/report^31", "isvprodid/report=0x201", "levels/8:OutOfDate", "levels/8:Revoked", "levels/9:UpToDate", "isvsvn/report=0x7":
				sel = append(sel, c)
			}
		}
		for _, hv := range []struct {
			name string
			edit func(h []byte)
		}{
			{"vendor-id^bit0", func(h []byte) { h[12] ^= 1 }}, {"vendor-id=zero", func(h []byte) { copy(h[12:28], make([]byte, 16)) }},
			{"vendor-id=ff", func(h []byte) { copy(h[12:28], bytes.Repeat([]byte{0xff}, 16)) }}, {"header-svns=ffff", func(h []byte) { copy(h[8:12], []byte{0xff, 0xff, 0xff, 0xff}) }},
			{"user-data=ff", func(h []byte) { copy(h[28:48], bytes.Repeat([]byte{0xff}, 20)) }},
		} {
			for _, c := range sel {
				c2 := c
				c2.id = "header/" + hv.name + "/" + c.id
				c2.hdr = hv.edit
				cases = append(cases, c2)
			}
		}
	}
	// pairs of single-field deviations (wiring mistakes show up as a verdict that needs both)
	singles := []c07case{}
	for _, c := range cases {
		if strings.HasSuffix(c.id, "^bit3") || strings.HasSuffix(c.id, "^bit26") || strings.HasSuffix(c.id, "^0.2") || strings.HasSuffix(c.id, "^15.7") || strings.HasSuffix(c.id, "^14.0") ||
			strings.HasSuffix(c.id, "report^31") || strings.HasSuffix(c.id, "identity^0") || strings.HasPrefix(c.id, "isvprodid/report=0x201") || c.id == "levels/9:UpToDate" || c.id == "levels/7:OutOfDate" {
			singles = append(singles, c)
		}
	}
	for i, a := range singles {
		for _, b := range singles[i+1:] {
			a, b := a, b
			add("pair/"+a.id+"+"+b.id, func(qe []byte) {
				if a.qe != nil {
					a.qe(qe)
				}
				if b.qe != nil {
					b.qe(qe)
				}
			}, func(e *world.EnclaveIdentity) {
				if a.id2 != nil {
					a.id2(e)
				}
				if b.id2 != nil {
					b.id2(e)
				}
			})
		}
	}

	done := r.Parallel(len(cases), func(i int) {
		c := cases[i]
		if !r.Want(c.id) {
			return
		}
		p := w.Parts.Clone()
		baseQE(p.QEReport)
		if c.qe != nil {
			c.qe(p.QEReport)
		}
		p.SignQE(w.PKI.LeafKey)
		if c.hdr != nil {
			c.hdr(p.Header)
			p.SignBody(world.NewKey("att"))
		}
		raw, _ := p.Bytes()
		e := baseID
		e.TcbLevels = append([]world.Level(nil), baseID.TcbLevels...)
		if c.id2 != nil {
			c.id2(&e)
		}
		member := world.MustJSON(e)
		if c.raw != nil {
			member = c.raw(member)
			if !json.Valid(member) {
				r.HarnessError("C07 %s: edited identity is not valid JSON: %s", c.id, member)
				return
			}
		}
		g := w.Getter.Clone()
		g.Responses[world.URLQeIdentity] = world.Response{Header: w.QeHdr, Body: world.SignedBody("enclaveIdentity", member, w.PKI.TcbKey)}
		if c.sibling != "" {
			good := baseID
			good.TcbLevels = []world.Level{mkLevel(8, "UpToDate")}
			sibJSON := fmt.Sprintf("%q:%s", c.sibling, world.MustJSON(good))
			signedJSON := fmt.Sprintf("%q:%s,%q:%q", "enclaveIdentity", member, "signature", hex.EncodeToString(w.PKI.TcbKey.SignRaw(member)))
			body := "{" + signedJSON + "," + sibJSON + "}"
			if c.siblingBefore {
				body = "{" + sibJSON + "," + signedJSON + "}"
			}
			g.Responses[world.URLQeIdentity] = world.Response{Header: w.QeHdr, Body: []byte(body)}
		}
		o := w.Options(world.L1)
		o.Getter = g
		err := verifyRawBoth(r, c.id, raw, o)
		var ej ref.QeIdentityJ
		json.Unmarshal(member, &ej)
		rp, _ := ref.ParseQuote(raw)
		want, why := ref.QeIdentityVerdict(ej, ref.QEOf(rp))
		out := verdict(err)
		detail := map[string]any{"enclaveIdentity": string(member), "qe_report_hex": hexs(p.QEReport), "reference": why}
		switch {
		case world.IsPanic(err):
			r.Violate("panic:"+crashSite(err), c.id, "verification crashes: "+errStr(err), detail)
		case err == nil && !want:
			r.Violate("accepted:"+strings.ReplaceAll(why, " ", "-")+":"+kindOf(c.id), c.id, "quote accepted although the QE does not match Intel's QE identity: "+why, detail)
			out = "accept!"
		case err != nil && want && !c.soundOnly:
			r.Violate("rejected-matching-qe:"+kindOf(c.id), c.id, "quote rejected although the QE matches the identity and is UpToDate: "+errStr(err), detail)
			out = "reject!"
		}
		r.Eval(c.id, c.id != "baseline", fmt.Sprintf("%s:want=%v/%s", kindOf(c.id), want, out))
	})
	r.SectionDone(mc.Section{Name: "qe-identity-cases", Evaluations: int64(done), Exhaustive: done == len(cases)})

	// quote MESSAGES whose 32-bit isv_svn / isv_prod_id carry more than the 16 bits the PCK-signed report holds: the
	// signed report decides. Signed ISVSVN 5 (OutOfDate level) / 3 (below every level) / 8 (UpToDate, the control),
	// message value = signed + k * 65536
	type mcase struct {
		signed int
		add    uint32
		field  string
	}
	var mcases []mcase
	for _, sg := range []int{8, 5, 3} {
		for _, k := range []uint32{0, 1, 2, 7, 0x7fff, 0xffff} {
			mcases = append(mcases, mcase{sg, k << 16, "isv_svn"})
			if k != 0 {
				mcases = append(mcases, mcase{sg, k << 16, "isv_prod_id"})
			}
		}
	}
	doneM := r.Parallel(len(mcases), func(i int) {
		mc0 := mcases[i]
		id := fmt.Sprintf("message/signed-isvsvn=%d,%s+=%#x", mc0.signed, mc0.field, mc0.add)
		if !r.Want(id) {
			return
		}
		p := w.Parts.Clone()
		baseQE(p.QEReport)
		binary.LittleEndian.PutUint16(p.QEReport[258:], uint16(mc0.signed))
		p.SignQE(w.PKI.LeafKey)
		raw, _ := p.Bytes()
		q, perr := safeToProto(raw)
		if perr != nil {
			r.HarnessError("C07 %s: quote does not parse: %v", id, perr)
			return
		}
		rep := q.GetSignedData().GetCertificationData().GetQeReportCertificationData().GetQeReport()
		if mc0.field == "isv_svn" {
			rep.IsvSvn += mc0.add
		} else {
			rep.IsvProdId += mc0.add
		}
		e := baseID
		e.TcbLevels = []world.Level{mkLevel(8, "UpToDate"), mkLevel(5, "OutOfDate")}
		g := w.Getter.Clone()
		g.Responses[world.URLQeIdentity] = world.Response{Header: w.QeHdr, Body: world.SignedBody("enclaveIdentity", world.MustJSON(e), w.PKI.TcbKey)}
		o := w.Options(world.L1)
		o.Getter = g
		err := world.SafeVerify(q, o)
		want := mc0.signed == 8 && mc0.add == 0
		out := verdict(err)
		switch {
		case world.IsPanic(err):
			r.Violate("message:panic:"+crashSite(err), id, "verification crashes: "+errStr(err), nil)
		case err == nil && mc0.signed != 8:
			r.Violate("message:accepted-against-signed-isvsvn", id, fmt.Sprintf("quote message accepted although the PCK-signed QE report carries ISVSVN %d, which is not an UpToDate level", mc0.signed), nil)
			out = "accept!"
		case err == nil && mc0.add != 0:
			r.Violate("message:accepted-oversize-field", id, "quote message accepted although "+mc0.field+" does not fit the 16 bits of the signed report", nil)
			out = "accept!"
		case err != nil && want:
			r.Violate("message:control-rejected", id, "the unmodified message with an UpToDate QE is rejected: "+errStr(err), nil)
			out = "reject!"
		}
		r.Eval(id, mc0.add != 0 || mc0.signed != 8, fmt.Sprintf("message:want=%v/%s", want, out))
	})
	r.SectionDone(mc.Section{Name: "oversize-message-fields", Evaluations: int64(doneM), Exhaustive: doneM == len(mcases)})
}

// flipHex flips bit `bit` (byte-major, LSB first) of a hex string.
func flipHex(h string, bit int) string {
	b := make([]byte, len(h)/2)
	for i := range b {
		fmt.Sscanf(h[2*i:2*i+2], "%02x", &b[i])
	}
	if bit/8 >= len(b) {
		return h
	}
	b[bit/8] ^= 1 << uint(bit%8)
	out := hexs(b)
	if h == strings.ToUpper(h) && h != strings.ToLower(h) {
		out = strings.ToUpper(out)
	}
	return out
}
