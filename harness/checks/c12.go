package checks

import (
	"crypto/x509"
	"crypto/x509/pkix"
	"encoding/asn1"
	"errors"
	"fmt"
	"hash/fnv"
	"math/big"
	"os"
	"reflect"
	"sort"
	"strings"
	"time"

	pb "github.com/google/go-tdx-guest/proto/tdx"
	"github.com/google/go-tdx-guest/verify"

	"verifharness/mc"
	"verifharness/ref"
	"verifharness/shim/vsched"
	"verifharness/world"
)

func init() {
	mc.Register(&mc.Check{ID: "C12", Category: "model_checking",
		Rule:   "(a) every world of a fault menu (honest worlds over 6 FMSPC values and both issuing CAs, signature / chain / trust faults, collateral faults, revocation faults, expiry faults) verified under all four option combinations with a recording getter; (b) explicit-state BFS over histories of verifications through ONE shared *verify.Options on a virtual clock: alphabet = verify {honest quote A, honest quote A' with another FMSPC, quote under a foreign PKI, structurally empty message} at {L0, L1, L2, revocation-without-collateral}, set Options.Now to nil / explicit T0 / explicit T0+70d, advance the clock by 25 days (past collateral and certificate expiries), set TrustedRoots to {T} / {look-alike} / nil, change what the collateral service answers (PCK CRL lists / no longer lists the leaf; TCB level Revoked / UpToDate at thorough); state = deep hash of the options value + clock position + service environment + pool identity; every transition is compared with the same call on a fresh options value at the same virtual time. Non-trivial: every world x option combination / every transition; distinct by id / history",
		Assume: append([]string{"the virtual clock replaces time.Now inside verify.go through a check-time overlay", "state merging by (deep hash of every field of the options value, clock position) is sound: equal keys hold equal option contents at equal times and therefore have equal futures"}, cryptoAssume...),
		Run:    runC12})
}

// c12World is one world of part (a).
type c12World struct {
	name   string
	raw    []byte
	getter *world.Getter
	roots  *x509.CertPool
	now    verify.TimeSet
	fmspc  string
	ca     string
}

func c12Worlds() []c12World {
	var out []c12World
	T, F := world.CachedPKI("T"), world.CachedPKI("F")
	add := func(name string, w *world.World, raw []byte) {
		if raw == nil {
			raw = w.Raw()
		}
		out = append(out, c12World{name, raw, w.Getter, w.Roots, w.Now, hexs(w.Plat.FMSPC), w.CA})
	}
	honest := func(fmspc []byte) *world.World {
		w := world.Honest("T")
		w.Plat.FMSPC = fmspc
		w.PKI = T.WithLeaf(w.Plat)
		w.Spec.PKI = w.PKI
		w.Parts = w.Spec.Parts()
		w.TcbInfo = world.DefaultTcbInfo(w.Plat, w.Parts.Body[0:16])
		w.Finish()
		return w
	}
	for _, f := range [][]byte{{0x50, 0x80, 0x6f, 0, 0, 0}, {0, 0, 0, 0, 0, 0}, {0xff, 0xff, 0xff, 0xff, 0xff, 0xff}, {0xab, 0xcd, 0xef, 0x01, 0x23, 0x45}, {0x00, 0x90, 0x6e, 0xd5, 0, 0}, {0x80, 0, 0, 0, 0, 0x01},
		// six octets that read as an encoding of something else: a nested OCTET STRING, a SEQUENCE, printable hex digits, a NUL-padded string
		{0x04, 0x04, 0xa1, 0xb2, 0xc3, 0xd4}, {0x30, 0x04, 0x02, 0x02, 0x01, 0x00}, {'5', '0', '8', '0', '6', 'f'}, {'a', 'b', 0, 0, 0, 0}, {0x25, 0x32, 0x35, 0x26, 0x3d, 0x3f}} {
		add("honest/fmspc="+hexs(f), honest(f), nil)
	}
	{ // the SGX extension lists its elements in other orders (optional ones before FMSPC, FMSPC first, reversed)
		for _, ord := range [][]string{{"ppid", "tcb", "pceid", "type", "fmspc"}, {"type", "ppid", "tcb", "pceid", "fmspc"}, {"fmspc", "type", "pceid", "tcb", "ppid"}, {"ppid", "type", "tcb", "fmspc", "pceid"}} {
			w := world.Honest("T")
			top, tcb := world.SGXElems(w.Plat)
			var seq [][]byte
			for _, k := range ord {
				if k == "tcb" {
					seq = append(seq, world.SGXTcbElem(tcb))
				} else {
					seq = append(seq, top[k])
				}
			}
			leaf := world.MakeCert(world.CertSpec{CN: world.CNLeaf, Key: T.LeafKey, SGXExt: world.DERSeq(seq...)}, T.Inter, T.InterKey)
			p := w.Parts.Clone()
			p.Chain = world.PEM(leaf, T.Inter, T.Root)
			raw, _ := p.Bytes()
			add("honest/sgx-elements="+strings.Join(ord, ","), w, raw)
		}
	}
	{ // the leaf carries further private, non-critical extensions whose content is SGX-shaped and names ANOTHER
		// FMSPC, after / before / around the SGX extension, under object identifiers next to the SGX one
		w := world.Honest("T")
		other := w.Plat
		other.FMSPC = []byte{0x5a, 0x11, 0x22, 0x33, 0x44, 0x55}
		decoyVal := world.SGXExtension(other)
		sgx := pkix.Extension{Id: world.OidSGX, Value: world.SGXExtension(w.Plat)}
		oid := func(arcs ...int) asn1.ObjectIdentifier { return asn1.ObjectIdentifier(arcs) }
		base := []int{1, 2, 840, 113741, 1, 13}
		oids := map[string]asn1.ObjectIdentifier{"sibling": oid(append(append([]int{}, base...), 2)...), "child": oid(append(append([]int{}, base...), 1, 1)...),
			"parent": oid(base...), "sibling-10": oid(append(append([]int{}, base...), 10)...)}
		for _, on := range []string{"sibling", "child", "parent", "sibling-10"} {
			d := pkix.Extension{Id: oids[on], Value: decoyVal}
			for pn, exts := range map[string][]pkix.Extension{"after": {sgx, d}, "before": {d, sgx}, "after-empty": {sgx, {Id: oids[on], Value: []byte{}}}} {
				// (the library insists on six extensions in all, as Intel's certificates have: the further one takes the
				// place of the CRL distribution point)
				leaf := world.MakeCert(world.CertSpec{CN: world.CNLeaf, Key: T.LeafKey, NoSGXExt: true, NoCRLDP: true, ExtraExts: exts}, T.Inter, T.InterKey)
				p := w.Parts.Clone()
				p.Chain = world.PEM(leaf, T.Inter, T.Root)
				raw, _ := p.Bytes()
				add("honest/sgx-elements+decoy-extension="+on+"-"+pn, w, raw)
			}
		}
	}
	{ // the QE report carries a bit that the QE identity's mask leaves out (of ATTRIBUTES, incl. the DEBUG flag, and of
		// MISCSELECT): with collateral the mask decides, without collateral nothing looks at these fields
		for _, bit := range []int{1, 2, 5, 7, 8 * 8, 8*15 + 7} {
			w := world.Honest("T")
			attr := make([]byte, 16)
			attr[0] = 0x11
			attr[bit/8] |= 1 << uint(bit%8)
			w.Spec.Attributes = attr
			w.Parts = w.Spec.Parts()
			mask := make([]byte, 16)
			for i := 0; i < 8; i++ {
				mask[i] = 0xff
			}
			mask[0] = 0xfb
			mask[bit/8] &^= 1 << uint(bit%8)
			idv := make([]byte, 16)
			for i := range idv {
				idv[i] = attr[i] & mask[i]
			}
			w.QeID.Attributes, w.QeID.AttributesMask = hexs(idv), hexs(mask)
			w.Finish()
			add(fmt.Sprintf("honest/qe-bits/attributes-bit%d-outside-the-identity-mask", bit), w, nil)
		}
		for _, bit := range []int{0, 9, 31} {
			w := world.Honest("T")
			w.Spec.MiscSelect = 1 << uint(bit)
			w.Parts = w.Spec.Parts()
			m := ^uint32(1 << uint(bit))
			w.QeID.Miscselect, w.QeID.MiscselectMask = "00000000", fmt.Sprintf("%02x%02x%02x%02x", byte(m), byte(m>>8), byte(m>>16), byte(m>>24))
			w.Finish()
			add(fmt.Sprintf("honest/qe-bits/miscselect-bit%d-outside-the-identity-mask", bit), w, nil)
		}
	}
	{ // the leaf's own CRL distribution point names another CA's list (or another service) than the CA that issued it:
		// the request names the issuing CA
		for _, dp := range []string{"https://api.trustedservices.intel.com/sgx/certification/v4/pckcrl?ca=processor&encoding=der",
			"https://api.trustedservices.intel.com/sgx/certification/v4/pckcrl?ca=all&encoding=der", "https://example.test/sgx/certification/v4/pckcrl?ca=processor", "ldap://example.test/cn=crl"} {
			w := world.Honest("T")
			leaf := world.MakeCert(world.CertSpec{CN: world.CNLeaf, Key: T.LeafKey, SGXExt: world.SGXExtension(w.Plat), CRLDP: []string{dp}}, T.Inter, T.InterKey)
			p := w.Parts.Clone()
			p.Chain = world.PEM(leaf, T.Inter, T.Root)
			raw, _ := p.Bytes()
			add("honest/sgx-elements+leaf-distribution-point="+dp[strings.LastIndex(dp, "/")+1:], w, raw)
		}
	}
	{ // processor CA as issuer of the leaf (the library only accepts the platform CA name; the CRL request must still name "processor")
		w := world.Honest("T")
		pk := world.NewKey("T/processor-ca")
		proc := world.MakeCert(world.CertSpec{CN: world.CNProcessor, IsCA: true, Key: pk, MaxPathLen: -1}, T.Root, T.RootKey)
		leaf := world.MakeCert(world.CertSpec{CN: world.CNLeaf, Key: T.LeafKey, SGXExt: world.SGXExtension(w.Plat)}, proc, pk)
		p := w.Parts.Clone()
		p.Chain = world.PEM(leaf, proc, T.Root)
		raw, _ := p.Bytes()
		w.CA = "processor"
		w.PckCrl = world.MakeCRL(world.CRLSpec{Issuer: proc, Signer: pk})
		w.PckHdr = map[string][]string{world.HdrPckCrl: {world.IssuerChainHeader(proc, T.Root)}}
		w.BuildGetter()
		add("honest/processor-ca", w, raw)
		// mixed chains: the leaf says one CA issued it, the chain carries the other CA's certificate. The quote is
		// rejected either way; whatever is requested before that names the CA the LEAF says issued it
		mixed := func(name, leafIssuer string, carried *x509.Certificate, issuerCert *x509.Certificate, issuerKey *world.Key) {
			wm := world.Honest("T")
			lf := world.MakeCert(world.CertSpec{CN: world.CNLeaf, Key: T.LeafKey, SGXExt: world.SGXExtension(wm.Plat)}, issuerCert, issuerKey)
			pm := wm.Parts.Clone()
			pm.Chain = world.PEM(lf, carried, T.Root)
			rawm, _ := pm.Bytes()
			wm.CA = leafIssuer
			if leafIssuer == "processor" {
				wm.PckCrl = world.MakeCRL(world.CRLSpec{Issuer: proc, Signer: pk})
				wm.PckHdr = map[string][]string{world.HdrPckCrl: {world.IssuerChainHeader(proc, T.Root)}}
				wm.BuildGetter()
			}
			add(name, wm, rawm)
		}
		mixed("fault/mixed-chain:leaf-issued-by-processor-ca,platform-ca-carried", "processor", T.Inter, proc, pk)
		mixed("fault/mixed-chain:leaf-issued-by-platform-ca,processor-ca-carried", "platform", proc, T.Inter, T.InterKey)
	}
	{ // the TCB signing certificate is not yet valid at the TCB Info / QE Identity time but is at the (later) CRL times:
		// rejected with collateral, and turning revocation checking on as well cannot make it acceptable
		w := world.Honest("T")
		late := world.MakeCert(world.CertSpec{CN: world.CNTcb, Key: T.TcbKey, Serial: big.NewInt(0x0c12), NotBefore: world.T0.AddDate(0, 0, 1), NotAfter: world.T0.AddDate(5, 0, 0)}, T.Root, T.RootKey)
		w.TcbHdr = map[string][]string{world.HdrTcbInfo: {world.IssuerChainHeader(late, T.Root)}}
		w.QeHdr = map[string][]string{world.HdrQeIdentity: {world.IssuerChainHeader(late, T.Root)}}
		w.BuildGetter()
		w.Now = world.TimeSetAt(world.T0)
		w.Now.PckCrl, w.Now.RootCaCrl = world.T0.AddDate(0, 0, 2), world.T0.AddDate(0, 0, 2)
		add("expiry/collateral-signer-valid-only-from-a-day-later,crl-times-two-days-later", w, nil)
		w2 := world.Honest("T")
		w2.Now = world.TimeSetAt(world.T0)
		w2.Now.PckCrl, w2.Now.RootCaCrl = world.T0.AddDate(0, 0, 2), world.T0.AddDate(0, 0, 2)
		add("honest/crl-times-two-days-later", w2, nil)
	}
	base := func() *world.World { return world.Honest("T") }
	{ // signature-chain faults
		w := base()
		p := w.Parts.Clone()
		p.Body[200] ^= 1
		raw, _ := p.Bytes()
		add("fault/body-altered", w, raw)
		p = w.Parts.Clone()
		p.SignQE(world.NewKey("foreign"))
		raw, _ = p.Bytes()
		add("fault/qe-signed-by-foreign-key", w, raw)
		p = w.Parts.Clone()
		p.QEReport[330] ^= 1
		p.SignQE(T.LeafKey)
		raw, _ = p.Bytes()
		add("fault/hash-binding-broken", w, raw)
	}
	{ // trust faults
		w := world.Honest("F")
		w.Roots = world.Pool(T.Root)
		add("fault/quote-under-foreign-pki", w, nil)
		w2 := base()
		p := w2.Parts.Clone()
		p.Chain = world.PEM(T.Leaf, F.Inter, T.Root)
		raw, _ := p.Bytes()
		add("fault/look-alike-intermediate", w2, raw)
	}
	coll := func(name string, mod func(w *world.World)) {
		w := base()
		mod(w)
		w.Finish()
		add(name, w, nil)
	}
	coll("fault/tcb-revoked", func(w *world.World) { w.TcbInfo.TcbLevels[0].TcbStatus = "Revoked" })
	coll("fault/tcb-outofdate", func(w *world.World) { w.TcbInfo.TcbLevels[0].TcbStatus = "OutOfDate" })
	coll("fault/tcb-fmspc-mismatch", func(w *world.World) { w.TcbInfo.Fmspc = "010203040506" })
	coll("fault/tcb-expired", func(w *world.World) { w.TcbInfo.NextUpdate = world.TimeStr(world.T0.AddDate(0, 0, -1)) })
	coll("fault/qe-mrsigner-mismatch", func(w *world.World) { w.QeID.Mrsigner = strings.Repeat("cd", 32) })
	coll("fault/qe-revoked", func(w *world.World) { w.QeID.TcbLevels[0].TcbStatus = "Revoked" })
	{
		// the responses carry DIFFERENT ISSUES of the root in their issuer-chain headers: an earlier, expired issue (same
		// name and key) in some, the current one in the others. Which copies are looked at must not depend on the switches
		oldRoot := world.MakeCert(world.CertSpec{CN: world.CNRoot, IsCA: true, Key: T.RootKey, MaxPathLen: 1, Serial: big.NewInt(0x0c12), NotBefore: world.T0.AddDate(-10, 0, 0), NotAfter: world.T0.AddDate(0, 0, -3)}, nil, T.RootKey)
		for mask := 1; mask < 8; mask++ {
			w := base()
			var where []string
			if mask&1 != 0 {
				w.TcbHdr = map[string][]string{world.HdrTcbInfo: {world.IssuerChainHeader(w.PKI.Tcb, oldRoot)}}
				where = append(where, "tcbinfo")
			}
			if mask&2 != 0 {
				w.QeHdr = map[string][]string{world.HdrQeIdentity: {world.IssuerChainHeader(w.PKI.Tcb, oldRoot)}}
				where = append(where, "qeidentity")
			}
			if mask&4 != 0 {
				w.PckHdr = map[string][]string{world.HdrPckCrl: {world.IssuerChainHeader(w.PKI.Inter, oldRoot)}}
				where = append(where, "pckcrl")
			}
			w.BuildGetter()
			add("fault/expired-issue-of-the-root-carried-with-"+strings.Join(where, "+"), w, nil)
		}
	}
	{
		w := base()
		w.TcbBody = world.SignedBody("tcbInfo", w.TcbRaw, F.TcbKey)
		w.BuildGetter()
		add("fault/tcbinfo-signed-by-foreign-key", w, nil)
		w = base()
		w.Getter.Responses[world.URLQeIdentity] = world.Response{Err: errors.New("503")}
		add("fault/qe-identity-endpoint-down", w, nil)
		w = base()
		w.Getter.Responses[world.URLTcbInfo(hexs(w.Plat.FMSPC))] = world.Response{Header: w.TcbHdr, Body: []byte("{}")}
		add("fault/tcbinfo-empty-object", w, nil)
	}
	crl := func(name string, pck, root []*big.Int, mod func(w *world.World)) {
		w := base()
		w.PckCrl = world.MakeCRL(world.CRLSpec{Issuer: T.Inter, Signer: T.InterKey, Revoked: pck})
		w.RootCrl = world.MakeCRL(world.CRLSpec{Issuer: T.Root, Signer: T.RootKey, Revoked: root})
		if mod != nil {
			mod(w)
		}
		w.BuildGetter()
		if strings.Contains(name, "endpoint-down") {
			w.Getter.Responses[world.URLPckCrl("platform")] = world.Response{Err: errors.New("503")}
		}
		if strings.Contains(name, "root-crl-garbage") {
			w.Getter.Responses[world.RootCRLURL] = world.Response{Body: []byte("garbage")}
		}
		add(name, w, nil)
	}
	crl("fault/leaf-revoked", []*big.Int{T.Leaf.SerialNumber}, nil, nil)
	crl("fault/intermediate-revoked", nil, []*big.Int{T.Inter.SerialNumber}, nil)
	crl("fault/tcb-signer-revoked", nil, []*big.Int{T.Tcb.SerialNumber}, nil)
	crl("fault/pck-crl-endpoint-down", nil, nil, nil)
	crl("fault/root-crl-garbage", nil, nil, nil)
	crl("fault/pck-crl-signed-by-root", nil, nil, func(w *world.World) { w.PckCrl = world.MakeCRL(world.CRLSpec{Issuer: T.Root, Signer: T.RootKey}) })
	crl("fault/pck-crl-expired", nil, nil, func(w *world.World) {
		w.PckCrl = world.MakeCRL(world.CRLSpec{Issuer: T.Inter, Signer: T.InterKey, NextUpdate: world.T0.AddDate(0, 0, -1)})
	})
	{
		w := base()
		w.Now = world.TimeSetAt(world.T0.AddDate(30, 0, 0))
		add("fault/everything-expired", w, nil)
		w = base()
		w.Now.PckCrl = world.T0.AddDate(1, 0, 0)
		add("fault/only-pck-crl-time-late", w, nil)
		// collateral signer certificates that only path validation objects to (nothing else repeats that check:
		// a level that checks more must not lose it)
		for _, v := range []struct {
			name string
			spec world.CertSpec
		}{
			{"not-yet-valid", world.CertSpec{CN: world.CNTcb, Key: T.TcbKey, NotBefore: world.T0.AddDate(0, 1, 0), NotAfter: world.T0.AddDate(10, 0, 0)}},
			{"eku-code-signing", world.CertSpec{CN: world.CNTcb, Key: T.TcbKey, ExtKeyUsage: []x509.ExtKeyUsage{x509.ExtKeyUsageCodeSigning}}},
			{"is-a-ca-with-pathlen0", world.CertSpec{CN: world.CNTcb, Key: T.TcbKey, IsCA: true, MaxPathLen: -1}},
		} {
			signer := world.MakeCert(v.spec, T.Root, T.RootKey)
			w = base()
			w.TcbHdr = map[string][]string{world.HdrTcbInfo: {world.IssuerChainHeader(signer, T.Root)}}
			w.BuildGetter()
			add("fault/tcbinfo-signer-"+v.name, w, nil)
			w = base()
			w.QeHdr = map[string][]string{world.HdrQeIdentity: {world.IssuerChainHeader(signer, T.Root)}}
			w.BuildGetter()
			add("fault/qeidentity-signer-"+v.name, w, nil)
		}
		// an out-of-date re-issue of a CA certificate (same key and names) carried in the quote while the
		// trusted pool holds the current one: whatever a level decides, a higher level must not accept more
		for _, v := range []struct {
			name   string
			nb, na time.Time
		}{{"expired", world.T0.AddDate(-10, 0, 0), world.T0.AddDate(0, 0, -1)}, {"not-yet-valid", world.T0.AddDate(0, 0, 1), world.T0.AddDate(10, 0, 0)}} {
			w = base()
			oldRoot := world.MakeCert(world.CertSpec{CN: world.CNRoot, IsCA: true, Key: T.RootKey, MaxPathLen: 1, NotBefore: v.nb, NotAfter: v.na}, nil, T.RootKey)
			p := w.Parts.Clone()
			p.Chain = world.PEM(T.Leaf, T.Inter, oldRoot)
			raw, _ := p.Bytes()
			add("fault/embedded-root-reissue-"+v.name, w, raw)
			w = base()
			oldInter := world.MakeCert(world.CertSpec{CN: world.CNPlatform, IsCA: true, Key: T.InterKey, MaxPathLen: -1, NotBefore: v.nb, NotAfter: v.na}, T.Root, T.RootKey)
			p = w.Parts.Clone()
			p.Chain = world.PEM(T.Leaf, oldInter, T.Root)
			raw, _ = p.Bytes()
			add("fault/embedded-intermediate-reissue-"+v.name, w, raw)
			// the same for the issuer chains the collateral service sends along
			w = base()
			w.TcbHdr = map[string][]string{world.HdrTcbInfo: {world.IssuerChainHeader(T.Tcb, oldRoot)}}
			w.BuildGetter()
			add("fault/tcbinfo-issuer-root-reissue-"+v.name, w, nil)
			w = base()
			w.PckHdr = map[string][]string{world.HdrPckCrl: {world.IssuerChainHeader(T.Inter, oldRoot)}}
			w.BuildGetter()
			add("fault/pckcrl-issuer-root-reissue-"+v.name, w, nil)
		}
		w = base()
		w.Now.TcbInfo = world.T0.AddDate(1, 0, 0)
		add("fault/only-tcbinfo-time-late", w, nil)
	}
	return out
}

func runC12(r *mc.Run) {
	// (a) monotonicity and fetch discipline
	worlds := c12Worlds()
	// part (a) always passes an explicit time set, so the (process-global) virtual clock is not involved
	done := r.Parallel(len(worlds), func(i int) { c12EvalWorld(r, worlds[i]) })
	r.SectionDone(mc.Section{Name: "option-combinations", Evaluations: int64(done) * 5, Exhaustive: done == len(worlds)})

	c12Composed(r)
	c12HeaderSpellings(r)
	c12SecondEntryPoint(r)

	// (b) histories through one shared options value on a virtual clock
	if !strings.Contains(os.Getenv("VERIF_OVERLAY"), "time") {
		r.HarnessError("C12 part (b) must run in the binary built with the time/context overlay (run.sh does that)")
		return
	}
	c12Histories(r)
}

// c12SecondEntryPoint: verify.SupportedTcbLevelsFromCollateral is the other exported function that works on an options
// value. Whatever was verified through that value before, with collateral checking off at the time of the call it
// performs no fetch at all (and with it on it requests nothing but the four documents).
func c12SecondEntryPoint(r *mc.Run) {
	type first struct {
		name       string
		coll, crl  bool
		run, other bool
	}
	firsts := []first{{"nothing-before", false, false, false, false}, {"TdxQuote/L0", false, false, true, false}, {"TdxQuote/L1", true, false, true, false}, {"TdxQuote/L2", true, true, true, false},
		{"TdxQuote/revocation-without-collateral", false, true, true, false}, {"TdxQuote/L0-on-another-quote", false, false, true, true}, {"TdxQuote/L0-twice", false, false, true, false}}
	n := 0
	for fi, f := range firsts {
		for _, sw := range []struct {
			name      string
			coll, crl bool
		}{{"collateral-off", false, false}, {"collateral-off,revocation-on", false, true}, {"collateral-on", true, false}, {"both-on", true, true}} {
			id := fmt.Sprintf("second-entry-point/after=%s/switches=%s", f.name, sw.name)
			if !r.Want(id) {
				continue
			}
			n++
			w := world.Honest("T")
			g := w.Getter.Clone()
			now := w.Now
			o := &verify.Options{GetCollateral: f.coll, CheckRevocations: f.crl, Getter: g, Now: &now, TrustedRoots: w.Roots}
			raw := w.Raw()
			if f.run {
				vr := raw
				if f.other {
					w2 := world.Honest("T")
					w2.Plat.FMSPC = []byte{0xde, 0xad, 0xbe, 0xef, 0, 1}
					w2.PKI = world.CachedPKI("T").WithLeaf(w2.Plat)
					w2.Spec.PKI = w2.PKI
					w2.Parts = w2.Spec.Parts()
					vr = w2.Raw()
				}
				world.SafeVerifyRaw(vr, o)
				if fi == len(firsts)-1 {
					world.SafeVerifyRaw(vr, o)
				}
			}
			o.GetCollateral, o.CheckRevocations = sw.coll, sw.crl
			before := len(g.Log)
			q, perr := safeToProto(raw)
			if perr != nil {
				r.HarnessError("C12: baseline quote does not parse: %v", perr)
				return
			}
			var err error
			func() {
				defer world.Recover(&err)
				_, _, err = verify.SupportedTcbLevelsFromCollateral(q, o)
			}()
			fetched := g.Log[before:]
			out := fmt.Sprintf("%s,fetches=%d", verdict(err), len(fetched))
			if !sw.coll && len(fetched) > 0 && !world.IsPanic(err) {
				r.Violate("second-entry-point:fetch-with-collateral-off", id, fmt.Sprintf("GetCollateral is false but SupportedTcbLevelsFromCollateral requested %v", fetched), nil)
				out += "!"
			}
			r.Eval(id, true, "second-entry-point:"+out)
		}
	}
	r.SectionDone(mc.Section{Name: "second-entry-point", Evaluations: int64(n), Exhaustive: true})
}

// c12HeaderSpellings: responses whose header map carries the issuer chain under SEVERAL spellings of the header name
// with different values (a getter need not hand out a canonicalised map). Whatever the library makes of such a map,
// the verdict is a function of the fetched data: every such world is verified repeatedly, with fresh options and with
// one shared options value, and all verdicts must be the same. The one source of variation here, the order in which
// Go iterates a map, is not under the explorer's control: each world is repeated 32 times (two entries: two orders,
// a miss has probability 2^-31; three entries: six orders).
func c12HeaderSpellings(r *mc.Run) {
	spell := func(canon string, how int) string {
		switch how {
		case 1:
			return strings.ToLower(canon)
		case 2:
			return strings.ToUpper(canon)
		case 3:
			return strings.ToLower(canon[:1]) + canon[1:]
		}
		return canon
	}
	type shape struct {
		name    string
		entries [][2]int // (spelling, 0 good / 1 broken / 2 chain of another PKI)
	}
	shapes := []shape{
		{"lower=good,upper=broken", [][2]int{{1, 0}, {2, 1}}}, {"lower=broken,upper=good", [][2]int{{1, 1}, {2, 0}}},
		{"lower=good,mixed=foreign", [][2]int{{1, 0}, {3, 2}}}, {"lower=good,upper=broken,mixed=foreign", [][2]int{{1, 0}, {2, 1}, {3, 2}}},
		{"canonical=good,lower=broken", [][2]int{{0, 0}, {1, 1}}}, {"canonical=broken,lower=good", [][2]int{{0, 1}, {1, 0}}},
		{"lower=good", [][2]int{{1, 0}}}, {"upper=good,lower=good", [][2]int{{2, 0}, {1, 0}}},
	}
	F := world.CachedPKI("F")
	n := 0
	for di, doc := range []string{"tcbinfo", "qeidentity", "pckcrl"} {
		for _, sh := range shapes {
			for _, level := range []int{world.L1, world.L2} {
				if doc == "pckcrl" && level == world.L1 {
					continue
				}
				id := fmt.Sprintf("header-spellings/%s/%s/%s", doc, sh.name, lvlName[level])
				if !r.Want(id) {
					continue
				}
				n++
				w := world.Honest("T")
				canon := []string{world.HdrTcbInfo, world.HdrQeIdentity, world.HdrPckCrl}[di]
				good := [][]string{w.TcbHdr[canon], w.QeHdr[canon], w.PckHdr[canon]}[di]
				foreign := []string{world.IssuerChainHeader(F.Tcb, F.Root)}
				if doc == "pckcrl" {
					foreign = []string{world.IssuerChainHeader(F.Inter, F.Root)}
				}
				h := map[string][]string{}
				for _, e := range sh.entries {
					h[spell(canon, e[0])] = [][]string{good, {"broken"}, foreign}[e[1]]
				}
				switch di {
				case 0:
					w.TcbHdr = h
				case 1:
					w.QeHdr = h
				case 2:
					w.PckHdr = h
				}
				w.BuildGetter()
				var first string
				shared := w.Options(level)
				same := true
				for rep := 0; rep < 32 && same; rep++ {
					for _, o := range []*verify.Options{w.Options(level), shared} {
						o.Getter = w.Getter.Clone()
						err := world.SafeVerifyRaw(w.Raw(), o)
						v := verdict(err)
						if world.IsPanic(err) {
							continue // C10
						}
						if first == "" {
							first = v
						} else if v != first {
							same = false
							r.Violate("header-spellings:verdict-varies:"+doc, id, fmt.Sprintf("the same quote, options and responses are judged %q and then %q (repetition %d): %s", first, v, rep, errStr(err)), nil)
							break
						}
					}
				}
				r.Eval(id, true, fmt.Sprintf("header-spellings:%s:same=%v", first, same))
			}
		}
	}
	r.SectionDone(mc.Section{Name: "header-spellings", Evaluations: int64(n) * 64, Exhaustive: true,
		Note: "exhaustive over the listed header-map shapes; the iteration order of a Go map is outside the explorer's control, each shape is repeated 32 times with fresh and with shared options"})
}

type c12op struct {
	name string
	kind int // 0 verify (lvl 3 = revocation without collateral), 1 Now=nil, 2 Now=explicit(T0+q days), 3 advance clock, 4-6 TrustedRoots, 7/8 collateral service environment
	q    int
	lvl  int
}

func c12Histories(r *mc.Run) {
	T := world.CachedPKI("T")
	// a world whose collateral expires after 20/21 days and whose leaf expires after 60 days
	mk := func(fmspc []byte) (*world.World, *pb.QuoteV4) {
		w := world.Honest("T")
		w.Plat.FMSPC = fmspc
		leaf := world.MakeCert(world.CertSpec{CN: world.CNLeaf, Key: T.LeafKey, SGXExt: world.SGXExtension(w.Plat), NotAfter: world.T0.AddDate(0, 0, 60)}, T.Inter, T.InterKey)
		pk := *T
		pk.Leaf = leaf
		w.PKI = &pk
		w.Spec.PKI = w.PKI
		w.Parts = w.Spec.Parts()
		w.TcbInfo = world.DefaultTcbInfo(w.Plat, w.Parts.Body[0:16])
		w.Finish()
		q, err := safeToProto(w.Raw())
		if err != nil {
			panic("harness: honest quote does not parse: " + err.Error())
		}
		return w, q
	}
	wa, qa := mk([]byte{0x50, 0x80, 0x6f, 0, 0, 0})
	wb, qb := mk([]byte{0xaa, 0xbb, 0xcc, 0, 0, 1})
	wf := world.Honest("F")
	qf, _ := safeToProto(wf.Raw())
	getter := wa.Getter.Clone()
	for k, v := range wb.Getter.Responses {
		if strings.Contains(k, "fmspc=") {
			getter.Responses[k] = v
		}
	}
	// quote A with another issue of the root in its chain (same key and name, another CRL distribution point):
	// what an earlier quote carried must not decide where a later call fetches from
	var qd *pb.QuoteV4
	{
		otherDP := world.MakeCert(world.CertSpec{CN: world.CNRoot, IsCA: true, Key: T.RootKey, MaxPathLen: 1, CRLDP: []string{"https://crl.other-issue.example/root.crl"}}, nil, T.RootKey)
		p := wa.Parts.Clone()
		p.Chain = world.PEM(wa.PKI.Leaf, wa.PKI.Inter, otherDP)
		raw, _ := p.Bytes()
		var err error
		if qd, err = safeToProto(raw); err != nil {
			panic("harness: quote with re-issued root does not parse: " + err.Error())
		}
	}
	quotes := []struct {
		name string
		q    *pb.QuoteV4
	}{{"A", qa}, {"A'", qb}, {"foreign", qf}, {"empty-message", &pb.QuoteV4{}}, {"A-root-issue-with-other-crl-dp", qd}}
	var ops []c12op
	lvlNames := []string{"L0", "L1", "L2", "revocation-without-collateral"}
	for qi := range quotes {
		for l := 0; l < 4; l++ {
			if l == 3 && qi != 0 && !r.Thorough() {
				continue
			}
			ops = append(ops, c12op{fmt.Sprintf("verify(%s,%s)", quotes[qi].name, lvlNames[l]), 0, qi, l})
		}
	}
	ops = append(ops, c12op{"Now=nil", 1, 0, 0}, c12op{"Now=explicit(T0)", 2, 0, 0}, c12op{"clock+25d", 3, 0, 0},
		c12op{"TrustedRoots={look-alike}", 4, 0, 0}, c12op{"TrustedRoots={T}", 5, 0, 0}, c12op{"TrustedRoots=nil", 6, 0, 0},
		c12op{"Now=explicit(T0+70d)", 2, 70, 0}, c12op{"env:pck-crl-lists-A's-leaf", 7, 1, 0}, c12op{"env:crls-clean", 7, 0, 0},
		// a time set of which the caller fills in the certificate-chain member only, and the caller moving the
		// time set it owns forward in place (no new value assigned to Options.Now)
		c12op{"Now={PckCertChain:T0}", 9, 0, 0}, c12op{"Now+=30d-in-place", 10, 30, 0},
		// the reporting function as a call of its own, with the switches the caller last set or sets for it
		c12op{"report(A,L2)", 11, 0, 2}, c12op{"report(A,L1)", 11, 0, 1})
	if r.Thorough() {
		ops = append(ops, c12op{"Now=explicit(T0+22d)", 2, 22, 0}, c12op{"env:A's-tcb-level-Revoked", 8, 1, 0}, c12op{"env:A's-tcb-level-UpToDate", 8, 0, 0})
	}
	// environments: what the collateral service answers
	wrev := *wa
	wrev.PckCrl = world.MakeCRL(world.CRLSpec{Issuer: T.Inter, Signer: T.InterKey, Revoked: []*big.Int{wa.PKI.Leaf.SerialNumber}})
	wrev.BuildGetter()
	wtcb := *wa
	wtcb.TcbInfo.TcbLevels = append([]world.Level(nil), wa.TcbInfo.TcbLevels...)
	wtcb.TcbInfo.TcbLevels[0].TcbStatus = "Revoked"
	wtcb.PckCrl, wtcb.RootCrl = wa.PckCrl, wa.RootCrl
	wtcb.Finish()
	envGetter := func(crlRevoked, tcbRevoked int) *world.Getter {
		g := getter.Clone()
		if crlRevoked == 1 {
			g.Responses[world.URLPckCrl("platform")] = wrev.Getter.Responses[world.URLPckCrl("platform")]
		}
		if tcbRevoked == 1 {
			u := world.URLTcbInfo(hexs(wa.Plat.FMSPC))
			g.Responses[u] = wtcb.Getter.Responses[u]
		}
		return g
	}
	roots := wa.Roots
	foreignRoots := world.Pool(world.CachedPKI("F").Root)
	depth := 3
	if r.Thorough() {
		depth = 4
	}
	nowPartial := false
	fresh := func(lvl int, nowNil bool, at time.Time, g *world.Getter) *verify.Options {
		o := &verify.Options{GetCollateral: lvl == 1 || lvl == 2, CheckRevocations: lvl >= 2, Getter: g.Clone(), TrustedRoots: roots}
		if !nowNil {
			ts := world.TimeSetAt(at)
			if nowPartial {
				ts = verify.TimeSet{PckCertChain: at}
			}
			o.Now = &ts
		}
		return o
	}
	r.SerialOnly = true
	for initKind := 0; initKind < 4; initKind++ {
		initNil := initKind == 1
		initPartial := initKind == 2
		initDefault := initKind == 3 // the options value comes from verify.DefaultOptions() (its time set is taken when it is made)
		initName := []string{"Now=explicit", "Now=nil", "Now={PckCertChain-only}", "verify.DefaultOptions()"}[initKind]
		r.BFS("shared-options-histories/init:"+initName, depth, len(ops), func(hist []int) (string, bool) {
			vsched.Reset()
			nowPartial = initPartial
			shared := fresh(0, initNil, world.T0, getter)
			if initDefault {
				shared = verify.DefaultOptions()
				shared.Getter, shared.TrustedRoots = getter.Clone(), roots
			}
			nowNil := initNil
			nowAt := world.T0
			curRoots := roots
			envCrl, envTcb, rootsID := 0, 0, 5
			curGetter := getter
			curLvl := 0 // the switches as the caller last set them (a caller assigns them when they change, not before every call)
			setLvl := func(l int) {
				if l != curLvl {
					shared.GetCollateral, shared.CheckRevocations = l == 1 || l == 2, l >= 2
					curLvl = l
				}
			}
			switchesIntact := func() bool {
				return shared.GetCollateral == (curLvl == 1 || curLvl == 2) && shared.CheckRevocations == (curLvl >= 2) && shared.TrustedRoots == curRoots
			}
			for step, oi := range hist {
				op := ops[oi]
				last := step == len(hist)-1
				switch op.kind {
				case 1:
					shared.Now = nil
					nowNil = true
				case 2:
					nowAt = world.T0.AddDate(0, 0, op.q)
					ts := world.TimeSetAt(nowAt)
					shared.Now = &ts
					nowNil, nowPartial = false, false
				case 9:
					nowAt = world.T0
					shared.Now = &verify.TimeSet{PckCertChain: nowAt}
					nowNil, nowPartial = false, true
				case 10:
					if !nowNil {
						nowAt = nowAt.AddDate(0, 0, op.q)
						if nowPartial {
							shared.Now.PckCertChain = nowAt
						} else {
							*shared.Now = world.TimeSetAt(nowAt)
						}
					}
				case 3:
					vsched.Advance(25 * 24 * time.Hour)
				case 4:
					rootsID = 4
					curRoots = foreignRoots
					shared.TrustedRoots = curRoots
				case 5:
					rootsID = 5
					curRoots = roots
					shared.TrustedRoots = curRoots
				case 6:
					rootsID = 6
					curRoots = nil
					shared.TrustedRoots = nil
				case 7:
					envCrl = op.q
					curGetter = envGetter(envCrl, envTcb)
				case 8:
					envTcb = op.q
					curGetter = envGetter(envCrl, envTcb)
				case 11:
					setLvl(op.lvl)
					shared.Getter = curGetter.Clone()
					var rerr error
					func() {
						defer world.Recover(&rerr)
						_, _, rerr = verify.SupportedTcbLevelsFromCollateral(quotes[op.q].q, shared)
					}()
					if last {
						id := "hist/init:" + initName + "/" + c12HistName(ops, hist)
						if r.Want(id) {
							out := verdict(rerr)
							if world.IsPanic(rerr) {
								r.Violate("history:panic:"+crashSite(rerr), id, "SupportedTcbLevelsFromCollateral through a re-used options value crashes: "+errStr(rerr), map[string]any{"history": c12HistNames(ops, hist)})
							} else if !switchesIntact() {
								r.Violate("history:call-changed-the-switches:report", id, fmt.Sprintf("SupportedTcbLevelsFromCollateral left the caller's options with GetCollateral=%v CheckRevocations=%v (the caller set level %s)", shared.GetCollateral, shared.CheckRevocations, lvlNames[curLvl]), map[string]any{"history": c12HistNames(ops, hist)})
								out += "!switches"
							}
							r.Eval(id, true, "report:"+out)
						}
					}
					continue
				case 0:
					setLvl(op.lvl)
					shared.Getter = curGetter.Clone()
					q := quotes[op.q].q
					err := world.SafeVerify(q, shared)
					if !last {
						continue
					}
					id := "hist/init:" + initName + "/" + c12HistName(ops, hist)
					if !r.Want(id) {
						continue
					}
					if !switchesIntact() && !world.IsPanic(err) {
						r.Violate("history:call-changed-the-switches:verify", id, fmt.Sprintf("verification left the caller's options with GetCollateral=%v CheckRevocations=%v (the caller set level %s) or another pool", shared.GetCollateral, shared.CheckRevocations, lvlNames[curLvl]), map[string]any{"history": c12HistNames(ops, hist)})
					}
					fo0 := fresh(op.lvl, nowNil, nowAt, curGetter)
					fo0.TrustedRoots = curRoots
					ferr := world.SafeVerify(q, fo0)
					out := verdict(err)
					if world.IsPanic(err) {
						r.Violate("history:panic:"+crashSite(err), id, "verification through a re-used options value crashes: "+errStr(err), map[string]any{"history": c12HistNames(ops, hist)})
					} else if op.lvl == 3 && err == nil {
						r.Violate("history:revocation-without-collateral-accepted", id, "through a re-used options value CheckRevocations without GetCollateral is accepted", map[string]any{"history": c12HistNames(ops, hist)})
						out += "!accept"
					} else if (err == nil) != (ferr == nil) {
						r.Violate(fmt.Sprintf("history:verdict-depends-on-earlier-calls:now-nil=%v", nowNil), id,
							fmt.Sprintf("re-used options give %q, a fresh options value at the same time gives %q", errStr(err), errStr(ferr)), map[string]any{"history": c12HistNames(ops, hist), "virtual_time": vsched.Elapsed().String()})
						out += "!=fresh:" + verdict(ferr)
					}
					// the reporting API must talk about the quote just verified
					if err == nil && (op.lvl == 1 || op.lvl == 2) {
						var tl, fl any
						var e1, e2 error
						func() { defer world.Recover(&e1); tl, _, e1 = verify.SupportedTcbLevelsFromCollateral(q, shared) }()
						fo := fresh(op.lvl, nowNil, nowAt, curGetter)
						fo.TrustedRoots = curRoots
						world.SafeVerify(q, fo)
						func() { defer world.Recover(&e2); fl, _, e2 = verify.SupportedTcbLevelsFromCollateral(q, fo) }()
						if (e1 == nil) != (e2 == nil) || !reflect.DeepEqual(tl, fl) {
							r.Violate("history:report-differs-from-fresh", id, fmt.Sprintf("SupportedTcbLevelsFromCollateral after a re-used options verify differs from a fresh one (%v vs %v)", e1, e2), map[string]any{"history": c12HistNames(ops, hist)})
							out += "/report-differs"
						}
					}
					r.Eval(id, true, fmt.Sprintf("%s:%s", op.name[:6], out))
				}
				if last && op.kind != 0 {
					r.Eval("hist/init:"+initName+"/"+c12HistName(ops, hist), true, "env-op")
				}
			}
			return fmt.Sprintf("%s|t=%s|env=%d,%d|roots=%d|partial=%v|lvl=%d", c12StateKey(shared), vsched.Elapsed(), envCrl, envTcb, rootsID, nowPartial, curLvl), true
		})
	}
	_ = ref.MustAccept
}

func c12HistName(ops []c12op, hist []int) string { return strings.Join(c12HistNames(ops, hist), ";") }
func c12HistNames(ops []c12op, hist []int) []string {
	var out []string
	for _, h := range hist {
		out = append(out, ops[h].name)
	}
	return out
}

// c12StateKey hashes every field of the options value (exported or not) by content:
// certificates by DER, pools and getters by presence, everything else structurally.
func c12StateKey(o *verify.Options) string {
	h := fnv.New64a()
	seen := map[uintptr]bool{}
	var walk func(v reflect.Value, depth int)
	walk = func(v reflect.Value, depth int) {
		if depth > 12 {
			return
		}
		switch v.Kind() {
		case reflect.Ptr:
			if v.IsNil() {
				h.Write([]byte("nil;"))
				return
			}
			if v.Type() == reflect.TypeOf((*x509.Certificate)(nil)) {
				raw := v.Elem().FieldByName("Raw")
				h.Write(raw.Bytes())
				return
			}
			if v.Type() == reflect.TypeOf((*x509.CertPool)(nil)) {
				h.Write([]byte("pool;"))
				return
			}
			if v.Type() == reflect.TypeOf((*x509.RevocationList)(nil)) {
				h.Write(v.Elem().FieldByName("Raw").Bytes())
				return
			}
			if seen[v.Pointer()] {
				return
			}
			seen[v.Pointer()] = true
			walk(v.Elem(), depth+1)
		case reflect.Interface:
			if v.IsNil() {
				h.Write([]byte("nil-iface;"))
				return
			}
			h.Write([]byte(v.Elem().Type().String()))
		case reflect.Struct:
			if v.Type() == reflect.TypeOf(time.Time{}) {
				fmt.Fprintf(h, "t%d/%d;", v.Field(0).Uint(), v.Field(1).Int())
				return
			}
			for i := 0; i < v.NumField(); i++ {
				h.Write([]byte(v.Type().Field(i).Name))
				walk(v.Field(i), depth+1)
			}
		case reflect.Slice, reflect.Array:
			fmt.Fprintf(h, "[%d", v.Len())
			if v.Kind() == reflect.Slice && v.Type().Elem().Kind() == reflect.Uint8 {
				h.Write(v.Bytes())
				return
			}
			for i := 0; i < v.Len() && i < 64; i++ {
				walk(v.Index(i), depth+1)
			}
		case reflect.Map:
			keys := v.MapKeys()
			ks := make([]string, len(keys))
			for i, k := range keys {
				ks[i] = fmt.Sprint(k)
			}
			sort.Strings(ks)
			fmt.Fprintf(h, "m%v;", ks)
		case reflect.String:
			h.Write([]byte(v.String()))
		case reflect.Bool:
			fmt.Fprintf(h, "%v;", v.Bool())
		case reflect.Int, reflect.Int8, reflect.Int16, reflect.Int32, reflect.Int64:
			fmt.Fprintf(h, "%d;", v.Int())
		case reflect.Uint, reflect.Uint8, reflect.Uint16, reflect.Uint32, reflect.Uint64, reflect.Uintptr:
			fmt.Fprintf(h, "%d;", v.Uint())
		case reflect.Float32, reflect.Float64:
			fmt.Fprintf(h, "%g;", v.Float())
		}
	}
	walk(reflect.ValueOf(o).Elem(), 0)
	return fmt.Sprintf("%016x", h.Sum64())
}

// c12EvalWorld verifies one world under all four option combinations and applies the oracles of part (a).
func c12EvalWorld(r *mc.Run, w c12World) {
	type combo struct{ gc, cr bool }
	combos := []combo{{false, false}, {true, false}, {true, true}, {false, true}}
	var acc [4]bool
	var logs [4][]string
	for ci, c := range combos {
		id := fmt.Sprintf("options/%s/gc=%v,cr=%v", w.name, c.gc, c.cr)
		g := w.getter.Clone()
		now := w.now
		err := world.SafeVerifyRaw(w.raw, &verify.Options{GetCollateral: c.gc, CheckRevocations: c.cr, Getter: g, Now: &now, TrustedRoots: w.roots})
		acc[ci] = err == nil
		logs[ci] = g.Log
		if !r.Want(id) {
			continue
		}
		out := verdict(err)
		detail := map[string]any{"urls": g.Log, "error": errStr(err)}
		if !c.gc && len(g.Log) != 0 {
			r.Violate("fetch-without-collateral", id, fmt.Sprintf("GetCollateral is off but %d fetches were made", len(g.Log)), detail)
			out = "fetched!"
		}
		if c.cr && !c.gc && err == nil {
			r.Violate("revocation-without-collateral-accepted", id, "CheckRevocations without GetCollateral was accepted", detail)
			out = "accept!"
		}
		for _, u := range g.Log {
			isCrl := strings.Contains(u, "pckcrl") || u == world.RootCRLURL || strings.HasSuffix(u, ".der") || strings.HasSuffix(u, ".crl")
			switch {
			case isCrl && !c.cr:
				r.Violate("crl-fetched-without-revocation-checking", id, "a CRL endpoint was contacted although CheckRevocations is off: "+u, detail)
				out = "crl-fetch!"
			case strings.Contains(u, "/tcb?fmspc="):
				if x := u[strings.Index(u, "fmspc=")+6:]; !strings.EqualFold(x, w.fmspc) {
					r.Violate("tcbinfo-request-wrong-fmspc", id, "TCB Info requested for FMSPC "+x+", the quote's PCK certificate says "+w.fmspc, detail)
					out = "wrong-fmspc"
				}
			case strings.Contains(u, "pckcrl?ca="):
				y := u[strings.Index(u, "ca=")+3:]
				if k := strings.Index(y, "&"); k >= 0 {
					y = y[:k]
				}
				if y != w.ca {
					r.Violate("pckcrl-request-wrong-ca", id, "PCK CRL requested for CA "+y+", the PCK certificate was issued by the "+w.ca+" CA", detail)
					out = "wrong-ca"
				}
			}
		}
		r.Eval(id, true, fmt.Sprintf("gc=%v,cr=%v:%s", c.gc, c.cr, out))
	}
	id := "monotone/" + w.name
	if r.Want(id) {
		out := "monotone"
		if acc[2] && !acc[1] {
			r.Violate("more-checking-accepts-more:L2>L1", id, "accepted with collateral+revocation checking but rejected with collateral checking alone", nil)
			out = "L2>L1"
		}
		if acc[1] && !acc[0] {
			r.Violate("more-checking-accepts-more:L1>L0", id, "accepted with collateral checking but rejected with signature and chain checking alone", nil)
			out = "L1>L0"
		}
		if (strings.HasPrefix(w.name, "honest/fmspc") || strings.HasPrefix(w.name, "honest/sgx-elements") || strings.HasPrefix(w.name, "honest/qe-bits") || w.name == "composed/default" || (strings.HasPrefix(w.name, "composed/fmspc=") && !strings.Contains(w.name, ","))) && !(acc[0] && acc[1] && acc[2]) {
			r.Violate("honest-world-rejected", id, fmt.Sprintf("an honest world is not accepted at every level: %v", acc[:3]), nil)
			out = "honest-rejected"
		}
		r.Eval(id, true, fmt.Sprintf("%s:%v", out, acc))
	}
}

// c12Composed walks, with Engine A, all worlds with at most two faults drawn from independent menus
// (quote, TCB Info, QE Identity, PCK CRL, Root CA CRL, verification times) over three FMSPC values, and
// evaluates part (a)'s oracles on each.
func c12Composed(r *mc.Run) {
	T, F := world.CachedPKI("T"), world.CachedPKI("F")
	fmspcs := [][]byte{{0x50, 0x80, 0x6f, 0, 0, 0}, {0xde, 0xad, 0xbe, 0xef, 0x00, 0x01}, {0, 0, 0, 0, 0, 9}}
	leaves := make([]*world.PKI, len(fmspcs))
	for i, f := range fmspcs {
		p := world.DefaultPlatform()
		p.FMSPC = f
		leaves[i] = T.WithLeaf(p)
	}
	quoteFaults := []string{"body-altered", "qe-foreign-signer", "hash-binding", "attkey-zero", "look-alike-intermediate", "look-alike-root", "foreign-pool", "body-sig-zero"}
	tcbFaults := []string{"revoked", "outofdate", "fmspc-mismatch", "expired", "foreign-signer", "endpoint-down", "empty-object", "wrong-id", "no-levels", "header-missing"}
	qeFaults := []string{"revoked", "mrsigner-mismatch", "expired", "foreign-signer", "endpoint-down", "wrong-version", "header-two-values"}
	pckFaults := []string{"leaf-revoked", "endpoint-down", "signed-by-root", "expired", "garbage", "foreign-crl"}
	rootFaults := []string{"intermediate-revoked", "tcb-signer-revoked", "endpoint-down", "signed-by-intermediate", "expired", "garbage"}
	timeFaults := []string{"all-late", "pckchain-late", "tcbinfo-late", "qeidentity-late", "pckcrl-late", "rootcrl-late", "all-early"}
	r.Explore("option-combinations/composed", 2, func(c *mc.Ctx) {
		fi := c.Free("fmspc", len(fmspcs))
		qf := c.Choose("quote", len(quoteFaults)+1)
		tf := c.Choose("tcbinfo", len(tcbFaults)+1)
		qef := c.Choose("qeidentity", len(qeFaults)+1)
		pf := c.Choose("pckcrl", len(pckFaults)+1)
		rf := c.Choose("rootcrl", len(rootFaults)+1)
		tm := c.Choose("times", len(timeFaults)+1)
		name := "composed/" + c.ID()
		w := world.Honest("T")
		w.Plat.FMSPC = fmspcs[fi]
		w.PKI = leaves[fi]
		w.Spec.PKI = w.PKI
		w.Parts = w.Spec.Parts()
		w.TcbInfo = world.DefaultTcbInfo(w.Plat, w.Parts.Body[0:16])
		tcbSigner, qeSigner := T.TcbKey, T.TcbKey
		if tf > 0 {
			switch tcbFaults[tf-1] {
			case "revoked":
				w.TcbInfo.TcbLevels[0].TcbStatus = "Revoked"
			case "outofdate":
				w.TcbInfo.TcbLevels[0].TcbStatus = "OutOfDate"
			case "fmspc-mismatch":
				w.TcbInfo.Fmspc = "010203040506"
			case "expired":
				w.TcbInfo.NextUpdate = world.TimeStr(world.T0.AddDate(0, 0, -1))
			case "foreign-signer":
				tcbSigner = F.TcbKey
			case "wrong-id":
				w.TcbInfo.ID = "SGX"
			case "no-levels":
				w.TcbInfo.TcbLevels = []world.Level{}
			}
		}
		if qef > 0 {
			switch qeFaults[qef-1] {
			case "revoked":
				w.QeID.TcbLevels[0].TcbStatus = "Revoked"
			case "mrsigner-mismatch":
				w.QeID.Mrsigner = strings.Repeat("cd", 32)
			case "expired":
				w.QeID.NextUpdate = world.TimeStr(world.T0.AddDate(0, 0, -1))
			case "foreign-signer":
				qeSigner = F.TcbKey
			case "wrong-version":
				w.QeID.Version = 3
			}
		}
		pckSpec := world.CRLSpec{Issuer: T.Inter, Signer: T.InterKey}
		rootSpec := world.CRLSpec{Issuer: T.Root, Signer: T.RootKey}
		if pf > 0 {
			switch pckFaults[pf-1] {
			case "leaf-revoked":
				pckSpec.Revoked = []*big.Int{w.PKI.Leaf.SerialNumber}
			case "signed-by-root":
				pckSpec = world.CRLSpec{Issuer: T.Root, Signer: T.RootKey}
			case "expired":
				pckSpec.NextUpdate = world.T0.AddDate(0, 0, -1)
			case "foreign-crl":
				pckSpec = world.CRLSpec{Issuer: F.Inter, Signer: F.InterKey}
			}
		}
		if rf > 0 {
			switch rootFaults[rf-1] {
			case "intermediate-revoked":
				rootSpec.Revoked = []*big.Int{T.Inter.SerialNumber}
			case "tcb-signer-revoked":
				rootSpec.Revoked = []*big.Int{T.Tcb.SerialNumber}
			case "signed-by-intermediate":
				rootSpec = world.CRLSpec{Issuer: T.Inter, Signer: T.InterKey}
			case "expired":
				rootSpec.NextUpdate = world.T0.AddDate(0, 0, -1)
			}
		}
		w.PckCrl, w.RootCrl = world.MakeCRL(pckSpec), world.MakeCRL(rootSpec)
		w.Finish()
		w.TcbBody = world.SignedBody("tcbInfo", w.TcbRaw, tcbSigner)
		w.QeBody = world.SignedBody("enclaveIdentity", w.QeRaw, qeSigner)
		w.BuildGetter()
		tcbURL := world.URLTcbInfo(hexs(w.Plat.FMSPC))
		down := world.Response{Err: errors.New("503")}
		if tf > 0 {
			switch tcbFaults[tf-1] {
			case "endpoint-down":
				w.Getter.Responses[tcbURL] = down
			case "empty-object":
				w.Getter.Responses[tcbURL] = world.Response{Header: w.TcbHdr, Body: []byte("{}")}
			case "header-missing":
				w.Getter.Responses[tcbURL] = world.Response{Body: w.TcbBody}
			}
		}
		if qef > 0 {
			switch qeFaults[qef-1] {
			case "endpoint-down":
				w.Getter.Responses[world.URLQeIdentity] = down
			case "header-two-values":
				h := w.QeHdr[world.HdrQeIdentity][0]
				w.Getter.Responses[world.URLQeIdentity] = world.Response{Header: map[string][]string{world.HdrQeIdentity: {h, h}}, Body: w.QeBody}
			}
		}
		if pf > 0 {
			switch pckFaults[pf-1] {
			case "endpoint-down":
				w.Getter.Responses[world.URLPckCrl("platform")] = down
			case "garbage":
				w.Getter.Responses[world.URLPckCrl("platform")] = world.Response{Header: w.PckHdr, Body: []byte("garbage")}
			}
		}
		if rf > 0 {
			switch rootFaults[rf-1] {
			case "endpoint-down":
				w.Getter.Responses[world.RootCRLURL] = down
			case "garbage":
				w.Getter.Responses[world.RootCRLURL] = world.Response{Body: []byte("garbage")}
			}
		}
		p := w.Parts.Clone()
		roots := w.Roots
		if qf > 0 {
			switch quoteFaults[qf-1] {
			case "body-altered":
				p.Body[200] ^= 1
			case "qe-foreign-signer":
				p.SignQE(world.NewKey("foreign"))
			case "hash-binding":
				p.QEReport[330] ^= 1
				p.SignQE(w.PKI.LeafKey)
			case "attkey-zero":
				p.AttKey = make([]byte, 64)
			case "look-alike-intermediate":
				p.Chain = world.PEM(w.PKI.Leaf, F.Inter, T.Root)
			case "look-alike-root":
				p.Chain = world.PEM(w.PKI.Leaf, T.Inter, F.Root)
			case "foreign-pool":
				roots = world.Pool(F.Root)
			case "body-sig-zero":
				p.Sig = make([]byte, 64)
			}
		}
		raw, _ := p.Bytes()
		now := w.Now
		if tm > 0 {
			late, early := world.T0.AddDate(30, 0, 0), world.T0.AddDate(-30, 0, 0)
			switch timeFaults[tm-1] {
			case "all-late":
				now = world.TimeSetAt(late)
			case "all-early":
				now = world.TimeSetAt(early)
			case "pckchain-late":
				now.PckCertChain = late
			case "tcbinfo-late":
				now.TcbInfo = late
			case "qeidentity-late":
				now.QeIdentity = late
			case "pckcrl-late":
				now.PckCrl = late
			case "rootcrl-late":
				now.RootCaCrl = late
			}
		}
		c12EvalWorld(r, c12World{name, raw, w.Getter, roots, now, hexs(w.Plat.FMSPC), "platform"})
	})
}
