package checks

import (
	"bytes"
	"crypto/x509"
	"crypto/x509/pkix"
	"encoding/asn1"
	"encoding/hex"
	"encoding/json"
	"errors"
	"fmt"
	"strings"
	"time"

	ccpb "github.com/google/go-tdx-guest/proto/checkconfig"
	"github.com/google/go-tdx-guest/verify"

	"verifharness/mc"
	"verifharness/ref"
	"verifharness/world"
)

func init() {
	mc.Register(&mc.Check{ID: "C03", Category: "fault_enumeration",
		Rule:   "cases: (a) every single-bit mutant of the genuine signed TCB-Info and QE-Identity response bodies (and, thorough, of the URL-escaped issuer-chain headers); (b) Engine A over a per-document menu (who signs, which issuer chain, what the signature covers, re-encoding without re-signing, id/version/levels, member and signature presence/type, header presence/shape) within the deviation bound, symmetrically for both documents; (c) every unsigned shadow member: key in {member, signature} x spelling {exact duplicate, upper, title, lower, Unicode fold} x position {before, after} x content {perfect, bad, partial objects} x genuine document {good, Revoked, expired, other FMSPC}. Non-trivial: differs from the honest response; distinct by id",
		Assume: append([]string{"the reference verdict V is computed from the signed member bytes alone with the C04/C07 reference algorithm"}, cryptoAssume...),
		Run:    runC03})
}

// c03doc is one collateral document of a world.
type c03doc struct {
	member, hdrKey, url string
	raw                 []byte
}

func c03Docs(w *world.World) []c03doc {
	return []c03doc{
		{"tcbInfo", world.HdrTcbInfo, world.URLTcbInfo(hexs(w.Plat.FMSPC)), w.TcbRaw},
		{"enclaveIdentity", world.HdrQeIdentity, world.URLQeIdentity, w.QeRaw},
	}
}

// c03Facts are the quote-side inputs of the reference verdict.
func c03Facts(w *world.World) (ref.Platform, ref.QE) {
	p, _ := ref.ParseQuote(w.Raw())
	return ref.PlatformOf(p, w.Plat.CPUSVN[:], int(w.Plat.PCESVN), w.Plat.FMSPC, w.Plat.PCEID), ref.QEOf(p)
}

// c03Judge: accept => both responses authentic and V(signed members) accepts.
func c03Judge(r *mc.Run, id, sig string, w *world.World, g *world.Getter, err error, pool []*x509.Certificate) string {
	if world.IsPanic(err) || err != nil {
		return verdict(err)
	}
	var members [2][]byte
	for i, d := range c03Docs(w) {
		resp := g.Responses[d.url]
		a := ref.DocAuthentic(resp.Body, resp.Header[d.hdrKey], d.member, pool)
		if !a.Authentic {
			r.Violate(sig+":accepted-unauthentic-"+d.member, id, "quote accepted although the "+d.member+" response is not authentic: "+a.Why,
				map[string]any{"body": string(resp.Body), "header": resp.Header})
			return "accept!"
		}
		members[i] = a.Member
	}
	p, q := c03Facts(w)
	if ok, why := ref.CollateralVerdict(members[0], members[1], p, q, w.Now.TcbInfo, w.Now.QeIdentity); !ok {
		r.Violate(sig+":accepted-against-signed-values", id, "quote accepted although the signed members dictate rejection ("+why+"): unsigned or altered content drove the verdict",
			map[string]any{"tcbInfo_body": string(g.Responses[c03Docs(w)[0].url].Body), "qeIdentity_body": string(g.Responses[c03Docs(w)[1].url].Body)})
		return "accept!"
	}
	return "accept"
}

func runC03(r *mc.Run) {
	w := world.Honest("T")
	F := world.CachedPKI("F")
	Fc := world.ClonePKI(w.PKI, "Fclone", w.Plat) // look-alike that also reuses the genuine serial numbers
	pool := []*x509.Certificate{w.PKI.Root}
	if err := w.Verify(world.L1); err != nil {
		r.Set("baseline_accepted", false)
	}
	docs := c03Docs(w)

	verifyWith := func(ww *world.World, g *world.Getter, level int) error {
		o := ww.Options(level)
		o.Getter = g
		return world.SafeVerifyRaw(ww.Raw(), o)
	}

	// (a) single-bit mutants of bodies (and headers when thorough)
	for di, d := range docs {
		good := w.Getter.Responses[d.url]
		n := len(good.Body) * 8
		done := r.Parallel(n, func(i int) {
			id := fmt.Sprintf("bit/body/%s/%d.%d", d.member, i/8, i%8)
			if !r.Want(id) {
				return
			}
			g := w.Getter.Clone()
			m := append([]byte(nil), good.Body...)
			m[i/8] ^= 1 << uint(i%8)
			g.Responses[d.url] = world.Response{Header: good.Header, Body: m}
			err := verifyWith(w, g, world.L1)
			r.Eval(id, true, "bit-body:"+c03Judge(r, id, "bit-body", w, g, err, pool))
		})
		r.SectionDone(mc.Section{Name: "bitflips/body/" + d.member, Evaluations: int64(done), Exhaustive: done == n})
		hv := good.Header[d.hdrKey][0]
		hn := len(hv) * 8
		if !r.Thorough() {
			hn = 0
		}
		done = r.Parallel(hn, func(i int) {
			id := fmt.Sprintf("bit/header/%s/%d.%d", d.member, i/8, i%8)
			if !r.Want(id) {
				return
			}
			g := w.Getter.Clone()
			m := []byte(hv)
			m[i/8] ^= 1 << uint(i%8)
			g.Responses[d.url] = world.Response{Header: map[string][]string{d.hdrKey: {string(m)}}, Body: good.Body}
			err := verifyWith(w, g, world.L1)
			r.Eval(id, true, "bit-header:"+c03Judge(r, id, "bit-header", w, g, err, pool))
		})
		if hn > 0 {
			r.SectionDone(mc.Section{Name: "bitflips/header/" + d.member, Evaluations: int64(done), Exhaustive: done == hn})
		}
		_ = di
	}

	// (b) Engine A menu
	tcbByInter := world.MakeCert(world.CertSpec{CN: world.CNTcb, Key: world.NewKey("T/tcb-by-inter")}, w.PKI.Inter, w.PKI.InterKey)
	twoCN := func() *x509.Certificate {
		n := world.IntelName("")
		n.ExtraNames = []pkix.AttributeTypeAndValue{{Type: asn1.ObjectIdentifier{2, 5, 4, 3}, Value: world.CNTcb}, {Type: asn1.ObjectIdentifier{2, 5, 4, 3}, Value: "Intel SGX Attestation Report Signing"}}
		return world.MakeCert(world.CertSpec{CN: "two-cn", Name: &n, Key: world.NewKey("T/other-role-signer")}, w.PKI.Root, w.PKI.RootKey)
	}
	fRoot := func(nbDays, naDays int) *x509.Certificate {
		return world.MakeCert(world.CertSpec{CN: world.CNRoot, IsCA: true, Key: F.RootKey, MaxPathLen: 1, NotBefore: world.T0.AddDate(0, 0, nbDays), NotAfter: world.T0.AddDate(0, 0, naDays)}, nil, F.RootKey)
	}
	fTcbUnder := func(root *x509.Certificate, nbDays, naDays int) *x509.Certificate {
		return world.MakeCert(world.CertSpec{CN: world.CNTcb, Key: F.TcbKey, NotBefore: world.T0.AddDate(0, 0, nbDays), NotAfter: world.T0.AddDate(0, 0, naDays)}, root, F.RootKey)
	}
	fTcb := func(nbDays, naDays int) *x509.Certificate { return fTcbUnder(F.Root, nbDays, naDays) }
	otherRoleKey := world.NewKey("T/other-role-signer")
	nameVariant := func(cn string) *x509.Certificate {
		return world.MakeCert(world.CertSpec{CN: cn, Key: otherRoleKey}, w.PKI.Root, w.PKI.RootKey)
	}
	signers := []struct {
		name string
		key  *world.Key
	}{{"tcb", w.PKI.TcbKey}, {"clone.tcb", Fc.TcbKey}, {"F.tcb", F.TcbKey}, {"inter", w.PKI.InterKey}, {"leaf", w.PKI.LeafKey}, {"root", w.PKI.RootKey}, {"tcb-by-inter", world.NewKey("T/tcb-by-inter")}, {"other-role-key", otherRoleKey}}
	chains := []struct {
		name  string
		certs []*x509.Certificate
	}{
		{"[tcb,root]", []*x509.Certificate{w.PKI.Tcb, w.PKI.Root}},
		{"F[tcb,root]", []*x509.Certificate{F.Tcb, F.Root}},
		{"[inter,root]", []*x509.Certificate{w.PKI.Inter, w.PKI.Root}},
		{"[leaf,inter]", []*x509.Certificate{w.PKI.Leaf, w.PKI.Inter}},
		{"[root,root]", []*x509.Certificate{w.PKI.Root, w.PKI.Root}},
		{"[tcb]", []*x509.Certificate{w.PKI.Tcb}},
		{"[root]", []*x509.Certificate{w.PKI.Root}},
		{"[tcb,inter,root]", []*x509.Certificate{w.PKI.Tcb, w.PKI.Inter, w.PKI.Root}},
		{"[root,tcb]", []*x509.Certificate{w.PKI.Root, w.PKI.Tcb}},
		{"[F.tcb,root]", []*x509.Certificate{F.Tcb, w.PKI.Root}},
		{"[tcb,F.root]", []*x509.Certificate{w.PKI.Tcb, F.Root}},
		{"clone[tcb,root]", []*x509.Certificate{Fc.Tcb, Fc.Root}},
		{"[clone.tcb,root]", []*x509.Certificate{Fc.Tcb, w.PKI.Root}},
		{"[tcb-by-inter,inter]", []*x509.Certificate{tcbByInter, w.PKI.Inter}},
		{"[tcb-by-inter,root]", []*x509.Certificate{tcbByInter, w.PKI.Root}},
		// foreign chains whose certificates are outside their validity period at the verification time (a
		// validity error must not stand in for the missing link to the trusted roots)
		{"F[tcb-not-yet-valid,root]", []*x509.Certificate{fTcb(1, 3650), F.Root}},
		{"F[tcb-expired,root]", []*x509.Certificate{fTcb(-3650, -1), F.Root}},
		{"F[tcb-not-yet-valid,root-not-yet-valid]", []*x509.Certificate{fTcbUnder(fRoot(1, 3650), 1, 3650), fRoot(1, 3650)}},
		{"F[tcb,root-expired]", []*x509.Certificate{fTcbUnder(fRoot(-3650, -1), -30, 3650), fRoot(-3650, -1)}},
		{"[F.tcb-not-yet-valid,root]", []*x509.Certificate{fTcb(1, 3650), w.PKI.Root}},
		// certificates the trusted root really issued, for a name that is not the TCB-signing role's (but
		// close to it); chosen together with the matching signer key below
		{"[tcb-UPPERCASE,root]", []*x509.Certificate{nameVariant("INTEL SGX TCB SIGNING"), w.PKI.Root}},
		{"[tcb-lowercase-word,root]", []*x509.Certificate{nameVariant("Intel SGX TCB signing"), w.PKI.Root}},
		{"[tcb-double-space,root]", []*x509.Certificate{nameVariant("Intel SGX  TCB Signing"), w.PKI.Root}},
		{"[tcb-leading-space,root]", []*x509.Certificate{nameVariant(" Intel SGX TCB Signing"), w.PKI.Root}},
		{"[tcb-suffix,root]", []*x509.Certificate{nameVariant("Intel SGX TCB Signing CA"), w.PKI.Root}},
		{"[two-cn:tcb-then-other,root]", []*x509.Certificate{twoCN(), w.PKI.Root}},
		// the genuine signer key and name, but certified by the root for an unrelated purpose only
		{"[tcb-eku-code-signing,root]", []*x509.Certificate{world.MakeCert(world.CertSpec{CN: world.CNTcb, Key: w.PKI.TcbKey, ExtKeyUsage: []x509.ExtKeyUsage{x509.ExtKeyUsageCodeSigning}}, w.PKI.Root, w.PKI.RootKey), w.PKI.Root}},
	}
	bound := 2
	if r.Thorough() {
		bound = 3
	}
	other := func(di int) []byte { return docs[1-di].raw }
	for _, lvl := range []int{0, 2} {
		world.SetLogLevel(lvl)
		exName, exBound := "response-menu", bound
		if lvl != 0 {
			exName, exBound = "response-menu/log-level=2", 1
		}
		r.Explore(exName, exBound, func(c *mc.Ctx) {
			di := c.Free("doc", 2)
			signer := c.Choose("signer", len(signers))
			chain := c.Choose("chain", len(chains))
			sigOver := c.Choose("sigover", 5)
			reenc := c.Choose("reencode", 12)
			idv := c.Choose("idversion", 16)
			lev := c.Choose("levels", 3)
			memb := c.Choose("member", 10)
			sigf := c.Choose("sigfield", 16)
			hdr := c.Choose("header", 14)
			id := "menu/" + c.ID() + world.LogTag()
			if !r.Want(id) {
				return
			}
			d := docs[di]
			// content edits that Intel "really" signs
			var obj map[string]json.RawMessage
			json.Unmarshal(d.raw, &obj)
			setv := func(k, v string) { obj[k] = json.RawMessage(v) }
			switch idv {
			case 1:
				setv("id", `"SGX"`)
			case 2:
				setv("id", `"QE"`)
			case 3:
				setv("id", `"tdx"`)
			case 4:
				setv("version", `2`)
			case 5:
				setv("version", `4`)
			case 6:
				setv("version", `3.0`)
			case 7:
				setv("version", `"3"`)
			case 12, 13, 14, 15:
				// numbers that are not the whole number the document kind requires, and other spellings of it
				v := map[int]string{0: "3", 1: "2"}[di]
				setv("version", map[int]string{12: v + ".5", 13: v + ".999", 14: v + "5e-1", 15: "0" + v}[idv])
			case 8, 9, 10, 11:
				// the OTHER document's identifier and / or version: TCB Info is "TDX" / 3, QE Identity is "TD_QE" / 2
				oid, over := `"TD_QE"`, `2`
				if di == 1 {
					oid, over = `"TDX"`, `3`
				}
				if idv != 10 {
					setv("id", oid)
				}
				if idv != 9 {
					setv("version", over)
				}
				if idv == 11 {
					setv("tcbType", `1`)
				}
			}
			switch lev {
			case 1:
				setv("tcbLevels", `[]`)
			case 2:
				delete(obj, "tcbLevels")
			}
			raw := d.raw
			if idv != 0 || lev != 0 {
				raw = orderedJSON(d.raw, obj)
			}
			// what the signature covers
			signed := raw
			switch sigOver {
			case 1:
				signed = []byte(fmt.Sprintf(`{"%s":%s}`, d.member, raw))
			case 2:
				signed = bytes.ReplaceAll(raw, []byte(`,"`), []byte(`, "`))
			case 3:
				signed = other(di)
			case 4:
				signed = append(append([]byte{}, raw...), ' ')
			}
			sigHex := hex.EncodeToString(signers[signer].key.SignRaw(signed))
			// re-encoding of the transmitted member without re-signing
			sent := raw
			around := false
			switch reenc {
			case 1:
				sent = bytes.ReplaceAll(raw, []byte(`,"`), []byte(`, "`)) // white space inside the member
			case 2:
				sent = reorderJSON(raw) // key order inside the member
			case 3:
				around = true // white space around the member value: not part of the signed bytes
			case 4:
				sent = bytes.Replace(raw, []byte(`"id":`), []byte(`"id" :`), 1)
			case 5: // every kind of JSON white space, between tokens, at several places (a normalisation before the
				// signature check accepts exactly the kinds it strips)
				sent = bytes.ReplaceAll(raw, []byte(`,"`), []byte(",\n\""))
			case 6:
				sent = bytes.ReplaceAll(raw, []byte(`,"`), []byte(",\r\n\""))
			case 7:
				sent = bytes.ReplaceAll(raw, []byte(`,"`), []byte(",\r\""))
			case 8:
				sent = bytes.ReplaceAll(raw, []byte(`,"`), []byte(",\t\""))
			case 9: // one line break before the closing brace only
				sent = append(append([]byte(nil), raw[:len(raw)-1]...), '\n', '}')
			case 10: // leading white space inside the member
				sent = append([]byte("{\n"), raw[1:]...)
			case 11: // pretty-printed
				var b bytes.Buffer
				if json.Indent(&b, raw, "", "  ") == nil {
					sent = b.Bytes()
				}
			}
			var body []byte
			memberJSON := string(sent)
			switch memb {
			case 1:
				memberJSON = ""
			case 2:
				memberJSON = "null"
			case 3:
				memberJSON = `"` + strings.ReplaceAll(string(sent), `"`, `\"`) + `"`
			case 4:
				memberJSON = "[" + string(sent) + "]"
			}
			// 5..9: the signed document is delivered under ANOTHER member name (an older / other API's name, another
			// capitalisation, the other document's name): the response then has no member of the required name
			memberName := d.member
			if memb >= 5 {
				alt := map[string][]string{"tcbInfo": {"tcbinfo", "TcbInfo", "tcb_info", "tdxTcbInfo", "enclaveIdentity"},
					"enclaveIdentity": {"qeIdentity", "EnclaveIdentity", "enclave_identity", "tdQeIdentity", "tcbInfo"}}[d.member]
				if alt == nil {
					alt = []string{"x", "x", "x", "x", "x"}
				}
				memberName = alt[memb-5]
			}
			sigJSON := `"` + sigHex + `"`
			switch sigf {
			case 1:
				sigJSON = ""
			case 2:
				sigJSON = "null"
			case 3:
				sigJSON = "12345"
			case 4:
				sigJSON = `"` + sigHex[:126] + `"`
			case 5:
				sigJSON = `"` + sigHex + `00"`
			case 6:
				sigJSON = `"zz` + sigHex[2:] + `"`
			case 7:
				sigJSON = `"` + strings.ToUpper(sigHex) + `"` // same signature bytes
			case 8, 9, 10, 11:
				// a genuine signature one of whose components starts (8, 9) / ends (10, 11) with a zero octet, sent with that
				// zero moved to the other end of the component: another number, not a signature of this document
				off := 32 * ((sigf - 8) % 2)
				lead := sigf < 10
				sg := signers[signer].key.SignRawWhere(signed, func(r, s []byte) bool {
					c := append(append([]byte{}, r...), s...)[off : off+32]
					if lead {
						return c[0] == 0 && c[31] != 0
					}
					return c[31] == 0 && c[0] != 0
				})
				comp := append([]byte(nil), sg[off:off+32]...)
				if lead {
					copy(sg[off:], append(comp[1:], 0))
				} else {
					copy(sg[off:], append([]byte{0}, comp[:31]...))
				}
				sigJSON = `"` + hex.EncodeToString(sg) + `"`
			case 12, 13, 14, 15:
				// a genuine signature one of whose components starts with the hex digit 0, sent with that digit replaced by
				// a character a tolerant number parser reads as nothing ('+', ' '): not the hex text of any signature
				off := 32 * ((sigf - 12) % 2)
				sg := signers[signer].key.SignRawWhere(signed, func(r, s []byte) bool {
					c := append(append([]byte{}, r...), s...)[off : off+32]
					return c[0] < 0x10 && c[0] != 0
				})
				h := []byte(hex.EncodeToString(sg))
				h[2*off] = []byte{'+', ' '}[(sigf-12)/2]
				sigJSON = `"` + string(h) + `"`
			}
			var parts []string
			if memberJSON != "" {
				if around {
					parts = append(parts, fmt.Sprintf("\n  %q :  %s  ", memberName, memberJSON))
				} else {
					parts = append(parts, fmt.Sprintf("%q:%s", memberName, memberJSON))
				}
			}
			if sigJSON != "" {
				parts = append(parts, `"signature":`+sigJSON)
			}
			body = []byte("{" + strings.Join(parts, ",") + "}")
			hv := world.IssuerChainHeader(chains[chain].certs...)
			header := map[string][]string{d.hdrKey: {hv}}
			switch hdr {
			case 1:
				header = nil
			case 2:
				header = map[string][]string{d.hdrKey: {""}}
			case 3:
				header = map[string][]string{d.hdrKey: {hv, hv}}
			case 4:
				header = map[string][]string{strings.ToLower(d.hdrKey): {hv}}
			case 5:
				header = map[string][]string{d.hdrKey: {string(world.PEM(chains[chain].certs...))}} // not URL-escaped
			case 6:
				header = map[string][]string{d.hdrKey: {hv + "garbage"}}
			case 7:
				header = map[string][]string{d.hdrKey: {}}
			case 8: // the header repeated, all but one value blank (exactly one issuer chain is expected)
				header = map[string][]string{d.hdrKey: {"", hv}}
			case 9:
				header = map[string][]string{d.hdrKey: {hv, ""}}
			case 10:
				header = map[string][]string{d.hdrKey: {" ", hv}}
			case 11:
				header = map[string][]string{d.hdrKey: {"", hv, ""}}
			case 12: // two different chains
				header = map[string][]string{d.hdrKey: {hv, world.IssuerChainHeader(F.Tcb, F.Root)}}
			case 13:
				header = map[string][]string{d.hdrKey: {world.IssuerChainHeader(F.Tcb, F.Root), hv}}
			}
			g := w.Getter.Clone()
			g.Responses[d.url] = world.Response{Header: header, Body: body}
			err := verifyWith(w, g, world.L1)
			out := c03Judge(r, id, "menu", w, g, err, pool)
			if c.Deviations() == 0 && err != nil {
				r.Violate("menu:honest-rejected", id, "the honest collateral world is rejected: "+errStr(err), nil)
			}
			r.Eval(id, c.Deviations() > 0, "menu:"+out)
		})
	}
	world.SetLogLevel(0)

	// (b') the same attacks with Options.Now left nil (the zero value, and what RootOfTrustToOptions produces)
	c03NilNow(r)
	// (c) unsigned shadow members
	c03Shadows(r, pool)
	// (d) a genuine member that lacks a field x an unsigned member that supplies it
	c03MissingFields(r, pool)
}

// orderedJSON re-serialises obj keeping the key order of orig (new keys appended).
func orderedJSON(orig []byte, obj map[string]json.RawMessage) []byte {
	pairs, _ := ref.TopLevelPairs(orig)
	var parts []string
	seen := map[string]bool{}
	for _, p := range pairs {
		if v, ok := obj[p.Key]; ok && !seen[p.Key] {
			parts = append(parts, fmt.Sprintf("%q:%s", p.Key, v))
			seen[p.Key] = true
		}
	}
	for k, v := range obj {
		if !seen[k] {
			parts = append(parts, fmt.Sprintf("%q:%s", k, v))
		}
	}
	return []byte("{" + strings.Join(parts, ",") + "}")
}

// reorderJSON reverses the top-level key order of an object.
func reorderJSON(raw []byte) []byte {
	pairs, _ := ref.TopLevelPairs(raw)
	var parts []string
	for i := len(pairs) - 1; i >= 0; i-- {
		parts = append(parts, fmt.Sprintf("%q:%s", pairs[i].Key, pairs[i].Raw))
	}
	return []byte("{" + strings.Join(parts, ",") + "}")
}

func spellings(key string) []string {
	out := []string{key, strings.ToUpper(key), strings.ToLower(key), strings.ToUpper(key[:1]) + strings.ToLower(key[1:])}
	if strings.Contains(key, "s") {
		out = append(out, strings.Replace(key, "s", "ſ", 1))
	}
	if strings.Contains(key, "k") {
		out = append(out, strings.Replace(key, "k", "K", 1))
	}
	return out
}

// c03NilNow: a world whose every artifact is valid from 2020 to 2048, verified with an explicit time set (the real
// current time) and with Options.Now == nil (the library then takes the time of the call itself): unauthentic or
// rejecting collateral is refused either way. The real clock only has to lie inside that window.
func c03NilNow(r *mc.Run) {
	nb, na := time.Date(2020, 1, 1, 0, 0, 0, 0, time.UTC), time.Date(2049, 1, 1, 0, 0, 0, 0, time.UTC)
	mk := func(name string) *world.PKI {
		p := &world.PKI{Name: name, RootKey: world.NewKey(name + "/root"), InterKey: world.NewKey(name + "/inter"), LeafKey: world.NewKey(name + "/leaf"), TcbKey: world.NewKey(name + "/tcb")}
		p.Root = world.MakeCert(world.CertSpec{CN: world.CNRoot, IsCA: true, Key: p.RootKey, MaxPathLen: 1, NotBefore: nb, NotAfter: na}, nil, p.RootKey)
		p.Inter = world.MakeCert(world.CertSpec{CN: world.CNPlatform, IsCA: true, Key: p.InterKey, MaxPathLen: -1, NotBefore: nb, NotAfter: na}, p.Root, p.RootKey)
		p.Leaf = world.MakeCert(world.CertSpec{CN: world.CNLeaf, Key: p.LeafKey, SGXExt: world.SGXExtension(world.DefaultPlatform()), NotBefore: nb, NotAfter: na,
			CRLDP: []string{"https://api.trustedservices.intel.com/sgx/certification/v4/pckcrl?ca=platform&encoding=der"}}, p.Inter, p.InterKey)
		p.Tcb = world.MakeCert(world.CertSpec{CN: world.CNTcb, Key: p.TcbKey, NotBefore: nb, NotAfter: na}, p.Root, p.RootKey)
		return p
	}
	R, RF := mk("C03R"), mk("C03RF")
	build := func() *world.World {
		w := world.Honest("T")
		w.PKI = R
		w.Spec.PKI = R
		w.Parts = w.Spec.Parts()
		w.Roots = world.Pool(R.Root)
		w.TcbInfo.IssueDate, w.TcbInfo.NextUpdate = "2024-01-01T00:00:00Z", "2048-01-01T00:00:00Z"
		w.QeID.IssueDate, w.QeID.NextUpdate = "2024-01-01T00:00:00Z", "2048-01-01T00:00:00Z"
		tu, nu := time.Date(2024, 1, 1, 0, 0, 0, 0, time.UTC), time.Date(2048, 1, 1, 0, 0, 0, 0, time.UTC)
		w.PckCrl = world.MakeCRL(world.CRLSpec{Issuer: R.Inter, Signer: R.InterKey, ThisUpdate: tu, NextUpdate: nu})
		w.RootCrl = world.MakeCRL(world.CRLSpec{Issuer: R.Root, Signer: R.RootKey, ThisUpdate: tu, NextUpdate: nu})
		w.Now = world.TimeSetAt(time.Now())
		return w
	}
	type attack struct {
		name string
		mod  func(w *world.World)
		bad  bool
	}
	flipIn := func(body []byte, marker string) []byte {
		b := append([]byte(nil), body...)
		if i := bytes.Index(b, []byte(marker)); i >= 0 {
			b[i+len(marker)] ^= 1
		}
		return b
	}
	attacks := []attack{
		{"none", func(w *world.World) {}, false},
		{"tcbinfo-member-altered-under-the-old-signature", func(w *world.World) { w.TcbBody = flipIn(w.TcbBody, `"pceId":"`); w.BuildGetter() }, true},
		{"qeidentity-member-altered-under-the-old-signature", func(w *world.World) { w.QeBody = flipIn(w.QeBody, `"mrsigner":"`); w.BuildGetter() }, true},
		{"tcbinfo-signed-under-a-foreign-pki-of-the-same-names", func(w *world.World) {
			w.TcbBody = world.SignedBody("tcbInfo", w.TcbRaw, RF.TcbKey)
			w.TcbHdr = map[string][]string{world.HdrTcbInfo: {world.IssuerChainHeader(RF.Tcb, RF.Root)}}
			w.BuildGetter()
		}, true},
		{"qeidentity-signed-under-a-foreign-pki-of-the-same-names", func(w *world.World) {
			w.QeBody = world.SignedBody("enclaveIdentity", w.QeRaw, RF.TcbKey)
			w.QeHdr = map[string][]string{world.HdrQeIdentity: {world.IssuerChainHeader(RF.Tcb, RF.Root)}}
			w.BuildGetter()
		}, true},
		{"tcbinfo-signature-zeroed", func(w *world.World) {
			w.TcbBody = world.BodyWithSig("tcbInfo", w.TcbRaw, strings.Repeat("00", 64))
			w.BuildGetter()
		}, true},
		{"genuine-tcbinfo-says-revoked", func(w *world.World) { w.TcbInfo.TcbLevels[0].TcbStatus = "Revoked"; w.Finish() }, true},
		{"genuine-qeidentity-says-revoked", func(w *world.World) { w.QeID.TcbLevels[0].TcbStatus = "Revoked"; w.Finish() }, true},
	}
	n := 0
	for _, a := range attacks {
		for _, level := range []int{world.L1, world.L2} {
			for _, nilNow := range []bool{false, true} {
				for _, viaRot := range []bool{false, true} {
					id := fmt.Sprintf("now-unset/%s/%s/now-nil=%v,options-from-root-of-trust=%v", a.name, lvlName[level], nilNow, viaRot)
					if !r.Want(id) {
						continue
					}
					n++
					w := build()
					w.Finish()
					a.mod(w)
					o := w.Options(level)
					if viaRot {
						ro, cerr := verify.RootOfTrustToOptions(&ccpb.RootOfTrust{Cabundles: []string{string(world.PEM(R.Root))}, GetCollateral: true, CheckCrl: level == world.L2})
						if cerr != nil || ro == nil {
							r.Eval(id, true, "now-unset:conversion-failed")
							continue
						}
						ro.Getter, ro.Now = o.Getter, o.Now
						o = ro
					}
					if nilNow {
						o.Now = nil
					}
					err := verifyRawBoth(r, id, w.Raw(), o)
					out := verdict(err)
					switch {
					case world.IsPanic(err):
					case a.bad && err == nil:
						r.Violate("now-unset:accepted:"+a.name, id, fmt.Sprintf("quote accepted although the collateral is unauthentic / rejects it (%s; Options.Now nil: %v)", a.name, nilNow), nil)
						out = "accept!"
					case !a.bad && err != nil && !nilNow:
						r.HarnessError("C03 now-unset baseline is not accepted with an explicit time set: %v", err)
					}
					r.Eval(id, true, "now-unset:"+out)
				}
			}
		}
	}
	r.SectionDone(mc.Section{Name: "now-unset", Evaluations: int64(n), Exhaustive: true, Note: "uses the real clock, which only has to lie between 2024 and 2048"})
}

func c03Shadows(r *mc.Run, pool []*x509.Certificate) {
	// genuine-document variants: good, Revoked level, expired, other FMSPC / other MRSIGNER
	type variant struct {
		name string
		mod  func(w *world.World, di int)
	}
	variants := []variant{
		{"good", func(w *world.World, di int) {}},
		{"revoked", func(w *world.World, di int) {
			if di == 0 {
				w.TcbInfo.TcbLevels[0].TcbStatus = "Revoked"
			} else {
				w.QeID.TcbLevels[0].TcbStatus = "Revoked"
			}
		}},
		{"expired", func(w *world.World, di int) {
			if di == 0 {
				w.TcbInfo.NextUpdate = world.TimeStr(world.T0.AddDate(0, 0, -1))
			} else {
				w.QeID.NextUpdate = world.TimeStr(world.T0.AddDate(0, 0, -1))
			}
		}},
		{"mismatch", func(w *world.World, di int) {
			if di == 0 {
				w.TcbInfo.Fmspc = "112233445566"
			} else {
				w.QeID.Mrsigner = strings.Repeat("ab", 32)
			}
		}},
		{"no-level-matches", func(w *world.World, di int) {
			if di == 0 {
				w.TcbInfo.TcbLevels[0].Tcb.Pcesvn = world.IntP(int(w.Plat.PCESVN) + 1)
			} else {
				w.QeID.TcbLevels[0].Tcb.Isvsvn = world.IntP(5)
			}
		}},
	}
	perfect := world.Honest("T")
	type shadow struct {
		name string
		val  func(di int, genuine []byte) string
	}
	partial := func(keys ...string) func(di int, genuine []byte) string {
		return func(di int, _ []byte) string {
			src := perfect.TcbRaw
			if di == 1 {
				src = perfect.QeRaw
			}
			var obj map[string]json.RawMessage
			json.Unmarshal(src, &obj)
			var parts []string
			for _, k := range keys {
				if v, ok := obj[k]; ok {
					parts = append(parts, fmt.Sprintf("%q:%s", k, v))
				}
			}
			return "{" + strings.Join(parts, ",") + "}"
		}
	}
	shadows := []shadow{
		{"perfect", func(di int, _ []byte) string {
			if di == 0 {
				return string(perfect.TcbRaw)
			}
			return string(perfect.QeRaw)
		}},
		{"bad-revoked", func(di int, genuine []byte) string {
			return strings.Replace(string(genuine), `"tcbStatus":"UpToDate"`, `"tcbStatus":"Revoked"`, 1)
		}},
		{"only-tcbLevels", partial("tcbLevels")},
		{"only-nextUpdate", partial("nextUpdate")},
		{"only-fmspc-mrsigner", partial("fmspc", "mrsigner")},
		{"only-status-path", func(di int, _ []byte) string { return `{"tcbLevels":[{"tcbStatus":"UpToDate"}]}` }},
		{"levels-upper-keys", func(di int, _ []byte) string {
			return strings.NewReplacer(`"tcbLevels"`, `"TCBLEVELS"`, `"tcbStatus"`, `"TCBSTATUS"`).Replace(partial("tcbLevels")(di, nil))
		}},
		{"null", func(int, []byte) string { return "null" }},
		{"empty-object", func(int, []byte) string { return "{}" }},
	}
	type scase struct {
		vi, di, si, sp, pos int
		key                 string
	}
	var cases []scase
	for vi := range variants {
		for di := 0; di < 2; di++ {
			for si := range shadows {
				for pos := 0; pos < 2; pos++ {
					cases = append(cases, scase{vi: vi, di: di, si: si, pos: pos, sp: -1})
				}
			}
		}
	}
	worlds := make([][2]*world.World, len(variants))
	for vi, v := range variants {
		for di := 0; di < 2; di++ {
			ww := world.Honest("T")
			v.mod(ww, di)
			ww.Finish()
			worlds[vi][di] = ww
		}
	}
	var full []struct {
		scase
		spelling string
	}
	for _, c := range cases {
		member := []string{"tcbInfo", "enclaveIdentity"}[c.di]
		for _, sp := range spellings(member) {
			full = append(full, struct {
				scase
				spelling string
			}{c, sp})
		}
	}
	done := r.Parallel(len(full), func(i int) {
		c := full[i]
		ww := worlds[c.vi][c.di]
		d := c03Docs(ww)[c.di]
		id := fmt.Sprintf("shadow/genuine=%s/%s/key=%s/%s/%s", variants[c.vi].name, d.member, c.spelling, []string{"before", "after"}[c.pos], shadows[c.si].name)
		if !r.Want(id) {
			return
		}
		sigHex := hex.EncodeToString(ww.PKI.TcbKey.SignRaw(d.raw))
		sh := fmt.Sprintf("%q:%s", c.spelling, shadows[c.si].val(c.di, d.raw))
		gen := fmt.Sprintf("%q:%s", d.member, d.raw)
		var body string
		if c.pos == 0 {
			body = "{" + sh + "," + gen + `,"signature":"` + sigHex + `"}`
		} else {
			body = "{" + gen + "," + sh + `,"signature":"` + sigHex + `"}`
		}
		g := ww.Getter.Clone()
		g.Responses[d.url] = world.Response{Header: ww.Getter.Responses[d.url].Header, Body: []byte(body)}
		o := ww.Options(world.L1)
		o.Getter = g
		err := world.SafeVerifyRaw(ww.Raw(), o)
		out := c03Judge(r, id, "shadow:"+spellKind(d.member, c.spelling)+":"+[]string{"before", "after"}[c.pos], ww, g, err, pool)
		r.Eval(id, true, "shadow:"+variants[c.vi].name+":"+out)
	})
	r.SectionDone(mc.Section{Name: "shadow-members", Evaluations: int64(done), Exhaustive: done == len(full)})

	// shadow signature fields: an unsigned second signature under any spelling
	var sdone int64
	for vi, v := range variants {
		for di := 0; di < 2; di++ {
			ww := worlds[vi][di]
			d := c03Docs(ww)[di]
			for _, sp := range spellings("signature") {
				for pos := 0; pos < 2; pos++ {
					for _, kind := range []string{"zero", "foreign", "null"} {
						id := fmt.Sprintf("shadow-sig/genuine=%s/%s/key=%s/%d/%s", v.name, d.member, sp, pos, kind)
						if !r.Want(id) {
							continue
						}
						good := hex.EncodeToString(ww.PKI.TcbKey.SignRaw(d.raw))
						val := `"` + strings.Repeat("00", 64) + `"`
						switch kind {
						case "foreign":
							val = `"` + hex.EncodeToString(world.NewKey("F/tcb").SignRaw(d.raw)) + `"`
						case "null":
							val = "null"
						}
						parts := []string{fmt.Sprintf("%q:%s", d.member, d.raw), `"signature":"` + good + `"`}
						sh := fmt.Sprintf("%q:%s", sp, val)
						if pos == 0 {
							parts = append([]string{sh}, parts...)
						} else {
							parts = append(parts, sh)
						}
						g := ww.Getter.Clone()
						g.Responses[d.url] = world.Response{Header: ww.Getter.Responses[d.url].Header, Body: []byte("{" + strings.Join(parts, ",") + "}")}
						o := ww.Options(world.L1)
						o.Getter = g
						err := world.SafeVerifyRaw(ww.Raw(), o)
						out := c03Judge(r, id, "shadow-sig", ww, g, err, pool)
						r.Eval(id, true, "shadow-sig:"+v.name+":"+out)
						sdone++
					}
				}
			}
		}
	}
	r.SectionDone(mc.Section{Name: "shadow-signatures", Evaluations: sdone, Exhaustive: true})
}

func spellKind(member, sp string) string {
	switch {
	case sp == member:
		return "exact-duplicate"
	case sp == strings.ToUpper(member):
		return "upper"
	case sp == strings.ToLower(member):
		return "lower"
	case strings.EqualFold(sp, member):
		return "title"
	}
	return "unicode-fold"
}

// c03MissingFields: for every top-level key K of each signed document, the genuine (correctly
// signed) member lacks K and an unsigned member under each spelling supplies K (alone, or as part of a
// perfect document). The signed member alone dictates the verdict; unsigned content must not complete it.
func c03MissingFields(r *mc.Run, pool []*x509.Certificate) {
	w := world.Honest("T")
	w.Spec.TeeTcbSvn = []byte{3, 3, 5, 0, 0, 0, 0, 0, 0, 0, 0, 0, 0, 0, 0, 0} // TEE_TCB_SVN[1] != 0: the module identities matter
	w.Parts = w.Spec.Parts()
	ti := world.DefaultTcbInfo(w.Plat, w.Parts.Body[0:16])
	ti.TdxModuleIdentities = []world.ModuleIdentity{{ID: "TDX_03", Mrsigner: strings.Repeat("00", 48), Attributes: "0000000000000000", AttributesMask: "FFFFFFFFFFFFFFFF",
		TcbLevels: []world.Level{{Tcb: world.Tcb{Isvsvn: world.IntP(3)}, TcbDate: "2029-01-01T00:00:00Z", TcbStatus: "UpToDate"}}}}
	w.TcbInfo = ti
	w.Finish()
	if err := w.Verify(world.L1); err != nil {
		r.HarnessError("C03 missing-field baseline is not accepted: %v", err)
		return
	}
	type mcase struct {
		di            int
		key, spelling string
		pos           int
		whole         bool
	}
	var cases []mcase
	docs := c03Docs(w)
	for di, d := range docs {
		pairs, _ := ref.TopLevelPairs(d.raw)
		for _, p := range pairs {
			for _, sp := range spellings(d.member) {
				for pos := 0; pos < 2; pos++ {
					for _, whole := range []bool{false, true} {
						cases = append(cases, mcase{di, p.Key, sp, pos, whole})
					}
				}
			}
		}
	}
	done := r.Parallel(len(cases), func(i int) {
		c := cases[i]
		d := docs[c.di]
		id := fmt.Sprintf("missing-field/%s/lacks=%s/key=%s/%s/whole=%v", d.member, c.key, c.spelling, []string{"before", "after"}[c.pos], c.whole)
		if !r.Want(id) {
			return
		}
		pairs, _ := ref.TopLevelPairs(d.raw)
		var kept []string
		var supplied string
		for _, p := range pairs {
			if p.Key == c.key {
				supplied = fmt.Sprintf("{%q:%s}", p.Key, p.Raw)
				continue
			}
			kept = append(kept, fmt.Sprintf("%q:%s", p.Key, p.Raw))
		}
		genuine := []byte("{" + strings.Join(kept, ",") + "}")
		if c.whole {
			supplied = string(d.raw)
		}
		sigHex := hex.EncodeToString(w.PKI.TcbKey.SignRaw(genuine))
		gen := fmt.Sprintf("%q:%s", d.member, genuine)
		sh := fmt.Sprintf("%q:%s", c.spelling, supplied)
		var body string
		if c.pos == 0 {
			body = "{" + sh + "," + gen + `,"signature":"` + sigHex + `"}`
		} else {
			body = "{" + gen + "," + sh + `,"signature":"` + sigHex + `"}`
		}
		g := w.Getter.Clone()
		g.Responses[d.url] = world.Response{Header: w.Getter.Responses[d.url].Header, Body: []byte(body)}
		o := w.Options(world.L1)
		o.Getter = g
		err := world.SafeVerifyRaw(w.Raw(), o)
		out := c03Judge(r, id, "missing-field:"+c.key+":"+spellKind(d.member, c.spelling), w, g, err, pool)
		r.Eval(id, true, "missing-field:"+out)
	})
	r.SectionDone(mc.Section{Name: "missing-field-x-shadow", Evaluations: int64(done), Exhaustive: done == len(cases)})

	// a getter that re-uses its receive buffer: the bytes a signature is checked over and the bytes the values are read
	// from must be the same bytes of ONE response, also when the buffer has meanwhile received the next response. The
	// TCB Info response carries an altered member (a level the platform now reaches) with the genuine signature; the QE
	// identity response that follows carries, as an unsigned extra member in front, the GENUINE TCB Info text — which
	// lands in the buffer exactly where the altered text stood
	{
		wr := world.Honest("T")
		unreachable := world.PlatformLevel(wr.Plat, wr.Parts.Body[0:16], "UpToDate")
		unreachable.Tcb.Pcesvn = world.IntP(int(wr.Plat.PCESVN) + 20)
		wr.TcbInfo.TcbLevels = []world.Level{unreachable}
		wr.Finish()
		genuine := wr.TcbRaw
		altered := bytes.Replace(genuine, []byte(fmt.Sprintf(`"pcesvn":%d`, int(wr.Plat.PCESVN)+20)), []byte(fmt.Sprintf(`"pcesvn":%d`, int(wr.Plat.PCESVN))), 1)
		sigHex := hex.EncodeToString(wr.PKI.TcbKey.SignRaw(genuine))
		qeSig := hex.EncodeToString(wr.PKI.TcbKey.SignRaw(wr.QeRaw))
		if len(altered) == len(genuine) && !bytes.Equal(altered, genuine) {
			for _, gk := range []string{"ordinary-getter", "recycling-getter"} {
				for _, tv := range []string{"genuine", "altered"} {
					id := fmt.Sprintf("recycled-buffer/%s/tcbinfo=%s", gk, tv)
					if !r.Want(id) {
						continue
					}
					member := genuine
					if tv == "altered" {
						member = altered
					}
					g := wr.Getter.Clone()
					u := world.URLTcbInfo(hexs(wr.Plat.FMSPC))
					g.Responses[u] = world.Response{Header: wr.TcbHdr, Body: []byte(fmt.Sprintf(`{"tcbInfo":%s,"signature":"%s"}`, member, sigHex))}
					g.Responses[world.URLQeIdentity] = world.Response{Header: wr.QeHdr, Body: []byte(fmt.Sprintf(`{"tcbInfo":%s,"enclaveIdentity":%s,"signature":"%s"}`, genuine, wr.QeRaw, qeSig))}
					o := wr.Options(world.L1)
					o.Getter = g
					if gk == "recycling-getter" {
						o.Getter = &world.RecyclingGetter{Inner: g}
					}
					err := world.SafeVerifyRaw(wr.Raw(), o)
					out := verdict(err)
					// genuine: no level is reached -> rejected; altered: not authentic -> rejected
					if err == nil {
						r.Violate("recycled-buffer:accepted:"+gk+":"+tv, id, "quote accepted although the signed TCB Info lists no level the platform reaches (the "+tv+" member was served)", nil)
						out = "accept!"
					}
					r.Eval(id, true, "recycled-buffer:"+out)
				}
			}
		} else {
			r.HarnessError("C03 recycled-buffer: could not build an altered member of equal length")
		}
	}
	// successive answers: the service answers the same URL differently from one request to the next (an error, a
	// partial body, then another partial body). A document is authentic only if ONE response carries both the member
	// and a signature over it: pieces of different responses do not add up. Sequences in which no single response is
	// complete must never lead to acceptance; a sequence ending in the genuine response may (if the library asks again).
	{
		type seqCase struct {
			name string
			seq  func(d c03doc, good world.Response) []world.Response
		}
		part := func(d c03doc, good world.Response, member, sig bool) world.Response {
			var obj map[string]json.RawMessage
			json.Unmarshal(good.Body, &obj)
			var parts []string
			if member {
				parts = append(parts, fmt.Sprintf("%q:%s", d.member, obj[d.member]))
			}
			if sig {
				parts = append(parts, fmt.Sprintf("%q:%s", "signature", obj["signature"]))
			}
			return world.Response{Header: good.Header, Body: []byte("{" + strings.Join(parts, ",") + "}")}
		}
		fail := world.Response{Err: errors.New("503 service unavailable")}
		seqs := []seqCase{
			{"signature-only,then-member-only", func(d c03doc, g world.Response) []world.Response {
				return []world.Response{part(d, g, false, true), part(d, g, true, false)}
			}},
			{"member-only,then-signature-only", func(d c03doc, g world.Response) []world.Response {
				return []world.Response{part(d, g, true, false), part(d, g, false, true)}
			}},
			{"signature-only,then-member-only,then-empty-object", func(d c03doc, g world.Response) []world.Response {
				return []world.Response{part(d, g, false, true), part(d, g, true, false), part(d, g, false, false)}
			}},
			{"error,then-signature-only,then-member-only", func(d c03doc, g world.Response) []world.Response {
				return []world.Response{fail, part(d, g, false, true), part(d, g, true, false)}
			}},
			{"signature-only-without-header,then-member-only", func(d c03doc, g world.Response) []world.Response {
				a := part(d, g, false, true)
				a.Header = nil
				return []world.Response{a, part(d, g, true, false)}
			}},
			{"member-only-x3", func(d c03doc, g world.Response) []world.Response {
				return []world.Response{part(d, g, true, false), part(d, g, true, false), part(d, g, true, false)}
			}},
		}
		for di, d := range docs {
			for _, sc := range seqs {
				id := fmt.Sprintf("sequence/%s/%s", d.member, sc.name)
				if !r.Want(id) {
					continue
				}
				g := w.Getter.Clone()
				g.Sequences[d.url] = sc.seq(d, w.Getter.Responses[d.url])
				o := w.Options(world.L1)
				o.Getter = g
				err := world.SafeVerifyRaw(w.Raw(), o)
				out := verdict(err)
				if err == nil {
					r.Violate("sequence:accepted-pieces-of-different-responses:"+docs[di].member, id, "quote accepted although no single response to the "+d.member+" request carried both the member and its signature", map[string]any{"requests": g.Log})
					out = "accept!"
				}
				r.Eval(id, true, "sequence:"+out)
			}
		}
	}
}
