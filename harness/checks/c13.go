package checks

import (
	"bytes"
	"crypto/x509"
	"crypto/x509/pkix"
	"encoding/asn1"
	"fmt"
	"math/big"

	"github.com/google/go-tdx-guest/pcs"

	"verifharness/mc"
	"verifharness/world"
)

func init() {
	mc.Register(&mc.Check{ID: "C13", Category: "exploration",
		Rule:   "cases: PCK certificates whose SGX extension is produced by the harness's own DER encoder: value assignments (each component and PCESVN at boundary values, byte strings with leading zeros and bytes >= 0x80), all 120 orders of the five sub-extensions, all transpositions / rotations / the reversal of the 18 TCB elements, 7-element platform layout, and a malformed menu applied at every element (out-of-range / negative / oversized integers, wrong lengths, wrong ASN.1 types, trailing bytes at each nesting level, removed / duplicated elements, absent SGX extension, 5 or 7 certificate extensions). Non-trivial: every case (each has its own expected value or mandatory error); distinct by id",
		Assume: []string{"DER encoder in harness/world/pki.go is independent of encoding/asn1's decoder used by the library", "doubly wrapped octet strings, tolerated on purpose by the library, are outside the wrong-length alphabet"},
		Run:    runC13})
}

type c13want int

const (
	wantExact c13want = iota
	wantError
	wantErrorOrExact   // the statement does not make the error mandatory
	wantErrorOrPartial // element removed: error, or every reported field equals what is encoded / zero if absent
)

type c13case struct {
	id     string
	exts   []pkix.Extension
	plat   world.Platform
	want   c13want
	absent map[string]bool
}

func sixExts(sgx []byte) []pkix.Extension {
	return []pkix.Extension{{Id: asn1.ObjectIdentifier{2, 5, 29, 35}, Value: []byte{0x30, 0}}, {Id: asn1.ObjectIdentifier{2, 5, 29, 31}, Value: []byte{0x30, 0}},
		{Id: asn1.ObjectIdentifier{2, 5, 29, 14}, Value: []byte{4, 0}}, {Id: asn1.ObjectIdentifier{2, 5, 29, 15}, Value: []byte{3, 2, 6, 0xc0}},
		{Id: asn1.ObjectIdentifier{2, 5, 29, 19}, Value: []byte{0x30, 0}}, {Id: world.OidSGX, Value: sgx}}
}

func platWith(f func(p *world.Platform)) world.Platform {
	p := world.DefaultPlatform()
	p.PPID = append([]byte(nil), p.PPID...)
	p.PCEID = append([]byte(nil), p.PCEID...)
	p.FMSPC = append([]byte(nil), p.FMSPC...)
	for i := range p.CPUSVN {
		p.CPUSVN[i] = byte(17*i + 3)
	}
	p.CPUSVN[4], p.CPUSVN[9] = 0x80, 0xfe
	p.PCESVN = 0x1234
	p.PCEID = []byte{0x00, 0x9c}
	p.FMSPC = []byte{0x00, 0x90, 0x6e, 0xd5, 0x00, 0xff}
	if f != nil {
		f(&p)
	}
	return p
}

func permutations(n int) [][]int {
	var out [][]int
	a := make([]int, n)
	for i := range a {
		a[i] = i
	}
	var rec func(k int)
	rec = func(k int) {
		if k == n {
			out = append(out, append([]int(nil), a...))
			return
		}
		for i := k; i < n; i++ {
			a[k], a[i] = a[i], a[k]
			rec(k + 1)
			a[k], a[i] = a[i], a[k]
		}
	}
	rec(0)
	return out
}

func runC13(r *mc.Run) {
	var cases []c13case
	assemble := func(p world.Platform, order []string, tcb [][]byte, top map[string][]byte) []byte {
		var items [][]byte
		for _, k := range order {
			if k == "tcb" {
				items = append(items, world.SGXTcbElem(tcb))
			} else {
				items = append(items, top[k])
			}
		}
		return world.DERSeq(items...)
	}
	stdOrder := []string{"ppid", "tcb", "pceid", "fmspc", "type"}
	add := func(id string, p world.Platform, sgx []byte, want c13want) {
		cases = append(cases, c13case{id: id, exts: sixExts(sgx), plat: p, want: want})
	}
	// values
	base := platWith(nil)
	add("values/distinct", base, world.SGXExtension(base), wantExact)
	// the criticality flags of the certificate's extensions (of the SGX one, of each other one, of all) say nothing
	// about the values inside
	for mask := 1; mask < 64; mask++ {
		if mask != 32 && mask != 63 && mask&(mask-1) != 0 {
			continue
		}
		ex := sixExts(world.SGXExtension(base))
		for k := range ex {
			ex[k].Critical = mask&(1<<uint(k)) != 0
		}
		cases = append(cases, c13case{id: fmt.Sprintf("critical-flags/%06b", mask), exts: ex, plat: base, want: wantExact})
	}
	for i := 0; i < 16; i++ {
		for _, v := range []byte{0, 1, 127, 128, 255} {
			i, v := i, v
			p := platWith(func(p *world.Platform) { p.CPUSVN[i] = v })
			add(fmt.Sprintf("values/comp%d=%d", i+1, v), p, world.SGXExtension(p), wantExact)
		}
	}
	for _, v := range []uint16{0, 1, 127, 128, 255, 256, 32767, 32768, 65535} {
		v := v
		p := platWith(func(p *world.Platform) { p.PCESVN = v })
		add(fmt.Sprintf("values/pcesvn=%d", v), p, world.SGXExtension(p), wantExact)
	}
	for _, name := range []string{"zero", "ff", "lead0", "high"} {
		name := name
		p := platWith(func(p *world.Platform) {
			fill := func(b []byte) {
				for i := range b {
					switch name {
					case "zero":
						b[i] = 0
					case "ff":
						b[i] = 0xff
					case "lead0":
						if i < len(b)/2 {
							b[i] = 0
						}
					case "high":
						b[i] = byte(0x80 + i)
					}
				}
			}
			fill(p.PPID)
			fill(p.PCEID)
			fill(p.FMSPC)
		})
		add("values/bytes="+name, p, world.SGXExtension(p), wantExact)
	}
	// the opaque CPUSVN octet string is its own value: it need not repeat the sixteen components
	for _, name := range []string{"zero", "ff", "reversed", "plus1"} {
		name := name
		p := platWith(func(p *world.Platform) {
			b := make([]byte, 16)
			for i := range b {
				switch name {
				case "ff":
					b[i] = 0xff
				case "reversed":
					b[i] = p.CPUSVN[15-i]
				case "plus1":
					b[i] = p.CPUSVN[i] + 1
				}
			}
			p.CPUSVNBlob = b
		})
		add("values/cpusvn-blob="+name, p, world.SGXExtension(p), wantExact)
	}
	// CPUSVN octet strings that are not 16 bytes (a 16-byte value wrapped once more, a truncated / extended one):
	// a wrongly sized octet string is an error, whatever its bytes look like
	for _, cb := range []struct {
		name string
		b    []byte
	}{
		{"nested-looking-04-10+16", append([]byte{0x04, 0x10}, base.CPUSVN[:]...)}, {"nested-looking-04-0e+14", append([]byte{0x04, 0x0e}, base.CPUSVN[:14]...)},
		{"15-bytes", base.CPUSVN[:15]}, {"17-bytes", append(append([]byte{}, base.CPUSVN[:]...), 0)}, {"32-bytes", append(append([]byte{}, base.CPUSVN[:]...), base.CPUSVN[:]...)}, {"empty", []byte{}},
		{"18-zero-bytes", make([]byte, 18)}, {"nested-looking-30-10+16", append([]byte{0x30, 0x10}, base.CPUSVN[:]...)},
	} {
		p := base
		p.CPUSVNBlob = cb.b
		want := wantError
		if len(cb.b) == 16 {
			want = wantExact // sixteen octets are the value, whatever they look like
		}
		add("values/cpusvn-octet-string="+cb.name, p, world.SGXExtension(p), want)
	}
	// orders
	top, tcb := world.SGXElems(base)
	for _, perm := range permutations(5) {
		order := make([]string, 5)
		for i, k := range perm {
			order[i] = stdOrder[k]
		}
		add(fmt.Sprintf("order/top/%v", perm), base, assemble(base, order, tcb, top), wantExact)
	}
	for i := 0; i < 18; i++ {
		for j := i + 1; j < 18; j++ {
			t := append([][]byte(nil), tcb...)
			t[i], t[j] = t[j], t[i]
			add(fmt.Sprintf("order/tcb/swap%d-%d", i, j), base, assemble(base, stdOrder, t, top), wantExact)
		}
		t := append(append([][]byte(nil), tcb[i:]...), tcb[:i]...)
		add(fmt.Sprintf("order/tcb/rot%d", i), base, assemble(base, stdOrder, t, top), wantExact)
	}
	{
		t := make([][]byte, 18)
		for i := range tcb {
			t[17-i] = tcb[i]
		}
		add("order/tcb/reversed", base, assemble(base, stdOrder, t, top), wantExact)
	}
	// all 5040 arrangements of seven selected TCB elements (components 1, 2, 8, 15, 16, PCESVN, CPUSVN) among
	// their seven positions, the other eleven staying in place
	sel := []int{0, 1, 7, 14, 15, 16, 17}
	if r.Thorough() {
		sel = []int{0, 1, 7, 8, 14, 15, 16, 17} // 40320 arrangements
	}
	for _, perm := range permutations(len(sel)) {
		t := append([][]byte(nil), tcb...)
		for k, p := range perm {
			t[sel[k]] = tcb[sel[p]]
		}
		add(fmt.Sprintf("order/tcb/perm%d/%v", len(sel), perm), base, assemble(base, stdOrder, t, top), wantExact)
	}
	// Intel platform-CA layout with seven elements
	{
		top7 := map[string][]byte{}
		for k, v := range top {
			top7[k] = v
		}
		top7["instance"] = world.DERSeq(world.DEROID(world.SGXOid(6)), world.DEROctet(world.Fill("pi", 16)))
		top7["config"] = world.DERSeq(world.DEROID(world.SGXOid(7)), world.DERSeq(
			world.DERSeq(world.DEROID(world.SGXOid(7, 1)), world.DER(0x01, []byte{0xff})),
			world.DERSeq(world.DEROID(world.SGXOid(7, 2)), world.DER(0x01, []byte{0})),
			world.DERSeq(world.DEROID(world.SGXOid(7, 3)), world.DER(0x01, []byte{0}))))
		add("order/seven-elements", base, assemble(base, append(append([]string{}, stdOrder...), "instance", "config"), tcb, top7), wantExact)
		// the seven known members in orders that put the optional ones first, and lists of eight to twelve members:
		// further members under arcs the decoder does not know (Intel may add members) in FRONT of the required ones, so
		// that each required member in turn stands in eighth position or later
		add("order/seven-elements/optional-first", base, assemble(base, []string{"instance", "config", "type", "fmspc", "pceid", "tcb", "ppid"}, tcb, top7), wantExact)
		topN := map[string][]byte{}
		for k, v := range top7 {
			topN[k] = v
		}
		var extra []string
		for a := 8; a <= 12; a++ {
			k := fmt.Sprintf("unknown%d", a)
			topN[k] = world.DERSeq(world.DEROID(world.SGXOid(a)), world.DEROctet(world.Fill(k, 5)))
			extra = append(extra, k)
		}
		for n := 1; n <= 5; n++ {
			for _, last := range []string{"ppid", "tcb", "pceid", "fmspc"} {
				order := append([]string{}, extra[:n]...)
				order = append(order, "instance", "config", "type")
				for _, k := range []string{"ppid", "tcb", "pceid", "fmspc"} {
					if k != last {
						order = append(order, k)
					}
				}
				order = append(order, last)
				add(fmt.Sprintf("order/%d-members/%d-unknown-first,%s-last", len(order), n, last), base, assemble(base, order, tcb, topN), wantErrorOrExact)
			}
			// unknown members between and behind the known ones
			mid := append(append([]string{"ppid", "tcb"}, extra[:n]...), "pceid", "fmspc", "type", "instance", "config")
			add(fmt.Sprintf("order/%d-members/%d-unknown-in-the-middle", len(mid), n), base, assemble(base, mid, tcb, topN), wantErrorOrExact)
			end := append(append([]string{}, stdOrder...), append([]string{"instance", "config"}, extra[:n]...)...)
			add(fmt.Sprintf("order/%d-members/%d-unknown-at-the-end", len(end), n), base, assemble(base, end, tcb, topN), wantErrorOrExact)
		}
	}
	// duplicates: an element listed twice (an identical copy) at every position of every order; whether a
	// duplicate is an error is left open, but a result must carry every encoded value
	for pi, perm := range permutations(5) {
		if pi%6 != 0 && pi != 1 { // every sixth order (20 orders) and the first transposition
			continue
		}
		order := make([]string, 5)
		for i, k := range perm {
			order[i] = stdOrder[k]
		}
		for _, dup := range stdOrder {
			for pos := 0; pos <= 5; pos++ {
				o2 := append(append(append([]string{}, order[:pos]...), dup), order[pos:]...)
				add(fmt.Sprintf("duplicate/%v/%s@%d", perm, dup, pos), base, assemble(base, o2, tcb, top), wantErrorOrExact)
			}
		}
	}
	// the same inside the TCB sequence: one element repeated at another position (19 elements)
	for i := 0; i < 18; i++ {
		for _, pos := range []int{0, 9, 18} {
			t := append(append(append([][]byte{}, tcb[:pos]...), tcb[i]), tcb[pos:]...)
			add(fmt.Sprintf("duplicate/tcb%d@%d", i+1, pos), base, assemble(base, stdOrder, t, top), wantErrorOrExact)
		}
	}
	// malformed: integers
	oid := func(sub ...int) []byte { return world.DEROID(world.SGXOid(sub...)) }
	two63 := new(big.Int).Lsh(big.NewInt(1), 63)
	huge := new(big.Int).Lsh(big.NewInt(1), 159)
	badInts := []struct {
		name string
		der  []byte
	}{{"-1", world.DERInt64(-1)}, {"256", world.DERInt64(256)}, {"65536", world.DERInt64(65536)}, {"2^63", world.DERInt(two63)},
		{"20byte", world.DERInt(huge)}, {"0xC8-one-octet", world.DER(0x02, []byte{0xC8})}, {"-129", world.DERInt64(-129)}, {"empty-int", world.DER(0x02)},
		{"octet", world.DEROctet([]byte{5})}, {"null", world.DER(0x05)}, {"bool", world.DER(0x01, []byte{0xff})}, {"utf8", world.DER(0x0c, []byte("5"))}, {"enum", world.DER(0x0a, []byte{5})}}
	// a legal INTEGER wrapped in another type (OCTET STRING, SEQUENCE, SET, explicit context tag, BIT STRING): the
	// member is not an INTEGER
	for _, v := range []int64{0, 5, 11, 200} {
		in := world.DERInt64(v)
		badInts = append(badInts,
			struct {
				name string
				der  []byte
			}{fmt.Sprintf("octet-string-holding-integer-%d", v), world.DEROctet(in)},
			struct {
				name string
				der  []byte
			}{fmt.Sprintf("sequence-holding-integer-%d", v), world.DERSeq(in)},
			struct {
				name string
				der  []byte
			}{fmt.Sprintf("set-holding-integer-%d", v), world.DER(0x31, in)},
			struct {
				name string
				der  []byte
			}{fmt.Sprintf("context0-holding-integer-%d", v), world.DER(0xa0, in)},
			struct {
				name string
				der  []byte
			}{fmt.Sprintf("bit-string-holding-integer-%d", v), world.DER(0x03, append([]byte{0}, in...))})
	}
	// values that agree with a legal one in their low 8 / 16 / 32 bits (an INTEGER may be up to 8 octets and more)
	wideLegal := map[string]*big.Int{}
	for _, k := range []uint{8, 16, 24, 31, 32, 33, 40, 48, 56, 62} {
		for _, d := range []int64{0, 7, 0x1234} {
			v := new(big.Int).Add(new(big.Int).Lsh(big.NewInt(1), k), big.NewInt(d))
			n := fmt.Sprintf("2^%d+%d", k, d)
			badInts = append(badInts, struct {
				name string
				der  []byte
			}{n, world.DERInt(v)})
			wideLegal[n] = v
		}
	}
	for _, k := range []uint{8, 16, 32, 40, 63} {
		v := new(big.Int).Add(new(big.Int).Neg(new(big.Int).Lsh(big.NewInt(1), k)), big.NewInt(5))
		badInts = append(badInts, struct {
			name string
			der  []byte
		}{fmt.Sprintf("-2^%d+5", k), world.DERInt(v)})
	}
	for i := 0; i < 17; i++ {
		for _, bi := range badInts {
			if i == 16 && bi.name == "256" {
				continue // a legal PCESVN
			}
			if v, ok := wideLegal[bi.name]; ok && i == 16 && v.Cmp(big.NewInt(65535)) <= 0 {
				continue // a legal PCESVN
			}
			t := append([][]byte(nil), tcb...)
			t[i] = world.DERSeq(oid(2, i+1), bi.der)
			add(fmt.Sprintf("bad/int/tcb%d=%s", i+1, bi.name), base, assemble(base, stdOrder, t, top), wantError)
		}
	}
	// an out-of-range component that agrees in its low octet with what ANOTHER member says about the same component
	// (the CPUSVN string, listed before / after it), and out-of-range PCESVN values agreeing with the low 16 bits
	for i := 0; i < 16; i++ {
		for _, d := range []int64{256, -256, 65536, 1 << 32, -(1 << 32)} {
			v := int64(base.CPUSVN[i]) + d
			for _, cpuFirst := range []bool{true, false} {
				t := append([][]byte(nil), tcb...)
				t[i] = world.DERSeq(oid(2, i+1), world.DERInt64(v))
				if cpuFirst {
					t = append([][]byte{t[17]}, t[:17]...)
				}
				add(fmt.Sprintf("bad/int/tcb%d=cpusvn-byte%+d,cpusvn-first=%v", i+1, d, cpuFirst), base, assemble(base, stdOrder, t, top), wantError)
			}
		}
	}
	for _, d := range []int64{65536, -65536, 1 << 32} {
		for _, cpuFirst := range []bool{true, false} {
			t := append([][]byte(nil), tcb...)
			t[16] = world.DERSeq(oid(2, 17), world.DERInt64(int64(base.PCESVN)+d))
			if cpuFirst {
				t = append([][]byte{t[17]}, t[:17]...)
			}
			add(fmt.Sprintf("bad/int/pcesvn%+d,cpusvn-first=%v", d, cpuFirst), base, assemble(base, stdOrder, t, top), wantError)
		}
	}
	// TCB members under object identifiers the decoder does not expect: the member it replaces is absent
	for i := 0; i < 18; i++ {
		for _, arc := range []int{0, 19, 127, 128, 255, 300, 70000} {
			t := append([][]byte(nil), tcb...)
			val := world.DERInt64(int64(base.CPUSVN[i%16]))
			if i == 17 {
				val = world.DEROctet(base.CPUSVN[:])
			}
			t[i] = world.DERSeq(oid(2, arc), val)
			cases = append(cases, c13case{id: fmt.Sprintf("oid/tcb%d-as-arc%d", i+1, arc), exts: sixExts(assemble(base, stdOrder, t, top)), plat: base, want: wantErrorOrPartial,
				absent: map[string]bool{fmt.Sprintf("tcb%d", i+1): true}})
		}
		// same OID prefix, one arc shorter / longer
		t := append([][]byte(nil), tcb...)
		t[i] = world.DERSeq(oid(2), world.DERInt64(1))
		cases = append(cases, c13case{id: fmt.Sprintf("oid/tcb%d-as-parent", i+1), exts: sixExts(assemble(base, stdOrder, t, top)), plat: base, want: wantErrorOrPartial, absent: map[string]bool{fmt.Sprintf("tcb%d", i+1): true}})
		t2 := append([][]byte(nil), tcb...)
		t2[i] = world.DERSeq(oid(2, i+1, 1), world.DERInt64(1))
		cases = append(cases, c13case{id: fmt.Sprintf("oid/tcb%d-one-arc-deeper", i+1), exts: sixExts(assemble(base, stdOrder, t2, top)), plat: base, want: wantErrorOrPartial, absent: map[string]bool{fmt.Sprintf("tcb%d", i+1): true}})
	}
	for _, k := range []string{"ppid", "pceid", "fmspc"} {
		for _, arc := range []int{0, 6, 9, 200} {
			t2 := map[string][]byte{}
			for kk, v := range top {
				t2[kk] = v
			}
			val := map[string][]byte{"ppid": base.PPID, "pceid": base.PCEID, "fmspc": base.FMSPC}[k]
			t2[k] = world.DERSeq(oid(arc), world.DEROctet(val))
			cases = append(cases, c13case{id: fmt.Sprintf("oid/%s-as-arc%d", k, arc), exts: sixExts(assemble(base, stdOrder, tcb, t2)), plat: base, want: wantErrorOrPartial, absent: map[string]bool{k: true}})
		}
	}
	// malformed: octet strings
	type oct struct {
		key  string
		sub  []int
		size int
	}
	for _, o := range []oct{{"ppid", []int{1}, 16}, {"pceid", []int{3}, 2}, {"fmspc", []int{4}, 6}} {
		for _, n := range []int{0, o.size - 1, o.size + 1, 2 * o.size} {
			t2 := map[string][]byte{}
			for k, v := range top {
				t2[k] = v
			}
			content := bytes.Repeat([]byte{0xA5}, n)
			t2[o.key] = world.DERSeq(oid(o.sub...), world.DEROctet(content))
			add(fmt.Sprintf("bad/octet/%s-len%d", o.key, n), base, assemble(base, stdOrder, tcb, t2), wantError)
		}
		for _, bt := range []struct {
			name string
			der  []byte
		}{{"int", world.DERInt64(7)}, {"null", world.DER(0x05)}, {"utf8", world.DER(0x0c, bytes.Repeat([]byte("a"), o.size))}, {"seq", world.DERSeq(world.DEROctet(bytes.Repeat([]byte{1}, o.size)))}, {"bitstring", world.DER(0x03, append([]byte{0}, bytes.Repeat([]byte{1}, o.size)...))}} {
			t2 := map[string][]byte{}
			for k, v := range top {
				t2[k] = v
			}
			t2[o.key] = world.DERSeq(oid(o.sub...), bt.der)
			add(fmt.Sprintf("bad/type/%s=%s", o.key, bt.name), base, assemble(base, stdOrder, tcb, t2), wantError)
		}
	}
	for _, n := range []int{0, 15, 17} {
		t := append([][]byte(nil), tcb...)
		t[17] = world.DERSeq(oid(2, 18), world.DEROctet(bytes.Repeat([]byte{7}, n)))
		add(fmt.Sprintf("bad/octet/cpusvn-len%d", n), base, assemble(base, stdOrder, t, top), wantError)
	}
	{
		t := append([][]byte(nil), tcb...)
		t[17] = world.DERSeq(oid(2, 18), world.DERInt64(5))
		add("bad/type/cpusvn=int", base, assemble(base, stdOrder, t, top), wantError)
	}
	// identifier octet of every value at every other setting (tag number, class bits and constructed bit are one octet:
	// a check of the tag number alone lets 0x24, 0x44, ... 0xe4 pass for an OCTET STRING)
	reTag := func(der []byte, id byte) []byte {
		out := append([]byte(nil), der...)
		out[0] = id
		return out
	}
	for id := 0; id < 256; id++ {
		for _, o := range []oct{{"ppid", []int{1}, 16}, {"pceid", []int{3}, 2}, {"fmspc", []int{4}, 6}} {
			if id == 0x04 {
				continue
			}
			t2 := map[string][]byte{}
			for k, v := range top {
				t2[k] = v
			}
			val := map[string][]byte{"ppid": base.PPID, "pceid": base.PCEID, "fmspc": base.FMSPC}[o.key]
			t2[o.key] = world.DERSeq(oid(o.sub...), reTag(world.DEROctet(val), byte(id)))
			add(fmt.Sprintf("bad/identifier/%s=%#02x", o.key, id), base, assemble(base, stdOrder, tcb, t2), wantError)
		}
		for _, i := range []int{0, 7, 15, 16, 17} {
			right := byte(0x02)
			if i == 17 {
				right = 0x04
			}
			if byte(id) == right {
				continue
			}
			t := append([][]byte(nil), tcb...)
			var v []byte
			switch {
			case i < 16:
				v = world.DERInt64(int64(base.CPUSVN[i]))
			case i == 16:
				v = world.DERInt64(int64(base.PCESVN))
			default:
				v = world.DEROctet(base.Blob())
			}
			t[i] = world.DERSeq(oid(2, i+1), reTag(v, byte(id)))
			add(fmt.Sprintf("bad/identifier/tcb%d=%#02x", i+1, id), base, assemble(base, stdOrder, t, top), wantError)
		}
	}
	// trailing bytes at each nesting level
	good := world.SGXExtension(base)
	add("trailing/after-extension", base, append(append([]byte(nil), good...), 0x05, 0x00), wantError)
	add("trailing/after-extension-1byte", base, append(append([]byte(nil), good...), 0x00), wantError)
	{
		items := [][]byte{top["ppid"], world.SGXTcbElem(tcb), top["pceid"], top["fmspc"], top["type"]}
		for i, k := range stdOrder {
			it := append([][]byte(nil), items...)
			// an extra element inside the element's SEQUENCE
			inner := it[i]
			// re-wrap: strip header (2..4 bytes) generically by rebuilding
			var rebuilt []byte
			switch k {
			case "tcb":
				rebuilt = world.DERSeq(oid(2), world.DERSeq(tcb...), world.DER(0x05))
			case "type":
				rebuilt = world.DERSeq(oid(5), world.DER(0x0a, []byte{1}), world.DER(0x05))
			default:
				sub := map[string]int{"ppid": 1, "pceid": 3, "fmspc": 4}[k]
				val := map[string][]byte{"ppid": base.PPID, "pceid": base.PCEID, "fmspc": base.FMSPC}[k]
				rebuilt = world.DERSeq(oid(sub), world.DEROctet(val), world.DER(0x05))
			}
			_ = inner
			it[i] = rebuilt
			add("trailing/inside-"+k, base, world.DERSeq(it...), wantErrorOrExact)
			// the extra member is itself an OCTET STRING — of the field's own size (other content) and of another size
			if k == "ppid" || k == "pceid" || k == "fmspc" {
				sub := map[string]int{"ppid": 1, "pceid": 3, "fmspc": 4}[k]
				val := map[string][]byte{"ppid": base.PPID, "pceid": base.PCEID, "fmspc": base.FMSPC}[k]
				for _, extra := range [][]byte{bytes.Repeat([]byte{0x5c}, len(val)), bytes.Repeat([]byte{0x5c}, len(val)+1), {}} {
					it3 := append([][]byte(nil), items...)
					it3[i] = world.DERSeq(oid(sub), world.DEROctet(val), world.DEROctet(extra))
					add(fmt.Sprintf("trailing/octet-string-len%d-after-%s", len(extra), k), base, world.DERSeq(it3...), wantErrorOrExact)
					it4 := append([][]byte(nil), items...)
					it4[i] = world.DERSeq(oid(sub), world.DER(0x01, []byte{0xff}), world.DEROctet(val), world.DEROctet(extra))
					add(fmt.Sprintf("trailing/critical+octet-string-len%d-after-%s", len(extra), k), base, world.DERSeq(it4...), wantErrorOrExact)
				}
			}
			// a value that is too short, with further members in the element that make up exactly the missing bytes
			// (the element as a whole has the length of a well-formed one): a wrongly sized value is an error
			if k == "ppid" || k == "pceid" || k == "fmspc" {
				sub := map[string]int{"ppid": 1, "pceid": 3, "fmspc": 4}[k]
				val := map[string][]byte{"ppid": base.PPID, "pceid": base.PCEID, "fmspc": base.FMSPC}[k]
				for short := 2; short <= len(val); short++ {
					v := val[:len(val)-short]
					fillers := map[string][]byte{
						"integer":      world.DER(0x02, bytes.Repeat([]byte{0x11}, short-2)),
						"octet-string": world.DEROctet(bytes.Repeat([]byte{0x22}, short-2)),
					}
					if short == 2 {
						fillers = map[string][]byte{"null": world.DER(0x05)}
					}
					if short == 3 {
						fillers["boolean"] = world.DER(0x01, []byte{0xff})
					}
					if short >= 4 {
						fillers["integer+null"] = append(world.DER(0x02, bytes.Repeat([]byte{0x11}, short-4)), world.DER(0x05)...)
					}
					for fname, f := range fillers {
						it5 := append([][]byte(nil), items...)
						it5[i] = world.DERSeq(oid(sub), world.DEROctet(v), f)
						add(fmt.Sprintf("compensated/%s-short-by-%d+%s-after", k, short, fname), base, world.DERSeq(it5...), wantError)
						it6 := append([][]byte(nil), items...)
						it6[i] = world.DERSeq(oid(sub), f, world.DEROctet(v))
						add(fmt.Sprintf("compensated/%s-short-by-%d+%s-before", k, short, fname), base, world.DERSeq(it6...), wantError)
					}
				}
			}
			// raw garbage after the element inside the outer sequence
			it2 := append([][]byte(nil), items...)
			it2[i] = append(append([]byte(nil), items[i]...), 0x00)
			add("trailing/garbage-after-"+k, base, world.DERSeq(it2...), wantError)
		}
		t := append([][]byte(nil), tcb...)
		t[3] = world.DERSeq(oid(2, 4), world.DERInt64(int64(base.CPUSVN[3])), world.DER(0x05))
		add("trailing/inside-tcb-component", base, assemble(base, stdOrder, t, top), wantErrorOrExact)
		add("trailing/tcb-19-elements", base, assemble(base, stdOrder, append(append([][]byte(nil), tcb...), tcb[0]), top), wantErrorOrExact)
	}
	// unknown members whose final arc is a known member's arc plus a multiple of 256 / 65536 / 2^32 (an identifier is
	// all of its arcs at full width), placed before and after the genuine members, holding a value of the known shape
	for _, big := range []int{256, 512, 65536, 1 << 32} {
		for arc := 1; arc <= 4; arc++ {
			val := [][]byte{nil, world.DEROctet(bytes.Repeat([]byte{0xde}, 16)), world.SGXTcbElem(tcb)[0:0], world.DEROctet([]byte{0xbe, 0xef}), world.DEROctet(bytes.Repeat([]byte{0xad}, 6))}[arc]
			if arc == 2 {
				// a TCB-shaped SEQUENCE with zeroed SVNs
				zeroPlat := base
				zeroPlat.CPUSVN, zeroPlat.PCESVN = [16]byte{}, 0
				_, ztcb := world.SGXElems(zeroPlat)
				full := world.SGXTcbElem(ztcb) // SEQUENCE { OID tcb, SEQUENCE {...} }: take its value part below
				val = full
			}
			var member []byte
			if arc == 2 {
				// re-label the whole TCB element with the large arc
				inner := val[2:]
				if val[1]&0x80 != 0 {
					inner = val[2+int(val[1]&0x7f):]
				}
				// inner = OID TLV || value TLV ; replace the OID TLV
				oidLen := 2 + int(inner[1])
				member = world.DERSeq(world.DEROID([]int{1, 2, 840, 113741, 1, 13, 1, big + arc}), inner[oidLen:])
			} else {
				member = world.DERSeq(world.DEROID([]int{1, 2, 840, 113741, 1, 13, 1, big + arc}), val)
			}
			for _, where := range []string{"after", "before"} {
				var seq [][]byte
				if where == "before" {
					seq = append(seq, member)
				}
				for _, k := range stdOrder {
					if k == "tcb" {
						seq = append(seq, world.SGXTcbElem(tcb))
					} else {
						seq = append(seq, top[k])
					}
				}
				if where == "after" {
					seq = append(seq, member)
				}
				want := wantExact
				if big >= 1<<31 {
					want = wantErrorOrExact // Go's decoder refuses arcs beyond 31 bits: an error is acceptable there
				}
				add(fmt.Sprintf("large-arc/1.13.1.%d-%s", big+arc, where), base, world.DERSeq(seq...), want)
			}
		}
	}
	// other but equivalent length encodings (BER long forms where DER wants the short form), one node at a time:
	// every node of the extension re-encoded with a 0x81 / 0x82 length; and INTEGER values with a superfluous
	// leading zero octet. A strict decoder refuses them; one that accepts must still give the encoded values
	{
		std := world.SGXExtension(base)
		nodes := 0
		c13Reencode(std, -1, 0, &nodes)
		for k := 0; k < nodes; k++ {
			for _, form := range []int{1, 2, 3} {
				n := 0
				add(fmt.Sprintf("length-form/node%d/%s", k, []string{"", "0x81", "0x82", "integer-leading-zero"}[form]), base, c13Reencode(std, k, form, &n), wantErrorOrExact)
			}
		}
	}
	// removed elements
	for i, k := range stdOrder {
		var order []string
		for j, kk := range stdOrder {
			if j != i {
				order = append(order, kk)
			}
		}
		c := c13case{id: "removed/" + k, exts: sixExts(assemble(base, order, tcb, top)), plat: base, want: wantErrorOrPartial, absent: map[string]bool{k: true}}
		cases = append(cases, c)
	}
	for i := 0; i < 18; i++ {
		t := append(append([][]byte(nil), tcb[:i]...), tcb[i+1:]...)
		add(fmt.Sprintf("removed/tcb%d", i+1), base, assemble(base, stdOrder, t, top), wantError)
		// replaced by a duplicate of a neighbour: 18 elements but one missing
		t2 := append([][]byte(nil), tcb...)
		t2[i] = tcb[(i+1)%16]
		cases = append(cases, c13case{id: fmt.Sprintf("removed/tcb%d-replaced-by-duplicate", i+1), exts: sixExts(assemble(base, stdOrder, t2, top)), plat: base, want: wantErrorOrPartial, absent: map[string]bool{fmt.Sprintf("tcb%d", i+1): true}})
	}
	// position of the SGX extension among the certificate's six extensions, and a look-alike value under another
	// object identifier placed last (the extension is found by its identifier, not by its position)
	{
		e := sixExts(good)
		for pos := 0; pos < 6; pos++ {
			var re []pkix.Extension
			re = append(re, e[:5][:pos]...)
			re = append(re, e[5])
			re = append(re, e[:5][pos:]...)
			cases = append(cases, c13case{id: fmt.Sprintf("cert/sgx-at-position-%d", pos), exts: re, plat: base, want: wantExact})
		}
		other := platWith(func(p *world.Platform) {
			p.FMSPC = []byte{0x50, 0x80, 0x6f, 0, 0, 0}
			p.PCESVN = 11
			p.PPID = world.Fill("decoy-ppid", 16)
			p.PCEID = []byte{0xff, 0xee}
		})
		for pos := 0; pos < 5; pos++ {
			// six extensions: four standard ones with the real SGX extension inserted at pos, the look-alike last
			var six []pkix.Extension
			six = append(six, e[:4]...)
			six = append(six[:pos:pos], append([]pkix.Extension{e[5]}, six[pos:]...)...)
			six = append(six, pkix.Extension{Id: asn1.ObjectIdentifier{1, 2, 840, 113741, 1, 13, 2}, Value: world.SGXExtension(other)})
			cases = append(cases, c13case{id: fmt.Sprintf("cert/sgx-at-position-%d+decoy-last", pos), exts: six, plat: base, want: wantExact})
		}
	}
	// certificate-level
	{
		e := sixExts(good)
		cases = append(cases, c13case{id: "cert/no-sgx-extension", exts: append(e[:5:5], pkix.Extension{Id: asn1.ObjectIdentifier{2, 5, 29, 37}, Value: []byte{0x30, 0}}), plat: base, want: wantError})
		cases = append(cases, c13case{id: "cert/no-extensions", exts: nil, plat: base, want: wantError})
		cases = append(cases, c13case{id: "cert/five-without-sgx", exts: e[:5:5], plat: base, want: wantError})
		cases = append(cases, c13case{id: "cert/five-with-sgx", exts: e[1:], plat: base, want: wantErrorOrExact})
		cases = append(cases, c13case{id: "cert/seven-with-sgx", exts: append(append([]pkix.Extension{}, e...), pkix.Extension{Id: asn1.ObjectIdentifier{2, 5, 29, 37}, Value: []byte{0x30, 0}}), plat: base, want: wantErrorOrExact})
		cases = append(cases, c13case{id: "cert/sgx-empty-value", exts: sixExts([]byte{}), plat: base, want: wantError})
		cases = append(cases, c13case{id: "cert/sgx-not-sequence", exts: sixExts(world.DEROctet(good)), plat: base, want: wantError})
	}
	// every truncation of the valid DER is malformed
	for n := 0; n < len(good); n++ {
		add(fmt.Sprintf("bad/trunc/%d", n), base, good[:n:n], wantError)
	}

	done := r.Parallel(len(cases), func(i int) {
		c := cases[i]
		if !r.Want(c.id) {
			return
		}
		var got *pcs.PckExtensions
		var err error
		func() {
			defer world.Recover(&err)
			got, err = pcs.PckCertificateExtensions(&x509.Certificate{Extensions: c.exts})
		}()
		out := c13Judge(r, c, got, err)
		r.Eval(c.id, true, kindOf(c.id)+":"+out)
	})
	r.SectionDone(mc.Section{Name: "extension-cases", Evaluations: int64(done), Exhaustive: done == len(cases)})

	// all byte contents: every value of the two-byte PCE-ID, and every value of the first two bytes of
	// FMSPC and PPID (contents that happen to read as a DER header must come back unchanged)
	walk := func(name string, set func(p *world.Platform, hi, lo byte)) {
		done := r.Parallel(1<<16, func(v int) {
			id := fmt.Sprintf("bytes/%s=%04x", name, v)
			if !r.Want(id) {
				return
			}
			p := platWith(func(p *world.Platform) { set(p, byte(v>>8), byte(v)) })
			c := c13case{id: id, exts: sixExts(world.SGXExtension(p)), plat: p, want: wantExact}
			var got *pcs.PckExtensions
			var err error
			func() {
				defer world.Recover(&err)
				got, err = pcs.PckCertificateExtensions(&x509.Certificate{Extensions: c.exts})
			}()
			r.Eval(id, true, "bytes:"+c13Judge(r, c, got, err))
		})
		r.SectionDone(mc.Section{Name: "byte-contents/" + name, Evaluations: int64(done), Exhaustive: done == 1<<16})
	}
	walk("pceid", func(p *world.Platform, hi, lo byte) { p.PCEID = []byte{hi, lo} })
	walk("fmspc[0:2]", func(p *world.Platform, hi, lo byte) { p.FMSPC[0], p.FMSPC[1] = hi, lo })
	walk("ppid[0:2]", func(p *world.Platform, hi, lo byte) { p.PPID[0], p.PPID[1] = hi, lo })

	// FMSPC visible in the TCB-Info URL: issue real leaves and watch the fetch.
	pki := world.CachedPKI("T")
	for _, f := range [][]byte{{0, 0, 0, 0, 0, 0}, {0xff, 0xee, 0xdd, 0xcc, 0xbb, 0xaa}, {0x00, 0x90, 0x6e, 0xd5, 0x00, 0x00}, {0x80, 0, 0, 0, 0, 1}} {
		f := f
		id := "url/fmspc=" + hexs(f)
		if !r.Want(id) {
			continue
		}
		w := world.Honest("T")
		w.Plat.FMSPC = f
		w.PKI = pki.WithLeaf(w.Plat)
		w.Spec.PKI = w.PKI
		w.Parts = w.Spec.Parts()
		w.TcbInfo = world.DefaultTcbInfo(w.Plat, w.Parts.Body[0:16])
		w.Finish()
		err := w.Verify(world.L1)
		want := world.URLTcbInfo(hexs(f))
		okURL := len(w.Getter.Log) > 0 && (w.Getter.Log[0] == want)
		if !okURL && !world.IsPanic(err) {
			r.Violate("url:fmspc", id, fmt.Sprintf("TCB-Info request does not name the certificate's FMSPC: requested %v, want %s", w.Getter.Log, want), nil)
		}
		r.Eval(id, true, fmt.Sprintf("url:%v/%s", okURL, verdict(err)))
	}
}

func c13Judge(r *mc.Run, c c13case, got *pcs.PckExtensions, err error) string {
	if world.IsPanic(err) {
		r.Violate("panic:"+crashSite(err), c.id, "PckCertificateExtensions crashes: "+errStr(err), nil)
		return "panic"
	}
	exact := func(partial bool) (bool, string) {
		if got == nil {
			return false, "nil result"
		}
		p := c.plat
		chk := func(name string, ok bool, absentOK bool) string {
			if ok || (partial && c.absent[name] && absentOK) {
				return ""
			}
			return name
		}
		var bad []string
		appendIf := func(s string) {
			if s != "" {
				bad = append(bad, s)
			}
		}
		appendIf(chk("ppid", got.PPID == hexs(p.PPID), got.PPID == ""))
		appendIf(chk("pceid", got.PCEID == hexs(p.PCEID), got.PCEID == ""))
		appendIf(chk("fmspc", got.FMSPC == hexs(p.FMSPC), got.FMSPC == ""))
		tcbAbsent := partial && c.absent["tcb"]
		if tcbAbsent {
			if got.TCB.PCESvn != 0 || len(got.TCB.CPUSvn) != 0 || !allZero(got.TCB.CPUSvnComponents) {
				bad = append(bad, "tcb-not-zero")
			}
		} else {
			for i := 0; i < 16; i++ {
				name := fmt.Sprintf("tcb%d", i+1)
				okv := len(got.TCB.CPUSvnComponents) == 16 && got.TCB.CPUSvnComponents[i] == p.CPUSVN[i]
				zero := len(got.TCB.CPUSvnComponents) == 16 && got.TCB.CPUSvnComponents[i] == 0
				appendIf(chk(name, okv, zero))
			}
			appendIf(chk("tcb17", got.TCB.PCESvn == p.PCESVN, got.TCB.PCESvn == 0))
			appendIf(chk("tcb18", bytes.Equal(got.TCB.CPUSvn, p.Blob()), len(got.TCB.CPUSvn) == 0))
		}
		if len(bad) > 0 {
			return false, fmt.Sprint(bad)
		}
		return true, ""
	}
	switch c.want {
	case wantExact:
		if err != nil {
			r.Violate("rejects-valid:"+kindOf(c.id), c.id, "extraction fails on a well-formed SGX extension: "+errStr(err), map[string]any{"sgx_extension_hex": sgxHex(c)})
			return "error!"
		}
		if ok, why := exact(false); !ok {
			r.Violate("wrong-value:"+kindOf(c.id), c.id, "extraction returns values that differ from what the extension encodes: "+why, map[string]any{"sgx_extension_hex": sgxHex(c), "got": fmt.Sprintf("%+v", got)})
			return "wrong"
		}
		return "exact"
	case wantError:
		if err == nil {
			r.Violate("accepts-malformed:"+malKind(c.id), c.id, "extraction succeeds on a malformed extension / value that does not fit its field", map[string]any{"sgx_extension_hex": sgxHex(c), "got": fmt.Sprintf("%+v", got)})
			return "ok!"
		}
		return "error"
	case wantErrorOrExact, wantErrorOrPartial:
		if err != nil {
			return "error"
		}
		if ok, why := exact(c.want == wantErrorOrPartial); !ok {
			r.Violate("silently-wrong:"+kindOf(c.id), c.id, "extraction succeeds with a value that is not the encoded one: "+why, map[string]any{"sgx_extension_hex": sgxHex(c), "got": fmt.Sprintf("%+v", got)})
			return "wrong"
		}
		return "tolerated-exact"
	}
	return "?"
}

func malKind(id string) string {
	// "bad/int/tcb3=256" -> "bad/int"
	n := 0
	for i := 0; i < len(id); i++ {
		if id[i] == '/' {
			n++
			if n == 2 {
				return id[:i]
			}
		}
	}
	return id
}

func allZero(b []byte) bool {
	for _, v := range b {
		if v != 0 {
			return false
		}
	}
	return true
}

func sgxHex(c c13case) string {
	for _, e := range c.exts {
		if e.Id.Equal(world.OidSGX) {
			return hexs(e.Value)
		}
	}
	return ""
}

// c13Reencode walks the TLV tree of b (single-octet tags, definite lengths) and re-emits it with node `target`
// (pre-order index) using another length form: 1 = 0x81 L, 2 = 0x82 00 L (when L < 256), 3 = (INTEGER only) a
// superfluous leading zero octet in the value. counter receives the number of nodes.
func c13Reencode(b []byte, target, form int, counter *int) []byte {
	var out []byte
	for len(b) >= 2 {
		tag := b[0]
		l, hdr := int(b[1]), 2
		if b[1]&0x80 != 0 {
			n := int(b[1] & 0x7f)
			if n == 0 || n > 3 || len(b) < 2+n {
				return append(out, b...)
			}
			l = 0
			for _, x := range b[2 : 2+n] {
				l = l<<8 | int(x)
			}
			hdr = 2 + n
		}
		if hdr+l > len(b) {
			return append(out, b...)
		}
		content := b[hdr : hdr+l]
		idx := *counter
		*counter++
		if tag&0x20 != 0 {
			content = c13Reencode(content, target, form, counter)
		}
		if idx == target && form == 3 && tag == 0x02 {
			content = append([]byte{0}, content...)
		}
		out = append(out, tag)
		L := len(content)
		switch {
		case idx == target && form == 1 && L < 256:
			out = append(out, 0x81, byte(L))
		case idx == target && form == 2 && L < 65536:
			out = append(out, 0x82, byte(L>>8), byte(L))
		case L < 128:
			out = append(out, byte(L))
		case L < 256:
			out = append(out, 0x81, byte(L))
		default:
			out = append(out, 0x82, byte(L>>8), byte(L))
		}
		out = append(out, content...)
		b = b[hdr+l:]
	}
	return append(out, b...)
}
