package checks

import (
	"bytes"
	"crypto/x509"
	"crypto/x509/pkix"
	"encoding/asn1"
	"fmt"
	"math/big"
	"os"
	"path/filepath"
	"strings"
	"time"

	ccpb "github.com/google/go-tdx-guest/proto/checkconfig"
	"github.com/google/go-tdx-guest/testing/testdata"
	"github.com/google/go-tdx-guest/verify"

	"verifharness/mc"
	"verifharness/ref"
	"verifharness/world"
)

func init() {
	mc.Register(&mc.Check{ID: "C02", Category: "exploration",
		Rule:   "Engine A over worlds (quote PKI in {T,F}) x (trusted pool in {{T}, nil=embedded Intel root, {F}, {T,F}, empty, {unrelated}}) x look-alike substitution at each chain position x role-confusion chains x per-certificate deviations x chain assembly (order, block count, block types, trailing bytes) within the deviation bound, each at the tier's checking levels; plus every root-of-trust configuration (nil, files, inline, mixed, empty, non-PEM, other PEM type, cert+garbage, missing file) against quotes under T and F, plus Intel's sample quote; plus every fixed-length sequence of {set TrustedRoots to one of 5 pools, copy the options by value, verify one of 3 quotes} on ONE shared options value. Non-trivial: >= 1 deviation or a configuration case; distinct by decision vector",
		Assume: append([]string{"mechanism-only deviations (e.g. ECDSA-SHA384 certificates) have no stated verdict and are only checked for no-panic"}, cryptoAssume...),
		Run:    runC02})
}

var intelRefTime = time.Date(2023, time.July, 1, 1, 0, 0, 0, time.UTC)

type roleChain struct {
	name  string
	certs func(p *world.PKI, fab map[string]*x509.Certificate) []*x509.Certificate
	qeKey func(p *world.PKI) *world.Key
}

func c02Fabricated(p *world.PKI) map[string]*x509.Certificate {
	plat := world.DefaultPlatform()
	sgx := world.SGXExtension(plat)
	fk := world.NewKey(p.Name + "/fabricated-leaf")
	return map[string]*x509.Certificate{
		// PCK-named certificate issued directly by the root
		"leaf-by-root": world.MakeCert(world.CertSpec{CN: world.CNLeaf, Key: fk, SGXExt: sgx}, p.Root, p.RootKey),
		// PCK-named certificate issued by the genuine PCK leaf acting as a CA
		"leaf-by-leaf": world.MakeCert(world.CertSpec{CN: world.CNLeaf, Key: fk, SGXExt: sgx}, p.Leaf, p.LeafKey),
		// PCK-named certificate issued by the TCB signing certificate
		"leaf-by-tcb": world.MakeCert(world.CertSpec{CN: world.CNLeaf, Key: fk, SGXExt: sgx}, p.Tcb, p.TcbKey),
		// TCB-role certificate that happens to carry an SGX extension
		"tcb-with-sgx": world.MakeCert(world.CertSpec{CN: world.CNTcb, Key: fk, SGXExt: sgx}, p.Inter, p.InterKey),
		// a second CA under the root with the platform name but not a CA certificate
		"nonca-inter": world.MakeCert(world.CertSpec{CN: world.CNPlatform, Key: world.NewKey(p.Name + "/nonca"), IsCA: false}, p.Root, p.RootKey),
	}
}

func c02RoleChains() []roleChain {
	fabKey := func(p *world.PKI) *world.Key { return world.NewKey(p.Name + "/fabricated-leaf") }
	C := func(cs ...*x509.Certificate) []*x509.Certificate { return cs }
	return []roleChain{
		{"leaf:=tcb-cert", func(p *world.PKI, _ map[string]*x509.Certificate) []*x509.Certificate {
			return C(p.Tcb, p.Inter, p.Root)
		}, func(p *world.PKI) *world.Key { return p.TcbKey }},
		{"leaf:=tcb-cert,inter:=root", func(p *world.PKI, _ map[string]*x509.Certificate) []*x509.Certificate {
			return C(p.Tcb, p.Root, p.Root)
		}, func(p *world.PKI) *world.Key { return p.TcbKey }},
		{"leaf:=intermediate", func(p *world.PKI, _ map[string]*x509.Certificate) []*x509.Certificate {
			return C(p.Inter, p.Inter, p.Root)
		}, func(p *world.PKI) *world.Key { return p.InterKey }},
		{"leaf:=intermediate,inter:=root", func(p *world.PKI, _ map[string]*x509.Certificate) []*x509.Certificate {
			return C(p.Inter, p.Root, p.Root)
		}, func(p *world.PKI) *world.Key { return p.InterKey }},
		{"leaf:=root", func(p *world.PKI, _ map[string]*x509.Certificate) []*x509.Certificate {
			return C(p.Root, p.Inter, p.Root)
		}, func(p *world.PKI) *world.Key { return p.RootKey }},
		{"leaf:=root,inter:=root", func(p *world.PKI, _ map[string]*x509.Certificate) []*x509.Certificate {
			return C(p.Root, p.Root, p.Root)
		}, func(p *world.PKI) *world.Key { return p.RootKey }},
		{"inter:=root", func(p *world.PKI, _ map[string]*x509.Certificate) []*x509.Certificate {
			return C(p.Leaf, p.Root, p.Root)
		}, func(p *world.PKI) *world.Key { return p.LeafKey }},
		{"inter:=tcb-cert", func(p *world.PKI, _ map[string]*x509.Certificate) []*x509.Certificate {
			return C(p.Leaf, p.Tcb, p.Root)
		}, func(p *world.PKI) *world.Key { return p.LeafKey }},
		{"root:=intermediate", func(p *world.PKI, _ map[string]*x509.Certificate) []*x509.Certificate {
			return C(p.Leaf, p.Inter, p.Inter)
		}, func(p *world.PKI) *world.Key { return p.LeafKey }},
		{"pck-named-leaf-issued-by-root", func(p *world.PKI, f map[string]*x509.Certificate) []*x509.Certificate {
			return C(f["leaf-by-root"], p.Inter, p.Root)
		}, fabKey},
		{"pck-named-leaf-issued-by-root,inter:=root", func(p *world.PKI, f map[string]*x509.Certificate) []*x509.Certificate {
			return C(f["leaf-by-root"], p.Root, p.Root)
		}, fabKey},
		{"pck-leaf-used-as-ca", func(p *world.PKI, f map[string]*x509.Certificate) []*x509.Certificate {
			return C(f["leaf-by-leaf"], p.Leaf, p.Root)
		}, fabKey},
		{"pck-leaf-used-as-ca,inter-kept", func(p *world.PKI, f map[string]*x509.Certificate) []*x509.Certificate {
			return C(f["leaf-by-leaf"], p.Inter, p.Root)
		}, fabKey},
		{"tcb-cert-used-as-ca", func(p *world.PKI, f map[string]*x509.Certificate) []*x509.Certificate {
			return C(f["leaf-by-tcb"], p.Tcb, p.Root)
		}, fabKey},
		{"tcb-role-leaf-with-sgx-ext", func(p *world.PKI, f map[string]*x509.Certificate) []*x509.Certificate {
			return C(f["tcb-with-sgx"], p.Inter, p.Root)
		}, fabKey},
		{"non-ca-intermediate", func(p *world.PKI, f map[string]*x509.Certificate) []*x509.Certificate {
			nk := world.NewKey(p.Name + "/nonca")
			l := world.MakeCert(world.CertSpec{CN: world.CNLeaf, Key: p.LeafKey, SGXExt: world.SGXExtension(world.DefaultPlatform())}, f["nonca-inter"], nk)
			return C(l, f["nonca-inter"], p.Root)
		}, func(p *world.PKI) *world.Key { return p.LeafKey }},
	}
}

// c02CertDeviation re-issues the certificate at position pos with one defect.
type certDev struct {
	name      string
	statement bool // breaks the statement (must reject when it makes TrustCond false); false = mechanism only
	apply     func(p *world.PKI, pos int) []*x509.Certificate
}

func c02CertDevs() []certDev {
	plat := world.DefaultPlatform()
	foreign := world.NewKey("c02/foreign-signer")
	reissue := func(p *world.PKI, pos int, mod func(s *world.CertSpec, parent **x509.Certificate, signer **world.Key)) []*x509.Certificate {
		specs := []world.CertSpec{
			{CN: world.CNLeaf, Key: p.LeafKey, SGXExt: world.SGXExtension(plat)},
			{CN: world.CNPlatform, IsCA: true, Key: p.InterKey, MaxPathLen: -1},
			{CN: world.CNRoot, IsCA: true, Key: p.RootKey, MaxPathLen: 1},
		}
		parents := []*x509.Certificate{p.Inter, p.Root, nil}
		signers := []*world.Key{p.InterKey, p.RootKey, p.RootKey}
		s, par, sg := specs[pos], parents[pos], signers[pos]
		mod(&s, &par, &sg)
		c := world.MakeCert(s, par, sg)
		out := []*x509.Certificate{p.Leaf, p.Inter, p.Root}
		out[pos] = c
		return out
	}
	other := pkix.Name{CommonName: "Intel SGX Root CA", Organization: []string{"Intel Corp"}, Country: []string{"US"}}
	return []certDev{
		{"wrong-cn", true, func(p *world.PKI, pos int) []*x509.Certificate {
			return reissue(p, pos, func(s *world.CertSpec, _ **x509.Certificate, _ **world.Key) { s.CN = s.CN + " 2" })
		}},
		{"cn-other-capitalisation", true, func(p *world.PKI, pos int) []*x509.Certificate {
			return reissue(p, pos, func(s *world.CertSpec, _ **x509.Certificate, _ **world.Key) { s.CN = strings.ToUpper(s.CN) })
		}},
		{"cn-other-spacing", true, func(p *world.PKI, pos int) []*x509.Certificate {
			return reissue(p, pos, func(s *world.CertSpec, _ **x509.Certificate, _ **world.Key) {
				s.CN = " " + strings.Replace(s.CN, " ", "  ", 1)
			})
		}},
		// two common-name attributes: the role's name first, another role's name last (the last one is the
		// certificate's common name; a match on any CN attribute lets the other-role certificate through)
		{"two-cn-attributes:role-first", true, func(p *world.PKI, pos int) []*x509.Certificate {
			return reissue(p, pos, func(s *world.CertSpec, _ **x509.Certificate, _ **world.Key) {
				n := world.IntelName("")
				n.ExtraNames = []pkix.AttributeTypeAndValue{{Type: asn1.ObjectIdentifier{2, 5, 4, 3}, Value: s.CN}, {Type: asn1.ObjectIdentifier{2, 5, 4, 3}, Value: world.CNTcb}}
				s.Name = &n
			})
		}},
		{"cn-of-other-role", true, func(p *world.PKI, pos int) []*x509.Certificate {
			return reissue(p, pos, func(s *world.CertSpec, _ **x509.Certificate, _ **world.Key) {
				s.CN = []string{world.CNTcb, world.CNProcessor, world.CNPlatform}[pos]
			})
		}},
		{"issuer-dn-differs", true, func(p *world.PKI, pos int) []*x509.Certificate {
			return reissue(p, pos, func(s *world.CertSpec, _ **x509.Certificate, _ **world.Key) { s.IssuerName = &other })
		}},
		{"signed-by-foreign-key", true, func(p *world.PKI, pos int) []*x509.Certificate {
			return reissue(p, pos, func(s *world.CertSpec, _ **x509.Certificate, sg **world.Key) { *sg = foreign })
		}},
		{"signed-by-own-key", true, func(p *world.PKI, pos int) []*x509.Certificate {
			return reissue(p, pos, func(s *world.CertSpec, _ **x509.Certificate, sg **world.Key) { *sg = s.Key })
		}},
		{"ecdsa-sha384", false, func(p *world.PKI, pos int) []*x509.Certificate {
			return reissue(p, pos, func(s *world.CertSpec, _ **x509.Certificate, _ **world.Key) { s.SigAlg = x509.ECDSAWithSHA384 })
		}},
		{"no-sgx-extension", false, func(p *world.PKI, pos int) []*x509.Certificate {
			return reissue(p, pos, func(s *world.CertSpec, _ **x509.Certificate, _ **world.Key) { s.NoSGXExt = true })
		}},
		// issued by the right CA under the right name, but restricted by its issuer to an unrelated purpose
		{"eku-code-signing", true, func(p *world.PKI, pos int) []*x509.Certificate {
			return reissue(p, pos, func(s *world.CertSpec, _ **x509.Certificate, _ **world.Key) {
				s.ExtKeyUsage = []x509.ExtKeyUsage{x509.ExtKeyUsageCodeSigning}
				if pos == 0 {
					s.NoCRLDP = true // the PCK extension reader insists on exactly six extensions
				}
			})
		}},
		{"eku-ocsp+timestamping", true, func(p *world.PKI, pos int) []*x509.Certificate {
			return reissue(p, pos, func(s *world.CertSpec, _ **x509.Certificate, _ **world.Key) {
				s.ExtKeyUsage = []x509.ExtKeyUsage{x509.ExtKeyUsageOCSPSigning, x509.ExtKeyUsageTimeStamping}
				if pos == 0 {
					s.NoCRLDP = true
				}
			})
		}},
		// outside its validity period at the verification time: a validity error must not stand in for the
		// (missing) link to the trusted roots, so the trust condition is judged as usual
		{"not-yet-valid", true, func(p *world.PKI, pos int) []*x509.Certificate {
			return reissue(p, pos, func(s *world.CertSpec, _ **x509.Certificate, _ **world.Key) {
				s.NotBefore, s.NotAfter = world.T0.AddDate(0, 0, 1), world.T0.AddDate(10, 0, 0)
			})
		}},
		{"expired", true, func(p *world.PKI, pos int) []*x509.Certificate {
			return reissue(p, pos, func(s *world.CertSpec, _ **x509.Certificate, _ **world.Key) {
				s.NotBefore, s.NotAfter = world.T0.AddDate(-10, 0, 0), world.T0.AddDate(0, 0, -1)
			})
		}},
	}
}

func runC02(r *mc.Run) {
	T, F := world.CachedPKI("T"), world.CachedPKI("F")
	U := world.CachedPKI("U")
	pkis := []*world.PKI{T, F}
	fabs := []map[string]*x509.Certificate{c02Fabricated(T), c02Fabricated(F)}
	roles := c02RoleChains()
	devs := c02CertDevs()
	intelRoot := embeddedIntelRoot()
	pools := []struct {
		name string
		pool *x509.CertPool
		eff  []*x509.Certificate
	}{
		{"{T}", world.Pool(T.Root), []*x509.Certificate{T.Root}},
		{"nil(embedded)", nil, intelRoot},
		{"{F}", world.Pool(F.Root), []*x509.Certificate{F.Root}},
		{"{T,F}", world.Pool(T.Root, F.Root), []*x509.Certificate{T.Root, F.Root}},
		{"empty", world.Pool(), nil},
		{"{unrelated}", world.Pool(U.Root), []*x509.Certificate{U.Root}},
		{"{T.inter-as-root-is-not-listed: T.tcb}", world.Pool(T.Tcb), []*x509.Certificate{T.Tcb}},
	}
	// large pools: 100 unrelated roots with and without T among them, and 20 roots that share T's root name
	// (other keys) listed before T's root
	var manyU, manyUT, sameName []*x509.Certificate
	for i := 0; i < 100; i++ {
		k := world.NewKey(fmt.Sprintf("c02-many-root-%d", i))
		cert := world.MakeCert(world.CertSpec{CN: fmt.Sprintf("Unrelated Root CA %d", i), IsCA: true, Key: k, MaxPathLen: 1}, nil, k)
		manyU = append(manyU, cert)
		manyUT = append(manyUT, cert)
		if i == 57 {
			manyUT = append(manyUT, T.Root)
		}
	}
	for i := 0; i < 20; i++ {
		k := world.NewKey(fmt.Sprintf("c02-same-name-root-%d", i))
		sameName = append(sameName, world.MakeCert(world.CertSpec{CN: world.CNRoot, IsCA: true, Key: k, MaxPathLen: 1}, nil, k))
	}
	sameName = append(sameName, T.Root)
	pools = append(pools, struct {
		name string
		pool *x509.CertPool
		eff  []*x509.Certificate
	}{"{100 unrelated + T}", world.Pool(manyUT...), manyUT}, struct {
		name string
		pool *x509.CertPool
		eff  []*x509.Certificate
	}{"{100 unrelated}", world.Pool(manyU...), manyU}, struct {
		name string
		pool *x509.CertPool
		eff  []*x509.Certificate
	}{"{20 roots named like T's, then T}", world.Pool(sameName...), sameName})
	perms := permutations(3)
	type pass struct {
		name  string
		bound int
		lv    []int
	}
	passes := []pass{{"trust-worlds/L0", 3, []int{world.L0}}, {"trust-worlds/L2", 2, []int{world.L2}}}
	if r.Thorough() {
		passes = []pass{{"trust-worlds/L0-L2", 3, []int{world.L0, world.L1, world.L2}}, {"trust-worlds/L0-deep", 4, []int{world.L0}}}
	}
	baseW := []*world.World{world.Honest("T"), world.Honest("F")}

	for _, ps := range passes {
		lv := ps.lv
		r.Explore(ps.name, ps.bound, func(c *mc.Ctx) {
			qi := c.Choose("quotepki", 2)
			pi := c.Choose("pool", len(pools))
			subLeaf := c.Choose("sub-leaf", 2)
			subInter := c.Choose("sub-inter", 2)
			subRoot := c.Choose("sub-root", 2)
			role := c.Choose("role", len(roles)+1)
			dev := c.Choose("certdev", len(devs)*3+1)
			order := c.Choose("order", len(perms))
			blocks := c.Choose("blocks", 7)
			li := c.Free("level", len(lv))
			id := "trust/" + lvlName[lv[li]] + "/" + c.ID()
			if !r.Want(id) {
				return
			}
			p, o := pkis[qi], pkis[1-qi]
			w := baseW[qi]
			certs := []*x509.Certificate{p.Leaf, p.Inter, p.Root}
			qeKey := p.LeafKey
			mechanismOnly := false
			if role > 0 {
				certs = roles[role-1].certs(p, fabs[qi])
				qeKey = roles[role-1].qeKey(p)
			}
			if dev > 0 {
				d := devs[(dev-1)/3]
				pos := (dev - 1) % 3
				if role == 0 {
					certs = d.apply(p, pos)
				} else {
					certs[pos] = d.apply(p, pos)[pos]
				}
				if !d.statement {
					mechanismOnly = true
				}
			}
			if subLeaf == 1 {
				certs[0] = o.Leaf
				qeKey = o.LeafKey
			}
			if subInter == 1 {
				certs[1] = o.Inter
			}
			if subRoot == 1 {
				certs[2] = o.Root
			}
			ordered := []*x509.Certificate{certs[perms[order][0]], certs[perms[order][1]], certs[perms[order][2]]}
			if order != 0 && perms[order][0] != 0 {
				// the QE report must be signed by whatever certificate now stands first, or link 3 (C01) would mask the trust decision
				qeKey = keyOfCert(ordered[0], T, F)
			}
			chain := world.PEM(ordered...)
			switch blocks {
			case 1: // two blocks
				chain = world.PEM(ordered[:2]...)
			case 2: // four blocks
				chain = world.PEM(append(ordered, p.Root)...)
			case 3: // first block has another type
				chain = append(world.PEMBlock("TRUSTED CERTIFICATE", ordered[0].Raw), world.PEM(ordered[1:]...)...)
			case 4: // trailing bytes other than one NUL
				chain = append(chain, 0, 0)
			case 5:
				chain = append(chain, []byte("x")...)
			case 6: // leading garbage before the first block
				chain = append([]byte("garbage\n"), chain...)
			}
			parts := w.Parts.Clone()
			parts.Chain = chain
			if qeKey != nil {
				parts.SignQE(qeKey)
			}
			raw, _ := parts.Bytes()
			opts := w.Options(lv[li])
			opts.TrustedRoots = pools[pi].pool
			err := verifyRawBoth(r, id, raw, opts)
			cond, why := ref.TrustCond(chain, pools[pi].eff)
			out := verdict(err)
			switch {
			case world.IsPanic(err):
				// C10's business
			case err == nil && !cond && !mechanismOnly:
				r.Violate(fmt.Sprintf("accepted-untrusted:pool=%s:%s", pools[pi].name, why), id,
					"quote accepted although "+why+" (pool "+pools[pi].name+")", map[string]any{"raw_quote_hex": hexs(raw)})
				out = "accept!"
			case err == nil && !cond:
				out = "accept(mechanism-only)"
			case c.Deviations() == 0 && err != nil:
				r.Violate("honest-rejected", id, "the honest baseline (quote under T, pool {T}) is rejected: "+errStr(err), nil)
				out = "reject!"
			}
			r.Eval(id, c.Deviations() > 0, fmt.Sprintf("cond=%v/%s", cond, out))
		})
	}

	// Root-of-trust configurations.
	dir, _ := os.MkdirTemp("", "verif-c02")
	defer os.RemoveAll(dir)
	wf := func(name string, b []byte) string {
		p := filepath.Join(dir, name)
		os.WriteFile(p, b, 0o600)
		return p
	}
	fT, fF := wf("T.pem", world.PEM(T.Root)), wf("F.pem", world.PEM(F.Root))
	fTF := wf("TF.pem", world.PEM(T.Root, F.Root))
	fGarb := wf("T-garbage.pem", append(world.PEM(T.Root), []byte("\n-----BEGIN CERTIFICATE-----\nnot base64!\n-----END CERTIFICATE-----\ntrailing")...))
	fText := wf("text.pem", []byte("this is not PEM"))
	fEmpty := wf("empty.pem", nil)
	fKey := wf("otherblock.pem", world.PEMBlock("PUBLIC KEY", T.Root.Raw))
	fInter := wf("T-inter-leaf.pem", world.PEM(T.Leaf))
	cfgs := []struct {
		name  string
		rot   *ccpb.RootOfTrust
		lists []bool // lists T, lists F
	}{
		{"none", &ccpb.RootOfTrust{}, []bool{false, false}},
		{"file-T", &ccpb.RootOfTrust{CabundlePaths: []string{fT}}, []bool{true, false}},
		{"file-F", &ccpb.RootOfTrust{CabundlePaths: []string{fF}}, []bool{false, true}},
		{"file-TF", &ccpb.RootOfTrust{CabundlePaths: []string{fTF}}, []bool{true, true}},
		{"files-T,F", &ccpb.RootOfTrust{CabundlePaths: []string{fT, fF}}, []bool{true, true}},
		{"inline-T", &ccpb.RootOfTrust{Cabundles: []string{string(world.PEM(T.Root))}}, []bool{true, false}},
		{"inline-F", &ccpb.RootOfTrust{Cabundles: []string{string(world.PEM(F.Root))}}, []bool{false, true}},
		{"mixed-fileT-inlineF", &ccpb.RootOfTrust{CabundlePaths: []string{fT}, Cabundles: []string{string(world.PEM(F.Root))}}, []bool{true, true}},
		{"mixed-fileF-inlineT", &ccpb.RootOfTrust{CabundlePaths: []string{fF}, Cabundles: []string{string(world.PEM(T.Root))}}, []bool{true, true}},
		{"inline-empty-string", &ccpb.RootOfTrust{Cabundles: []string{""}}, []bool{false, false}},
		{"inline-newline", &ccpb.RootOfTrust{Cabundles: []string{"\n"}}, []bool{false, false}},
		{"inline-blank+file-empty", &ccpb.RootOfTrust{Cabundles: []string{"  \n"}, CabundlePaths: []string{fEmpty}}, []bool{false, false}},
		{"inline-T+inline-empty", &ccpb.RootOfTrust{Cabundles: []string{string(world.PEM(T.Root)), ""}}, []bool{true, false}},
		{"inline-text", &ccpb.RootOfTrust{Cabundles: []string{"hello"}}, []bool{false, false}},
		{"inline-other-block-type", &ccpb.RootOfTrust{Cabundles: []string{string(world.PEMBlock("PUBLIC KEY", T.Root.Raw))}}, []bool{false, false}},
		{"file-text", &ccpb.RootOfTrust{CabundlePaths: []string{fText}}, []bool{false, false}},
		{"file-empty", &ccpb.RootOfTrust{CabundlePaths: []string{fEmpty}}, []bool{false, false}},
		{"file-other-block-type", &ccpb.RootOfTrust{CabundlePaths: []string{fKey}}, []bool{false, false}},
		{"file-T+garbage", &ccpb.RootOfTrust{CabundlePaths: []string{fGarb}}, []bool{true, false}},
		{"file-missing", &ccpb.RootOfTrust{CabundlePaths: []string{filepath.Join(dir, "missing.pem")}}, []bool{false, false}},
		{"file-T+file-missing", &ccpb.RootOfTrust{CabundlePaths: []string{fT, filepath.Join(dir, "missing.pem")}}, []bool{true, false}},
		// listing the PCK leaf itself as an anchor: whether a quote carrying that leaf is then "trusted" is not
		// settled by the statement (the configuration does list that certificate) -> no-panic only
		{"file-leaf-only", &ccpb.RootOfTrust{CabundlePaths: []string{fInter}}, nil},
		{"file-T,get-collateral+crl", &ccpb.RootOfTrust{CabundlePaths: []string{fT}, GetCollateral: true, CheckCrl: true}, []bool{true, false}},
		{"file-T,get-collateral", &ccpb.RootOfTrust{CabundlePaths: []string{fT}, GetCollateral: true}, []bool{true, false}},
	}
	{
		// inline bundles that do not end in a newline (the text of one entry must not run into the next one's)
		nl := func(c *x509.Certificate) string { return string(world.PEM(c)) }
		nonl := func(c *x509.Certificate) string { return strings.TrimRight(string(world.PEM(c)), "\r\n") }
		cfgs = append(cfgs, []struct {
			name  string
			rot   *ccpb.RootOfTrust
			lists []bool
		}{
			{"inline-T(no-newline),F", &ccpb.RootOfTrust{Cabundles: []string{nonl(T.Root), nl(F.Root)}}, []bool{true, true}},
			{"inline-F(no-newline),T", &ccpb.RootOfTrust{Cabundles: []string{nonl(F.Root), nl(T.Root)}}, []bool{true, true}},
			{"inline-T(no-newline),F(no-newline)", &ccpb.RootOfTrust{Cabundles: []string{nonl(T.Root), nonl(F.Root)}}, []bool{true, true}},
			{"inline-U(no-newline),T(no-newline),F", &ccpb.RootOfTrust{Cabundles: []string{nonl(U.Root), nonl(T.Root), nl(F.Root)}}, []bool{true, true}},
			{"inline-T(no-newline)-only", &ccpb.RootOfTrust{Cabundles: []string{nonl(T.Root)}}, []bool{true, false}},
			{"file-F(no-newline)+inline-T(no-newline)", &ccpb.RootOfTrust{CabundlePaths: []string{wf("F-nonl.pem", []byte(nonl(F.Root)))}, Cabundles: []string{nonl(T.Root)}}, []bool{true, true}},
			{"files-T(no-newline),F(no-newline)", &ccpb.RootOfTrust{CabundlePaths: []string{wf("T-nonl.pem", []byte(nonl(T.Root))), wf("F-nonl2.pem", []byte(nonl(F.Root)))}}, []bool{true, true}},
			{"inline-T(crlf),F", &ccpb.RootOfTrust{Cabundles: []string{strings.ReplaceAll(nl(T.Root), "\n", "\r\n"), nl(F.Root)}}, []bool{true, true}},
			// every combination of the two switches is carried as given (what they mean is C05's / C12's subject)
			{"file-T,check-crl-only", &ccpb.RootOfTrust{CabundlePaths: []string{fT}, CheckCrl: true}, nil},
		}...)
	}
	// other issues of T's root (same name, same key): one that expired before the verification time, one not yet
	// valid, one whose path length forbids the intermediate. Listed next to the current issue — before or after it,
	// in one bundle or spread over bundles — they take nothing away: the configuration lists T's usable root.
	// Listed alone they give no chain that is valid at the verification time
	issues := []struct {
		name string
		cert *x509.Certificate
	}{
		{"expired-issue", world.MakeCert(world.CertSpec{CN: world.CNRoot, IsCA: true, Key: T.RootKey, MaxPathLen: 1, Serial: big.NewInt(0x7001), NotBefore: world.T0.AddDate(-10, 0, 0), NotAfter: world.T0.AddDate(0, 0, -30)}, nil, T.RootKey)},
		{"not-yet-valid-issue", world.MakeCert(world.CertSpec{CN: world.CNRoot, IsCA: true, Key: T.RootKey, MaxPathLen: 1, Serial: big.NewInt(0x7002), NotBefore: world.T0.AddDate(5, 0, 0), NotAfter: world.T0.AddDate(19, 0, 0)}, nil, T.RootKey)},
		{"pathlen0-issue", world.MakeCert(world.CertSpec{CN: world.CNRoot, IsCA: true, Key: T.RootKey, MaxPathLen: -1, Serial: big.NewInt(0x7003), NotAfter: world.T0.AddDate(19, 0, 0)}, nil, T.RootKey)},
	}
	for _, is := range issues {
		fI := wf(is.name+".pem", world.PEM(is.cert))
		inI, inT := string(world.PEM(is.cert)), string(world.PEM(T.Root))
		add := func(name string, rot *ccpb.RootOfTrust, lists []bool) {
			cfgs = append(cfgs, struct {
				name  string
				rot   *ccpb.RootOfTrust
				lists []bool
			}{name, rot, lists})
		}
		add("file-"+is.name+"-only", &ccpb.RootOfTrust{CabundlePaths: []string{fI}}, []bool{false, false})
		add("file-"+is.name+"+T-one-bundle", &ccpb.RootOfTrust{CabundlePaths: []string{wf(is.name+"+T.pem", world.PEM(is.cert, T.Root))}}, []bool{true, false})
		add("file-T+"+is.name+"-one-bundle", &ccpb.RootOfTrust{CabundlePaths: []string{wf("T+"+is.name+".pem", world.PEM(T.Root, is.cert))}}, []bool{true, false})
		add("files-"+is.name+",T", &ccpb.RootOfTrust{CabundlePaths: []string{fI, fT}}, []bool{true, false})
		add("files-T,"+is.name, &ccpb.RootOfTrust{CabundlePaths: []string{fT, fI}}, []bool{true, false})
		add("file-"+is.name+"+inline-T", &ccpb.RootOfTrust{CabundlePaths: []string{fI}, Cabundles: []string{inT}}, []bool{true, false})
		add("inline-"+is.name+",T", &ccpb.RootOfTrust{Cabundles: []string{inI, inT}}, []bool{true, false})
		add("inline-"+is.name+"+T-one-bundle", &ccpb.RootOfTrust{Cabundles: []string{inI + inT}}, []bool{true, false})
		add("inline-F,"+is.name+",T", &ccpb.RootOfTrust{Cabundles: []string{string(world.PEM(F.Root)), inI, inT}}, []bool{true, true})
	}
	// large bundles: 100 resp. 300 unrelated roots with T's root first / last, as a file and inline (tens to hundreds
	// of kilobytes): everything listed is trusted, wherever it stands
	{
		var big100, big300 []*x509.Certificate
		for i := 0; i < 300; i++ {
			k := world.NewKey(fmt.Sprintf("c02-bundle-root-%d", i%100))
			cert := world.MakeCert(world.CertSpec{CN: fmt.Sprintf("Bundle Root CA %d", i), IsCA: true, Key: k, MaxPathLen: 1}, nil, k)
			big300 = append(big300, cert)
			if i < 100 {
				big100 = append(big100, cert)
			}
		}
		tLast100 := world.PEM(append(append([]*x509.Certificate{}, big100...), T.Root)...)
		tFirst100 := world.PEM(append([]*x509.Certificate{T.Root}, big100...)...)
		tLast300 := world.PEM(append(append([]*x509.Certificate{}, big300...), T.Root)...)
		only100 := world.PEM(big100...)
		for _, bc := range []struct {
			name  string
			rot   *ccpb.RootOfTrust
			lists []bool
		}{
			{fmt.Sprintf("file-100-unrelated-then-T(%dB)", len(tLast100)), &ccpb.RootOfTrust{CabundlePaths: []string{wf("big100T.pem", tLast100)}}, []bool{true, false}},
			{"file-T-then-100-unrelated", &ccpb.RootOfTrust{CabundlePaths: []string{wf("bigT100.pem", tFirst100)}}, []bool{true, false}},
			{fmt.Sprintf("file-300-unrelated-then-T(%dB)", len(tLast300)), &ccpb.RootOfTrust{CabundlePaths: []string{wf("big300T.pem", tLast300)}}, []bool{true, false}},
			{"inline-100-unrelated-then-T", &ccpb.RootOfTrust{Cabundles: []string{string(tLast100)}}, []bool{true, false}},
			{"file-100-unrelated-only", &ccpb.RootOfTrust{CabundlePaths: []string{wf("big100.pem", only100)}}, []bool{false, false}},
			{"file-100-unrelated+file-F", &ccpb.RootOfTrust{CabundlePaths: []string{wf("big100b.pem", only100), fF}}, []bool{false, true}},
		} {
			cfgs = append(cfgs, bc)
		}
	}
	// bundle files whose NAMES contain characters a pattern matcher gives a meaning to, next to files such a pattern
	// would match: a configured path names one file, literally. Each pair: the listed file holds F's root, the
	// neighbour holds T's root — and the other way round
	{
		gdir := filepath.Join(dir, "names")
		os.MkdirAll(gdir, 0o755)
		type pair struct{ listed, neighbour string }
		for gi, pr := range []pair{{"roots[1].pem", "roots1.pem"}, {"roots-v?.pem", "roots-v2.pem"}, {"*.pem", "all.pem"}, {"roots[a-z].pem", "rootsx.pem"},
			{"roots\\*.pem", "roots*.pem"}, {"{a,b}.pem", "a.pem"}, {"roots~.pem", "roots.pem"}, {"roots .pem", "roots.pem"}, {"%2e%2e.pem", "...pem"}} {
			for flip := 0; flip < 2; flip++ {
				sub := filepath.Join(gdir, fmt.Sprintf("%d-%d", gi, flip))
				os.MkdirAll(sub, 0o755)
				listedCert, neighbourCert := F.Root, T.Root
				lists := []bool{false, true}
				if flip == 1 {
					listedCert, neighbourCert = T.Root, F.Root
					lists = []bool{true, false}
				}
				lp, np := filepath.Join(sub, pr.listed), filepath.Join(sub, pr.neighbour)
				if os.WriteFile(np, world.PEM(neighbourCert), 0o600) != nil || os.WriteFile(lp, world.PEM(listedCert), 0o600) != nil {
					continue
				}
				cfgs = append(cfgs, struct {
					name  string
					rot   *ccpb.RootOfTrust
					lists []bool
				}{fmt.Sprintf("file-named-%q-next-to-%q,listed-holds-%s", pr.listed, pr.neighbour, map[int]string{0: "F", 1: "T"}[flip]), &ccpb.RootOfTrust{CabundlePaths: []string{lp}}, lists})
			}
		}
	}
	// paths with ".." behind a symbolic link: the operating system resolves the link first (current -> store/v2, so
	// current/../roots.pem is store/roots.pem), a lexical clean-up of the path names another file (./roots.pem)
	{
		sdir := filepath.Join(dir, "links")
		for flip := 0; flip < 2; flip++ {
			for vi, variant := range []string{"current/../roots.pem", "current/./../roots.pem", "a/../current/../roots.pem", "current/../../links-" + fmt.Sprint(flip) + "/store/roots.pem"} {
				sub := filepath.Join(sdir+"-"+fmt.Sprint(flip), fmt.Sprint(vi))
				if os.MkdirAll(filepath.Join(sub, "store", "v2"), 0o755) != nil || os.MkdirAll(filepath.Join(sub, "a"), 0o755) != nil {
					continue
				}
				if os.Symlink(filepath.Join("store", "v2"), filepath.Join(sub, "current")) != nil {
					continue
				}
				listedCert, neighbourCert := F.Root, T.Root
				lists := []bool{false, true}
				if flip == 1 {
					listedCert, neighbourCert = T.Root, F.Root
					lists = []bool{true, false}
				}
				// what the system opens for <sub>/current/../roots.pem is <sub>/store/roots.pem
				if os.WriteFile(filepath.Join(sub, "store", "roots.pem"), world.PEM(listedCert), 0o600) != nil || os.WriteFile(filepath.Join(sub, "roots.pem"), world.PEM(neighbourCert), 0o600) != nil {
					continue
				}
				lp := sub + "/" + variant
				if vi == 3 {
					// <sub>/current/../../links-N/store/roots.pem: resolves through store/ to <sub>/../links-N/store -> only
					// meaningful when that directory exists; point it at the same listed file
					os.MkdirAll(filepath.Join(sub, "links-"+fmt.Sprint(flip), "store"), 0o755)
					os.WriteFile(filepath.Join(sub, "links-"+fmt.Sprint(flip), "store", "roots.pem"), world.PEM(listedCert), 0o600)
					os.MkdirAll(filepath.Join(filepath.Dir(sub), "links-"+fmt.Sprint(flip), "store"), 0o755)
					os.WriteFile(filepath.Join(filepath.Dir(sub), "links-"+fmt.Sprint(flip), "store", "roots.pem"), world.PEM(neighbourCert), 0o600)
				}
				if _, err := os.Stat(lp); err != nil {
					continue
				}
				cfgs = append(cfgs, struct {
					name  string
					rot   *ccpb.RootOfTrust
					lists []bool
				}{fmt.Sprintf("file-behind-symlink-%q,listed-holds-%s", variant, map[int]string{0: "F", 1: "T"}[flip]), &ccpb.RootOfTrust{CabundlePaths: []string{lp}}, lists})
			}
		}
	}
	// one CERTIFICATE block whose payload is SEVERAL certificates back to back: whatever a reader makes of the first,
	// the certificates hidden behind it are not listed (every standard reader sees at most the first)
	unspecifiedFor := map[string]int{}
	{
		cat := func(cs ...*x509.Certificate) []byte {
			var der []byte
			for _, c := range cs {
				der = append(der, c.Raw...)
			}
			return world.PEMBlock("CERTIFICATE", der)
		}
		for _, hc := range []struct {
			name  string
			pem   []byte
			first int // index in {T, F} of the first certificate of the block (its status is left open)
			lists []bool
		}{{"T||F", cat(T.Root, F.Root), 0, []bool{false, false}}, {"F||T", cat(F.Root, T.Root), 1, []bool{false, false}},
			{"T||T||F", cat(T.Root, T.Root, F.Root), 0, []bool{false, false}}, {"F-inter||T", cat(F.Inter, T.Root), -1, []bool{false, false}}} {
			for _, how := range []string{"inline", "file"} {
				name := "one-block-holding-" + hc.name + "/" + how
				rot := &ccpb.RootOfTrust{Cabundles: []string{string(hc.pem)}}
				if how == "file" {
					rot = &ccpb.RootOfTrust{CabundlePaths: []string{wf("hidden-"+strings.ReplaceAll(hc.name, "|", "_")+".pem", hc.pem)}}
				}
				if hc.first >= 0 {
					unspecifiedFor[name] = hc.first
				}
				cfgs = append(cfgs, struct {
					name  string
					rot   *ccpb.RootOfTrust
					lists []bool
				}{name, rot, hc.lists})
				// the same next to a proper block of the other root
				name2 := name + "+proper-block"
				other := T.Root
				l2 := []bool{true, false}
				if hc.first == 0 {
					other, l2 = F.Root, []bool{false, true}
				}
				if hc.first >= 0 {
					unspecifiedFor[name2] = hc.first
					rot2 := &ccpb.RootOfTrust{Cabundles: []string{string(hc.pem) + string(world.PEM(other))}}
					_ = l2
					// with the proper block both roots may end up listed: nothing left to judge but crashes and flags
					cfgs = append(cfgs, struct {
						name  string
						rot   *ccpb.RootOfTrust
						lists []bool
					}{name2, rot2, nil})
				}
			}
		}
	}
	// bundles that restate the root the library embeds (Intel's) together with further roots: every listed root counts,
	// wherever it stands relative to the well-known one
	if intel, err := os.ReadFile(repoRoot() + "/verify/trusted_root.pem"); err == nil && len(intel) > 0 {
		in := string(intel)
		inNL := strings.TrimRight(in, "\r\n") + "\n"
		pT, pF := string(world.PEM(T.Root)), string(world.PEM(F.Root))
		add2 := func(name string, rot *ccpb.RootOfTrust, lists []bool) {
			cfgs = append(cfgs, struct {
				name  string
				rot   *ccpb.RootOfTrust
				lists []bool
			}{name, rot, lists})
		}
		add2("inline-embedded+T-one-bundle(as-embedded)", &ccpb.RootOfTrust{Cabundles: []string{in + pT}}, []bool{true, false})
		add2("inline-embedded+T-one-bundle", &ccpb.RootOfTrust{Cabundles: []string{inNL + pT}}, []bool{true, false})
		add2("inline-embedded+F-one-bundle", &ccpb.RootOfTrust{Cabundles: []string{inNL + pF}}, []bool{false, true})
		add2("inline-embedded+T+F-one-bundle", &ccpb.RootOfTrust{Cabundles: []string{inNL + pT + pF}}, []bool{true, true})
		add2("inline-T+embedded-one-bundle", &ccpb.RootOfTrust{Cabundles: []string{pT + inNL}}, []bool{true, false})
		add2("inline-embedded,inline-T", &ccpb.RootOfTrust{Cabundles: []string{in, pT}}, []bool{true, false})
		add2("inline-T,inline-embedded", &ccpb.RootOfTrust{Cabundles: []string{pT, in}}, []bool{true, false})
		add2("inline-embedded-only", &ccpb.RootOfTrust{Cabundles: []string{in}}, []bool{false, false})
		add2("file-embedded+T-one-bundle", &ccpb.RootOfTrust{CabundlePaths: []string{wf("embedded+T.pem", []byte(inNL+pT))}}, []bool{true, false})
		add2("file-embedded,inline-T", &ccpb.RootOfTrust{CabundlePaths: []string{wf("embedded.pem", intel)}, Cabundles: []string{pT}}, []bool{true, false})
		add2("inline-embedded,file-F", &ccpb.RootOfTrust{Cabundles: []string{in}, CabundlePaths: []string{fF}}, []bool{false, true})
	}
	// RELATIVE bundle paths (the process's working directory is moved into a scratch directory while such a
	// configuration is converted): a path names one file, literally — not the file reached after dropping leading
	// characters, white space, a scheme, a case difference, an environment reference or a suffix
	relCwd := map[string]string{}
	{
		rdir := filepath.Join(dir, "relative")
		os.MkdirAll(rdir, 0o755)
		os.Setenv("VERIF_C02_D", "envdir")
		type pair struct{ listed, neighbour string }
		for gi, pr := range []pair{{"fleet/roots.pem", "t/roots.pem"}, {"lab/ca.pem", "ab/ca.pem"}, {"file:roots.pem", "roots.pem"}, {"file/roots.pem", "roots.pem"},
			{"./.roots.pem", "roots.pem"}, {" roots.pem", "roots.pem"}, {"roots.pem ", "roots.pem"}, {"Roots.pem", "roots.pem"}, {"roots.PEM", "roots.pem"},
			{"${VERIF_C02_D}/roots.pem", "envdir/roots.pem"}, {"$VERIF_C02_D/roots.pem", "envdir/roots.pem"}, {"~roots.pem", "roots.pem"}, {"roots.pem.pem", "roots.pem"},
			{"pem/roots", "roots"}, {"https:/roots.pem", "roots.pem"}, {"cert/ca.pem", "a.pem"}, {"roots.pem", "sub/roots.pem"}, {"a/b/roots.pem", "b/roots.pem"}, {"a/b/roots.pem", "a/roots.pem"},
			{"tmp/roots.pem", "mp/roots.pem"}, {"certs.d/roots.pem", "certs/roots.pem"}} {
			for flip := 0; flip < 2; flip++ {
				sub := filepath.Join(rdir, fmt.Sprintf("%d-%d", gi, flip))
				listedCert, neighbourCert := F.Root, T.Root
				lists := []bool{false, true}
				if flip == 1 {
					listedCert, neighbourCert = T.Root, F.Root
					lists = []bool{true, false}
				}
				lp, np := filepath.Join(sub, pr.listed), filepath.Join(sub, pr.neighbour)
				if os.MkdirAll(filepath.Dir(lp), 0o755) != nil || os.MkdirAll(filepath.Dir(np), 0o755) != nil {
					continue
				}
				if os.WriteFile(np, world.PEM(neighbourCert), 0o600) != nil || os.WriteFile(lp, world.PEM(listedCert), 0o600) != nil {
					continue
				}
				name := fmt.Sprintf("relative-path-%q-next-to-%q,listed-holds-%s", pr.listed, pr.neighbour, map[int]string{0: "F", 1: "T"}[flip])
				relCwd[name] = sub
				cfgs = append(cfgs, struct {
					name  string
					rot   *ccpb.RootOfTrust
					lists []bool
				}{name, &ccpb.RootOfTrust{CabundlePaths: []string{pr.listed}}, lists})
			}
		}
	}
	for _, cfg := range cfgs {
		for qi, w := range baseW {
			id := fmt.Sprintf("config/%s/quote-under-%s", cfg.name, pkis[qi].Name)
			if !r.Want(id) {
				continue
			}
			var opts *verify.Options
			var cerr error
			func() {
				defer world.Recover(&cerr)
				if d := relCwd[cfg.name]; d != "" {
					if old, err := os.Getwd(); err == nil && os.Chdir(d) == nil {
						defer os.Chdir(old)
					}
				}
				opts, cerr = verify.RootOfTrustToOptions(cfg.rot)
			}()
			out := "config-error"
			switch {
			case world.IsPanic(cerr):
				r.Violate("config:panic", id, "RootOfTrustToOptions crashes: "+errStr(cerr), nil)
				out = "panic"
			case cerr != nil && (strings.Contains(cfg.name, "no-newline") || strings.Contains(cfg.name, "crlf") || relCwd[cfg.name] != ""):
				// every bundle of these configurations holds a well-formed certificate; how an entry ends is immaterial
				r.Violate("config:refused-although-every-bundle-holds-a-certificate", id, "a configuration whose bundles each hold a certificate is refused: "+errStr(cerr), nil)
				out = "config-error!"
			case cerr == nil && opts != nil:
				if opts.GetCollateral != cfg.rot.GetCollateral || opts.CheckRevocations != cfg.rot.CheckCrl {
					r.Violate("config:flags-not-carried", id, "get_collateral / check_crl of the configuration are not carried into the options", nil)
				}
				now := w.Now
				opts.Now = &now
				opts.Getter = w.Getter.Clone()
				err := verifyRawBoth(r, id, w.Raw(), opts)
				out = verdict(err)
				listed := cfg.lists != nil && cfg.lists[qi]
				uq, open := unspecifiedFor[cfg.name]
				switch {
				case cfg.lists == nil || (open && uq == qi):
					out += "(unspecified)"
				case err == nil && !listed:
					r.Violate("config:trusts-unlisted:"+cfg.name, id, "a quote under a root the configuration does not list is accepted", nil)
					out = "accept!"
				case err != nil && listed && !world.IsPanic(err):
					r.Violate("config:distrusts-listed:"+cfg.name, id, "a quote under a root the configuration lists is rejected: "+errStr(err), nil)
					out = "reject!"
				}
			}
			r.Eval(id, true, "config:"+out)
		}
	}
	// an archived quote: its whole PKI (2015 .. end of 2024) has expired by today's wall clock, and it is verified as
	// of 2023-07-01. A configuration that lists that root trusts it at the verification time it is asked about
	{
		nb, na := time.Date(2015, 1, 1, 0, 0, 0, 0, time.UTC), time.Date(2024, 12, 31, 0, 0, 0, 0, time.UTC)
		A := &world.PKI{Name: "C02A", RootKey: world.NewKey("C02A/root"), InterKey: world.NewKey("C02A/inter"), LeafKey: world.NewKey("C02A/leaf"), TcbKey: world.NewKey("C02A/tcb")}
		A.Root = world.MakeCert(world.CertSpec{CN: world.CNRoot, IsCA: true, Key: A.RootKey, MaxPathLen: 1, NotBefore: nb, NotAfter: na}, nil, A.RootKey)
		A.Inter = world.MakeCert(world.CertSpec{CN: world.CNPlatform, IsCA: true, Key: A.InterKey, MaxPathLen: -1, NotBefore: nb, NotAfter: na}, A.Root, A.RootKey)
		A.Leaf = world.MakeCert(world.CertSpec{CN: world.CNLeaf, Key: A.LeafKey, SGXExt: world.SGXExtension(world.DefaultPlatform()), NotBefore: nb, NotAfter: na}, A.Inter, A.InterKey)
		spec := world.QuoteSpec{PKI: A, FillLabel: "c02-archive"}
		parts := spec.Parts()
		parts.SignBody(world.NewKey("att"))
		rawA, _ := parts.Bytes()
		asOf := world.TimeSetAt(time.Date(2023, 7, 1, 0, 0, 0, 0, time.UTC))
		fA := wf("A.pem", world.PEM(A.Root))
		for _, ac := range []struct {
			name string
			rot  *ccpb.RootOfTrust
			want bool
		}{
			{"file-A", &ccpb.RootOfTrust{CabundlePaths: []string{fA}}, true},
			{"inline-A", &ccpb.RootOfTrust{Cabundles: []string{string(world.PEM(A.Root))}}, true},
			{"file-T+inline-A", &ccpb.RootOfTrust{CabundlePaths: []string{fT}, Cabundles: []string{string(world.PEM(A.Root))}}, true},
			{"inline-A+T-one-bundle", &ccpb.RootOfTrust{Cabundles: []string{string(world.PEM(A.Root, T.Root))}}, true},
			{"file-T-only", &ccpb.RootOfTrust{CabundlePaths: []string{fT}}, false},
		} {
			id := "config/archive/" + ac.name
			if !r.Want(id) {
				continue
			}
			var opts *verify.Options
			var cerr error
			func() { defer world.Recover(&cerr); opts, cerr = verify.RootOfTrustToOptions(ac.rot) }()
			out := "config-error"
			switch {
			case world.IsPanic(cerr):
				r.Violate("config:panic", id, "RootOfTrustToOptions crashes: "+errStr(cerr), nil)
			case cerr != nil && ac.want:
				r.Violate("config:refused-a-listed-root", id, "a configuration listing a well-formed root is refused: "+errStr(cerr), nil)
				out = "config-error!"
			case cerr == nil:
				now := asOf
				opts.Now = &now
				err := verifyRawBoth(r, id, rawA, opts)
				out = verdict(err)
				direct := world.SafeVerifyRaw(rawA, &verify.Options{Now: &now, TrustedRoots: world.Pool(A.Root)})
				switch {
				case direct != nil:
					r.HarnessError("C02 archive world is not accepted with its root given directly: %v", direct)
				case err != nil && ac.want:
					r.Violate("config:distrusts-listed:archive", id, "a quote under a listed root, verified as of a time inside that root's validity, is rejected: "+errStr(err), nil)
					out = "reject!"
				case err == nil && !ac.want:
					r.Violate("config:trusts-unlisted:archive", id, "a quote under a root the configuration does not list is accepted", nil)
					out = "accept!"
				}
			}
			r.Eval(id, true, "config-archive:"+out)
		}
	}
	// Intel's sample quote against every configuration: only a configuration that lists nothing at all
	// falls back to the embedded Intel root; one that names bundles trusts exactly what they contain.
	for _, cfg := range cfgs {
		id := fmt.Sprintf("config/%s/intel-sample-quote", cfg.name)
		if !r.Want(id) {
			continue
		}
		var opts *verify.Options
		var cerr error
		func() { defer world.Recover(&cerr); opts, cerr = verify.RootOfTrustToOptions(cfg.rot) }()
		out := "config-error"
		if cerr == nil && opts != nil {
			now := world.TimeSetAt(intelRefTime)
			opts.Now = &now
			opts.GetCollateral, opts.CheckRevocations = false, false
			err := world.SafeVerifyRaw(testdata.RawQuote, opts)
			out = verdict(err)
			fallsBack := len(cfg.rot.CabundlePaths) == 0 && len(cfg.rot.Cabundles) == 0
			listsIntel := strings.Contains(cfg.name, "embedded") // bundles that restate the embedded root: the sample is then under a listed root
			switch {
			case listsIntel:
				if err != nil && !world.IsPanic(err) {
					r.Violate("config:distrusts-listed-embedded-root:"+cfg.name, id, "the configuration lists Intel's root but Intel's sample quote is rejected: "+errStr(err), nil)
					out = "reject!"
				}
			case err == nil && !fallsBack:
				r.Violate("config:trusts-embedded-root-although-bundles-named:"+cfg.name, id, "the configuration names bundles (none of which contains Intel's root) but a quote under the embedded Intel root is accepted", nil)
				out = "accept!"
			case err != nil && fallsBack && !world.IsPanic(err):
				r.Violate("config:no-fallback-to-embedded-root", id, "a configuration without any bundle must fall back to the embedded Intel root: "+errStr(err), nil)
				out = "reject!"
			}
		}
		r.Eval(id, true, "config-intel:"+out)
	}
	c02IntelLookalikes(r)
	c02Histories(r)
	// Intel's own sample quote: accepted under the embedded root at its reference time, rejected under {T}.
	for _, pc := range []struct {
		name string
		pool *x509.CertPool
		want bool
	}{{"nil(embedded)", nil, true}, {"{T}", world.Pool(T.Root), false}, {"empty", world.Pool(), false}} {
		id := "intel-sample/pool=" + pc.name
		if !r.Want(id) {
			continue
		}
		now := world.TimeSetAt(intelRefTime)
		err := world.SafeVerifyRaw(testdata.RawQuote, &verify.Options{Now: &now, TrustedRoots: pc.pool})
		if (err == nil) != pc.want {
			r.Violate("intel-sample:"+pc.name, id, fmt.Sprintf("Intel sample quote under pool %s: want accept=%v, got %v", pc.name, pc.want, err), nil)
		}
		r.Eval(id, true, "intel:"+verdict(err))
	}
}

// c02IntelLookalikes: private PKIs that copy, cumulatively, everything of Intel's real certificates that an issuer
// chooses freely — the exact subject bytes, the subject / authority key identifiers, the serial numbers, the validity —
// over their own keys. Under the embedded root (no pool), an empty pool and an unrelated pool such a quote is rejected.
func c02IntelLookalikes(r *mc.Run) {
	p, err := ref.ParseQuote(testdata.RawQuote)
	if err != nil {
		r.HarnessError("C02: Intel sample quote does not parse: %v", err)
		return
	}
	ders := ref.ChainDERs(bytes.TrimRight(p.Chain, "\x00"))
	if len(ders) != 3 {
		r.HarnessError("C02: Intel sample chain does not hold three certificates")
		return
	}
	var intel [3]*x509.Certificate // leaf, intermediate, root
	for i := range intel {
		if intel[i], err = x509.ParseCertificate(ders[i]); err != nil {
			r.HarnessError("C02: Intel sample certificate %d does not parse: %v", i, err)
			return
		}
	}
	U := world.CachedPKI("U")
	keys := [3]*world.Key{world.NewKey("I/leaf"), world.NewKey("I/inter"), world.NewKey("I/root")}
	levels := []string{"subject-bytes", "+key-identifiers", "+serials", "+validity"}
	pools := []struct {
		name string
		pool *x509.CertPool
	}{{"nil(embedded)", nil}, {"empty", world.Pool()}, {"{unrelated}", world.Pool(U.Root)}}
	w := world.Honest("T")
	for lvl := range levels {
		mk := func(i int, parent *x509.Certificate, signer *world.Key) *x509.Certificate {
			src := intel[i]
			sp := world.CertSpec{CN: src.Subject.CommonName, Key: keys[i], RawSubject: src.RawSubject, IsCA: src.IsCA}
			if src.IsCA {
				sp.MaxPathLen = -1
				if i == 2 {
					sp.MaxPathLen = 1
				}
			}
			if i == 0 {
				for _, e := range src.Extensions {
					if e.Id.Equal(world.OidSGX) {
						sp.SGXExt = e.Value
					}
				}
			}
			if lvl >= 1 {
				sp.SubjectKeyID, sp.AuthorityKeyID = src.SubjectKeyId, src.AuthorityKeyId
			}
			if lvl >= 2 {
				sp.Serial = src.SerialNumber
			}
			if lvl >= 3 {
				sp.NotBefore, sp.NotAfter = src.NotBefore, src.NotAfter
			}
			return world.MakeCert(sp, parent, signer)
		}
		root := mk(2, nil, keys[2])
		inter := mk(1, root, keys[2])
		leaf := mk(0, inter, keys[1])
		parts := w.Parts.Clone()
		parts.Chain = world.PEM(leaf, inter, root)
		parts.SignQE(keys[0])
		raw, _ := parts.Bytes()
		if rp, perr := ref.ParseQuote(raw); perr != nil || !ref.LinksOf(rp).All() {
			r.HarnessError("C02: look-alike quote is not self-consistent (%v)", perr)
			return
		}
		for _, pc := range pools {
			for _, l := range []int{world.L0, world.L1} {
				id := fmt.Sprintf("intel-lookalike/%s/pool=%s/%s", levels[lvl], pc.name, lvlName[l])
				if !r.Want(id) {
					continue
				}
				now := world.TimeSetAt(intelRefTime)
				o := &verify.Options{GetCollateral: l >= 1, Getter: w.Getter.Clone(), Now: &now, TrustedRoots: pc.pool}
				err := world.SafeVerifyRaw(raw, o)
				out := verdict(err)
				if err == nil {
					r.Violate("intel-lookalike-accepted:"+levels[lvl]+":pool="+pc.name, id, "a quote that is self-consistent under a private PKI copying Intel's "+levels[lvl]+" (own keys) is accepted although its root is not trusted", map[string]any{"raw_quote_hex": hexs(raw)})
					out = "accept!"
				}
				r.Eval(id, true, "lookalike:"+out)
			}
		}
	}
	// control: the genuine sample is accepted under the embedded root at the same time
	if r.Want("intel-lookalike/control") {
		now := world.TimeSetAt(intelRefTime)
		err := world.SafeVerifyRaw(testdata.RawQuote, &verify.Options{Now: &now})
		if err != nil {
			r.Violate("intel-lookalike:control-rejected", "intel-lookalike/control", "Intel's genuine sample is rejected under the embedded root: "+errStr(err), nil)
		}
		r.Eval("intel-lookalike/control", true, "lookalike-control:"+verdict(err))
	}
}

// c02Histories: every sequence of a fixed length over {set TrustedRoots of ONE shared options value to
// nil / {T} / {F} / {T,F} / empty, copy the options by value, verify a quote under T / under F / Intel's
// sample}; each verification must be decided by the pool configured at that moment.
func c02Histories(r *mc.Run) {
	T, F := world.CachedPKI("T"), world.CachedPKI("F")
	wT, wF := world.Honest("T"), world.Honest("F")
	pools := []struct {
		name string
		mk   func() *x509.CertPool
		t, f bool // contains T's / F's root
	}{
		{"nil", func() *x509.CertPool { return nil }, false, false},
		{"{T}", func() *x509.CertPool { return world.Pool(T.Root) }, true, false},
		{"{F}", func() *x509.CertPool { return world.Pool(F.Root) }, false, true},
		{"{T,F}", func() *x509.CertPool { return world.Pool(T.Root, F.Root) }, true, true},
		{"empty", func() *x509.CertPool { return world.Pool() }, false, false},
	}
	type op struct {
		name  string
		kind  int // 0 set pool, 1 copy, 2 verify
		arg   int
		level int
	}
	var ops []op
	for i, p := range pools {
		ops = append(ops, op{"TrustedRoots=" + p.name, 0, i, 0})
	}
	ops = append(ops, op{"copy-options-by-value", 1, 0, 0})
	nr := len(ops)
	for _, l := range []int{world.L0, world.L1} {
		ops = append(ops, op{"verify(under-T," + lvlName[l] + ")", 2, 0, l}, op{"verify(under-F," + lvlName[l] + ")", 2, 1, l})
	}
	ops = append(ops, op{"verify(intel-sample,L0)", 2, 2, world.L0})
	n := len(ops)
	nv := n - nr
	depth := 4
	if r.Thorough() {
		depth = 5
	}
	total := nv
	for i := 1; i < depth; i++ {
		total *= n
	}
	done := r.Parallel(total, func(idx int) {
		seq := make([]int, depth)
		x := idx
		seq[depth-1] = nr + x%nv
		x /= nv
		for i := depth - 2; i >= 0; i-- {
			seq[i] = x % n
			x /= n
		}
		id := "history/"
		for _, k := range seq {
			id += ops[k].name + ";"
		}
		if !r.Want(id) {
			return
		}
		o := &verify.Options{}
		cur := 0
		out := ""
		for step, k := range seq {
			p := ops[k]
			switch p.kind {
			case 0:
				cur = p.arg
				o.TrustedRoots = pools[cur].mk()
			case 1:
				c := *o
				o = &c
			case 2:
				var raw []byte
				var want bool
				var now verify.TimeSet
				switch p.arg {
				case 0:
					raw, want, now, o.Getter = wT.Raw(), pools[cur].t, wT.Now, wT.Getter.Clone()
				case 1:
					raw, want, now, o.Getter = wF.Raw(), pools[cur].f, wF.Now, wF.Getter.Clone()
				case 2:
					raw, want, now, o.Getter = testdata.RawQuote, pools[cur].name == "nil", world.TimeSetAt(intelRefTime), nil
				}
				o.Now = &now
				o.GetCollateral, o.CheckRevocations = p.level >= 1, false
				err := world.SafeVerifyRaw(raw, o)
				v := verdict(err)
				detail := map[string]any{"step": step + 1, "pool_now": pools[cur].name, "error": errStr(err)}
				switch {
				case world.IsPanic(err):
					r.Violate("history:panic:"+crashSite(err), id, "verification through a re-used options value crashes: "+errStr(err), detail)
				case err == nil && !want:
					r.Violate("history:trusts-root-not-in-current-pool", id, "through a re-used options value a quote is accepted although its root is not in the pool configured for this call ("+pools[cur].name+")", detail)
					v = "accept!"
				case err != nil && want:
					r.Violate("history:distrusts-root-in-current-pool", id, "through a re-used options value a quote is rejected although its root is in the pool configured for this call ("+pools[cur].name+"): "+errStr(err), detail)
					v = "reject!"
				}
				out += fmt.Sprintf("%v/%s;", want, v)
			}
		}
		r.Eval(id, true, "history:"+out)
	})
	r.SectionDone(mc.Section{Name: "reused-options-histories", Evaluations: int64(done), MaxDepth: depth, Exhaustive: done == total,
		Note: fmt.Sprintf("alphabet of %d operations (%d pools, copy, %d verifications), every sequence of length %d ending in a verification", n, len(pools), nv, depth)})
}

func keyOfCert(c *x509.Certificate, pkis ...*world.PKI) *world.Key {
	for _, p := range pkis {
		for _, k := range []*world.Key{p.LeafKey, p.InterKey, p.RootKey, p.TcbKey, world.NewKey(p.Name + "/fabricated-leaf"), world.NewKey(p.Name + "/nonca")} {
			if pk := k.Pub; pk.X.Cmp(pubX(c)) == 0 {
				return k
			}
		}
	}
	return nil
}
