package checks

import (
	"bytes"
	"encoding/binary"
	"fmt"
	"strings"

	pb "github.com/google/go-tdx-guest/proto/tdx"
	"github.com/google/go-tdx-guest/validate"
	"google.golang.org/protobuf/proto"

	"verifharness/mc"
	"verifharness/ref"
	"verifharness/world"
)

func init() {
	mc.Register(&mc.Check{ID: "C08", Category: "exploration",
		Rule:   "cases: products of (quote variant) x (options value) enumerated per dimension: each of the 11 exact-match options at nil/empty/equal/every single-bit difference/one byte short/long; RTMR lists of length 0..5 over {empty,equal,different,short}; allowed-MR_TD lists of length 0..3 over {equal,different,empty,short,long}; QE/PCE SVN minima around values spanning both bytes; minimum TEE TCB SVN at nil/empty/len 1,15,16,17/each component +-1; every single XFAM and TD_ATTRIBUTES bit; every ordered pair of same-sized fields cross-wired; every pair of field deviations; every fixed-length sequence of reconfigurations (fresh slices, in-place edits, list entries replaced, copy by value) and validations on ONE shared options value from two initial states. Non-trivial: at least one option configured or a quote bit changed; distinct by id",
		Assume: []string{"the reference policy semantics (harness/ref/policy.go) transcribe the statement; architectural fixed-bit masks are an independent copy"},
		Run:    runC08})
}

func polOf(o *validate.Options) ref.Policy {
	t := o.TdQuoteBodyOptions
	return ref.Policy{QeVendorID: o.HeaderOptions.QeVendorID, MrSeam: t.MrSeam, TdAttributes: t.TdAttributes, Xfam: t.Xfam, MrTd: t.MrTd,
		MrConfigID: t.MrConfigID, MrOwner: t.MrOwner, MrOwnerConfig: t.MrOwnerConfig, ReportData: t.ReportData, Rtmrs: t.Rtmrs, AnyMrTd: t.AnyMrTd,
		MinQeSvn: uint32(o.HeaderOptions.MinimumQeSvn), MinPceSvn: uint32(o.HeaderOptions.MinimumPceSvn), MinTeeTcbSvn: t.MinimumTeeTcbSvn}
}

// optField describes one exact-match option and where its value sits in the quote.
type optField struct {
	name     string
	off, len int // absolute offset in the raw quote
	set      func(o *validate.Options, v []byte)
}

var optFields = []optField{
	{"QeVendorID", 12, 16, func(o *validate.Options, v []byte) { o.HeaderOptions.QeVendorID = v }},
	{"MrSeam", 48 + 16, 48, func(o *validate.Options, v []byte) { o.TdQuoteBodyOptions.MrSeam = v }},
	{"TdAttributes", 48 + 120, 8, func(o *validate.Options, v []byte) { o.TdQuoteBodyOptions.TdAttributes = v }},
	{"Xfam", 48 + 128, 8, func(o *validate.Options, v []byte) { o.TdQuoteBodyOptions.Xfam = v }},
	{"MrTd", 48 + 136, 48, func(o *validate.Options, v []byte) { o.TdQuoteBodyOptions.MrTd = v }},
	{"MrConfigID", 48 + 184, 48, func(o *validate.Options, v []byte) { o.TdQuoteBodyOptions.MrConfigID = v }},
	{"MrOwner", 48 + 232, 48, func(o *validate.Options, v []byte) { o.TdQuoteBodyOptions.MrOwner = v }},
	{"MrOwnerConfig", 48 + 280, 48, func(o *validate.Options, v []byte) { o.TdQuoteBodyOptions.MrOwnerConfig = v }},
	{"ReportData", 48 + 520, 64, func(o *validate.Options, v []byte) { o.TdQuoteBodyOptions.ReportData = v }},
}

type c08case struct {
	id   string
	raw  []byte
	opts *validate.Options
}

func safeValidateRaw(raw []byte, o *validate.Options) (err error) {
	defer world.Recover(&err)
	return validate.RawTdxQuote(raw, o)
}

func safeValidate(q any, o *validate.Options) (err error) {
	defer world.Recover(&err)
	return validate.TdxQuote(q, o)
}

// c08Judge compares the library verdict with the reference semantics.
func c08Judge(r *mc.Run, id, sigKind string, raw []byte, pol ref.Policy, err error) string {
	p, perr := ref.ParseQuote(raw)
	if perr != nil {
		r.HarnessError("C08 %s: reference parser rejects the quote variant: %v", id, perr)
		return "harness"
	}
	want := pol.Judge(p)
	got := verdict(err)
	switch {
	case world.IsPanic(err):
		r.Violate("panic:"+sigKind+":"+crashSite(err), id, "policy validation crashes: "+errStr(err), map[string]any{"raw_quote_hex": hexs(raw), "policy": fmt.Sprintf("%+v", pol)})
	case want == ref.MustAccept && err != nil:
		r.Violate("rejects-satisfying:"+sigKind, id, "validation rejects a quote that meets every configured expectation: "+errStr(err), map[string]any{"raw_quote_hex": hexs(raw), "policy": fmt.Sprintf("%+v", pol)})
		got = "reject!"
	case want == ref.MustReject && err == nil:
		r.Violate("accepts-missing:"+sigKind, id, "validation accepts a quote that misses a configured expectation", map[string]any{"raw_quote_hex": hexs(raw), "policy": fmt.Sprintf("%+v", pol)})
		got = "accept!"
	}
	return want.String() + "/" + got
}

func runC08(r *mc.Run) {
	base := c01Baselines()[0]
	raw0 := base.raw
	var cases []c08case
	add := func(id string, raw []byte, o *validate.Options) { cases = append(cases, c08case{id, raw, o}) }
	val := func(f optField) []byte { return append([]byte(nil), raw0[f.off:f.off+f.len]...) }

	add("nil-options-fields", raw0, &validate.Options{})
	// a quote without QE authentication data (length 0): as bytes, as parsed message and as a message that crossed
	// the protobuf wire (where the empty data field arrives as nil)
	if bs := c01Baselines(); len(bs) > 1 {
		raw1 := bs[1].raw
		add("authless/no-expectations", raw1, &validate.Options{})
		o1 := &validate.Options{}
		for _, f := range optFields {
			f.set(o1, append([]byte(nil), raw1[f.off:f.off+f.len]...))
		}
		add("authless/every-exact-field-pinned-to-its-own-value", raw1, o1)
		o2 := &validate.Options{}
		optFields[3].set(o2, bytes.Repeat([]byte{0x5a}, optFields[3].len))
		add("authless/one-field-pinned-to-another-value", raw1, o2)
	}
	// 1. each exact-match option on its own
	for _, f := range optFields {
		for _, kind := range []string{"nil", "empty", "equal", "short", "long", "first", "last"} {
			o := &validate.Options{}
			v := val(f)
			switch kind {
			case "nil":
				v = nil
			case "empty":
				v = []byte{}
			case "short":
				v = v[:len(v)-1]
			case "long":
				v = append(v, 0)
			case "first":
				v[0] ^= 0xff
			case "last":
				v[len(v)-1] ^= 0xff
			}
			f.set(o, v)
			add(fmt.Sprintf("opt/%s=%s", f.name, kind), raw0, o)
		}
		for bit := 0; bit < f.len*8; bit++ {
			o := &validate.Options{}
			v := val(f)
			v[bit/8] ^= 1 << uint(bit%8)
			f.set(o, v)
			add(fmt.Sprintf("opt/%s^bit%d", f.name, bit), raw0, o)
		}
		// the same single-bit difference on the quote side (option equal to the original)
		for bit := 0; bit < f.len*8; bit++ {
			o := &validate.Options{}
			f.set(o, val(f))
			m := append([]byte(nil), raw0...)
			m[f.off+bit/8] ^= 1 << uint(bit%8)
			add(fmt.Sprintf("quote/%s^bit%d", f.name, bit), m, o)
		}
	}
	// 1a. every PAIR of single-bit differences of each exact-match option (a comparison that accumulates the
	// differences instead of looking at each byte can cancel two of them)
	for _, f := range optFields {
		nb := f.len * 8
		for b1 := 0; b1 < nb; b1++ {
			for b2 := b1 + 1; b2 < nb; b2++ {
				if !r.Thorough() && f.len > 16 && (b1%8 != b2%8) && (b1/8+b2/8)%5 != 0 {
					continue // quick: same bit position in two bytes always, other combinations for a fifth of the byte pairs
				}
				o := &validate.Options{}
				v := val(f)
				v[b1/8] ^= 1 << uint(b1%8)
				v[b2/8] ^= 1 << uint(b2%8)
				f.set(o, v)
				add(fmt.Sprintf("opt2/%s^bit%d^bit%d", f.name, b1, b2), raw0, o)
			}
		}
	}
	// 1a'. the same for a one-entry allowed-MR_TD list, plus 8-byte groups exchanged
	{
		mr := append([]byte(nil), raw0[48+136:48+184]...)
		for b1 := 0; b1 < 384; b1++ {
			for b2 := b1 + 1; b2 < 384; b2++ {
				if !r.Thorough() && (b1%8 != b2%8) && (b1/8+b2/8)%5 != 0 {
					continue
				}
				v := append([]byte(nil), mr...)
				v[b1/8] ^= 1 << uint(b1%8)
				v[b2/8] ^= 1 << uint(b2%8)
				o := &validate.Options{}
				o.TdQuoteBodyOptions.AnyMrTd = [][]byte{v}
				add(fmt.Sprintf("opt2/AnyMrTd[0]^bit%d^bit%d", b1, b2), raw0, o)
			}
		}
		// long allowed lists: membership does not depend on how many entries there are, where the member is,
		// or how the entries are ordered (counts around the thresholds an implementation might introduce)
		for _, n := range []int{8, 9, 16, 17, 33, 64, 65, 129, 256, 257} {
			poss := []int{-1, 0, 1, n / 2, n - 2, n - 1}
			if n <= 17 {
				poss = []int{-1}
				for p := 0; p < n; p++ {
					poss = append(poss, p)
				}
			}
			for _, p := range poss {
				for _, order := range []string{"ascending", "descending", "hashed"} {
					o := &validate.Options{}
					for i := 0; i < n; i++ {
						var e []byte
						switch order {
						case "ascending":
							e = bytes.Repeat([]byte{byte(i)}, 48)
							e[0] = byte(i >> 8)
						case "descending":
							e = bytes.Repeat([]byte{byte(255 - i)}, 48)
							e[0] = byte(255 - i>>8)
						default:
							e = world.Fill(fmt.Sprintf("c08-long-%d", i), 48)
						}
						if i == p {
							e = append([]byte(nil), mr...)
						}
						o.TdQuoteBodyOptions.AnyMrTd = append(o.TdQuoteBodyOptions.AnyMrTd, e)
					}
					add(fmt.Sprintf("longlist/AnyMrTd/n=%d,member@%d,%s", n, p, order), raw0, o)
				}
			}
		}
		for k := 1; k < 48; k++ {
			a := append(append([]byte{}, world.Fill("c08-straddle-a", k)...), mr[:48-k]...)
			b := append(append([]byte{}, mr[48-k:]...), world.Fill("c08-straddle-b", 48-k)...)
			o := &validate.Options{}
			o.TdQuoteBodyOptions.AnyMrTd = [][]byte{a, b}
			add(fmt.Sprintf("straddle/AnyMrTd@%d", k), raw0, o)
			// the same for the RTMR list: register i's value straddling entries i-1 / i
			o2 := &validate.Options{}
			r1 := raw0[48+376 : 48+424]
			o2.TdQuoteBodyOptions.Rtmrs = [][]byte{append(append([]byte{}, raw0[48+328:48+328+k]...), r1[:48-k]...), append(append([]byte{}, r1[48-k:]...), world.Fill("c08-straddle-r", 48-k)...), nil, nil}
			add(fmt.Sprintf("straddle/Rtmrs@%d", k), raw0, o2)
		}
		for _, f := range optFields {
			for a := 0; a+8 <= f.len; a += 8 {
				for b := a + 8; b+8 <= f.len; b += 8 {
					v := val(f)
					w := append([]byte(nil), v...)
					copy(w[a:a+8], v[b:b+8])
					copy(w[b:b+8], v[a:a+8])
					o := &validate.Options{}
					f.set(o, w)
					add(fmt.Sprintf("swap8/%s@%d,%d", f.name, a, b), raw0, o)
					if f.name == "MrTd" {
						o2 := &validate.Options{}
						o2.TdQuoteBodyOptions.AnyMrTd = [][]byte{w}
						add(fmt.Sprintf("swap8/AnyMrTd[0]@%d,%d", a, b), raw0, o2)
					}
				}
			}
		}
	}
	// 1b. every length from 0 to four times the field size (+1), contents = the quote's value repeated
	for _, f := range optFields {
		lens := c14FarLengths(f.len)
		for n := 0; n <= 4*f.len+1; n++ {
			lens = append(lens, n)
		}
		for _, n := range lens {
			v := make([]byte, n)
			for i := range v {
				v[i] = raw0[f.off+i%f.len]
			}
			o := &validate.Options{}
			f.set(o, v)
			add(fmt.Sprintf("length/%s=%d", f.name, n), raw0, o)
		}
	}
	for pos := 0; pos < 4; pos++ {
		lens := c14FarLengths(48)
		for n := 0; n <= 4*48+1; n++ {
			lens = append(lens, n)
		}
		for _, n := range lens {
			o := &validate.Options{}
			for i := 0; i < 4; i++ {
				o.TdQuoteBodyOptions.Rtmrs = append(o.TdQuoteBodyOptions.Rtmrs, append([]byte(nil), raw0[48+328+48*i:48+376+48*i]...))
			}
			v := make([]byte, n)
			for i := range v {
				v[i] = raw0[48+328+48*pos+i%48]
			}
			o.TdQuoteBodyOptions.Rtmrs[pos] = v
			add(fmt.Sprintf("length/Rtmrs[%d]=%d", pos, n), raw0, o)
		}
	}
	for pos := 0; pos < 2; pos++ {
		for n := 0; n <= 4*48+1; n++ {
			o := &validate.Options{}
			v := make([]byte, n)
			for i := range v {
				v[i] = raw0[48+136+i%48]
			}
			o.TdQuoteBodyOptions.AnyMrTd = [][]byte{append([]byte(nil), raw0[48+136:48+184]...), append([]byte(nil), raw0[48+136:48+184]...)}
			o.TdQuoteBodyOptions.AnyMrTd[pos] = v
			add(fmt.Sprintf("length/AnyMrTd[%d]=%d", pos, n), raw0, o)
		}
	}
	// 2. RTMR lists
	rt := func(i int, kind int) []byte {
		v := append([]byte(nil), raw0[48+328+48*(i%4):48+376+48*(i%4)]...)
		switch kind {
		case 0:
			return []byte{}
		case 1:
			return v
		case 2:
			v[5] ^= 1
			return v
		default:
			return v[:47]
		}
	}
	kinds := []string{"empty", "equal", "different", "short"}
	for n := 0; n <= 5; n++ {
		total := 1
		for k := 0; k < n; k++ {
			total *= 4
		}
		for code := 0; code < total; code++ {
			o := &validate.Options{}
			id := fmt.Sprintf("rtmrs/%d:", n)
			c := code
			for i := 0; i < n; i++ {
				o.TdQuoteBodyOptions.Rtmrs = append(o.TdQuoteBodyOptions.Rtmrs, rt(i, c%4))
				id += kinds[c%4][:2]
				c /= 4
			}
			add(id, raw0, o)
		}
	}
	// 3. allowed-MR_TD lists
	mrtd := raw0[48+136 : 48+184]
	am := func(kind int) []byte {
		v := append([]byte(nil), mrtd...)
		switch kind {
		case 0:
			return v
		case 1:
			v[47] ^= 0x80
			return v
		case 2:
			return []byte{}
		case 3:
			return v[:47]
		default:
			return append(v, 0)
		}
	}
	akinds := []string{"eq", "df", "em", "sh", "lo"}
	for n := 0; n <= 3; n++ {
		total := 1
		for k := 0; k < n; k++ {
			total *= 5
		}
		for code := 0; code < total; code++ {
			o := &validate.Options{}
			id := fmt.Sprintf("anymrtd/%d:", n)
			c := code
			for i := 0; i < n; i++ {
				o.TdQuoteBodyOptions.AnyMrTd = append(o.TdQuoteBodyOptions.AnyMrTd, am(c%5))
				id += akinds[c%5]
				c /= 5
			}
			add(id, raw0, o)
			// combined with the exact MrTd option in both states
			for _, ex := range []int{0, 1} {
				o2 := *o
				o2.TdQuoteBodyOptions.MrTd = am(ex)
				add(id+"+MrTd="+akinds[ex], raw0, &o2)
			}
		}
	}
	// 4. QE / PCE SVN minima around values that span both bytes
	for _, v := range []uint16{0, 1, 0x00ff, 0x0100, 0x0102, 0x0201, 0xfffe, 0xffff} {
		for _, which := range []string{"qe", "pce"} {
			m := append([]byte(nil), raw0...)
			if which == "qe" {
				binary.LittleEndian.PutUint16(m[10:], v)
			} else {
				binary.LittleEndian.PutUint16(m[8:], v)
			}
			for _, min := range []uint16{0, v - 1, v, v + 1, 0xffff, v<<8 | v>>8} {
				o := &validate.Options{}
				if which == "qe" {
					o.HeaderOptions.MinimumQeSvn = min
				} else {
					o.HeaderOptions.MinimumPceSvn = min
				}
				add(fmt.Sprintf("svn/%s=%#x,min=%#x", which, v, min), m, o)
			}
		}
	}
	// 4b. both header minima together (each is its own expectation; pairs whose sum, difference or bytes coincide)
	{
		set := []uint16{0, 1, 2, 0x00ff, 0x0100, 0x0208, 0x0209, 0x0d07, 0x0d08, 0x7fff, 0x8000, 0x8001, 25536, 40000, 0xfffe, 0xffff}
		for _, a := range set {
			for _, b := range set {
				o := &validate.Options{}
				o.HeaderOptions.MinimumQeSvn, o.HeaderOptions.MinimumPceSvn = a, b
				add(fmt.Sprintf("svn/min-qe=%#x,min-pce=%#x", a, b), raw0, o)
			}
		}
	}
	// 5. minimum TEE TCB SVN
	svn := raw0[48 : 48+16]
	mt := func(id string, raw []byte, v []byte) {
		o := &validate.Options{}
		o.TdQuoteBodyOptions.MinimumTeeTcbSvn = v
		add("teetcb/"+id, raw, o)
	}
	mt("nil", raw0, nil)
	mt("empty", raw0, []byte{})
	for _, n := range []int{1, 2, 15, 16, 17, 32} {
		v := make([]byte, n)
		copy(v, svn)
		mt(fmt.Sprintf("len%d-equal-prefix", n), raw0, v)
		z := make([]byte, n)
		mt(fmt.Sprintf("len%d-zero", n), raw0, z)
		h := make([]byte, n)
		for i := range h {
			h[i] = 0xff
		}
		mt(fmt.Sprintf("len%d-ff", n), raw0, h)
	}
	big := append([]byte(nil), raw0...)
	for i := 0; i < 16; i++ {
		big[48+i] = byte(0x80 + i)
	}
	for i := 0; i < 16; i++ {
		for _, d := range []int{-1, 1} {
			v := append([]byte(nil), big[48:64]...)
			v[i] = byte(int(v[i]) + d)
			mt(fmt.Sprintf("comp%d%+d", i, d), big, v)
		}
	}
	mt("equal-high", big, append([]byte(nil), big[48:64]...))
	// every pair of components moved in opposite directions (a comparison that is not component-wise,
	// e.g. lexicographic or summed, is only exposed by two differing positions)
	for i := 0; i < 16; i++ {
		for j := 0; j < 16; j++ {
			if i == j {
				continue
			}
			v := append([]byte(nil), big[48:64]...)
			v[i]--
			v[j]++
			mt(fmt.Sprintf("comp%d-1,comp%d+1", i, j), big, v)
		}
	}
	// 6. every single XFAM / TD_ATTRIBUTES bit, from the baseline and from all-zero (+fixed1)
	for _, f := range []struct {
		name string
		off  int
	}{{"td_attributes", 48 + 120}, {"xfam", 48 + 128}} {
		for _, start := range []string{"base", "zero", "module-version-1", "module-version-3+other-fields-ff"} {
			for bit := 0; bit < 64; bit++ {
				m := append([]byte(nil), raw0...)
				// the masks are architectural constants: what the rest of the quote says (TDX module version in
				// TEE_TCB_SVN[1], SEAM attributes, MR values) has no bearing on them
				switch start {
				case "module-version-1":
					m[48+1] = 1
				case "module-version-3+other-fields-ff":
					m[48+1] = 3
					for k := 48 + 16; k < 48+120; k++ {
						m[k] = 0xff
					}
					for k := 48 + 136; k < 48+584; k++ {
						m[k] = 0xff
					}
				}
				if start == "zero" {
					for k := 0; k < 8; k++ {
						m[f.off+k] = 0
					}
					if f.name == "xfam" {
						m[f.off] = 3
					}
				}
				m[f.off+bit/8] ^= 1 << uint(bit%8)
				add(fmt.Sprintf("mask/%s/%s^bit%d", f.name, start, bit), m, &validate.Options{})
				// the fixed-bit rules hold whatever else is configured: the same quote with each exact-match
				// option (including the field itself) pinned to the quote's own value, and with everything pinned
				all := &validate.Options{}
				for _, g := range optFields {
					o := &validate.Options{}
					g.set(o, append([]byte(nil), m[g.off:g.off+g.len]...))
					g.set(all, append([]byte(nil), m[g.off:g.off+g.len]...))
					add(fmt.Sprintf("mask/%s/%s^bit%d/with-%s-pinned", f.name, start, bit, g.name), m, o)
				}
				all.TdQuoteBodyOptions.AnyMrTd = [][]byte{append([]byte(nil), m[48+136:48+184]...)}
				all.TdQuoteBodyOptions.MinimumTeeTcbSvn = append([]byte(nil), m[48:64]...)
				add(fmt.Sprintf("mask/%s/%s^bit%d/with-everything-pinned", f.name, start, bit), m, all)
			}
		}
	}
	// 6b. every PAIR of XFAM / TD_ATTRIBUTES bits from all-zero (+fixed1): a permitted bit does not excuse another one
	for _, f := range []struct {
		name string
		off  int
	}{{"td_attributes", 48 + 120}, {"xfam", 48 + 128}} {
		for b1 := 0; b1 < 64; b1++ {
			for b2 := b1 + 1; b2 < 64; b2++ {
				m := append([]byte(nil), raw0...)
				for k := 0; k < 8; k++ {
					m[f.off+k] = 0
				}
				if f.name == "xfam" {
					m[f.off] = 3
				}
				m[f.off+b1/8] ^= 1 << uint(b1%8)
				m[f.off+b2/8] ^= 1 << uint(b2%8)
				add(fmt.Sprintf("mask/%s/zero^bit%d^bit%d", f.name, b1, b2), m, &validate.Options{})
			}
		}
	}
	// 6c. an expectation that spells the quote's value in another byte order (reversed, GUID mixed-endian, every 2 / 4 / 8
	// bytes reversed, halves exchanged): equal means equal octet for octet
	for _, f := range optFields {
		v0 := val(f)
		rev := func(x []byte) {
			for i, j := 0, len(x)-1; i < j; i, j = i+1, j-1 {
				x[i], x[j] = x[j], x[i]
			}
		}
		for _, mode := range []string{"reversed", "guid-mixed-endian", "each-2-reversed", "each-4-reversed", "each-8-reversed", "halves-exchanged"} {
			v := append([]byte(nil), v0...)
			switch mode {
			case "reversed":
				rev(v)
			case "guid-mixed-endian":
				if len(v) >= 8 {
					rev(v[0:4])
					rev(v[4:6])
					rev(v[6:8])
				}
			case "halves-exchanged":
				h := len(v) / 2
				copy(v, append(append([]byte{}, v0[h:]...), v0[:h]...))
			default:
				n := map[string]int{"each-2-reversed": 2, "each-4-reversed": 4, "each-8-reversed": 8}[mode]
				for o := 0; o+n <= len(v); o += n {
					rev(v[o : o+n])
				}
			}
			if bytes.Equal(v, v0) {
				continue
			}
			o := &validate.Options{}
			f.set(o, v)
			add("reencoded/"+f.name+"/"+mode, raw0, o)
			// ... and the other way round: the quote carries the re-encoded value, the option the plain one
			m := append([]byte(nil), raw0...)
			copy(m[f.off:f.off+f.len], v)
			o2 := &validate.Options{}
			f.set(o2, append([]byte(nil), v0...))
			add("reencoded-in-quote/"+f.name+"/"+mode, m, o2)
		}
	}
	// 7. cross-wiring: option A set to the quote's value of another same-sized field B
	for _, a := range optFields {
		for _, b := range optFields {
			if a.name == b.name || a.len != b.len {
				continue
			}
			o := &validate.Options{}
			a.set(o, val(b))
			add(fmt.Sprintf("cross/%s<-%s", a.name, b.name), raw0, o)
		}
		for i := 0; i < 4; i++ {
			if a.len == 48 {
				o := &validate.Options{}
				a.set(o, rt(i, 1))
				add(fmt.Sprintf("cross/%s<-rtmr%d", a.name, i), raw0, o)
				o2 := &validate.Options{}
				o2.TdQuoteBodyOptions.Rtmrs = [][]byte{{}, {}, {}, {}}
				o2.TdQuoteBodyOptions.Rtmrs[i] = val(a)
				add(fmt.Sprintf("cross/rtmr%d<-%s", i, a.name), raw0, o2)
			}
		}
	}
	for i := 0; i < 4; i++ {
		for j := 0; j < 4; j++ {
			if i != j {
				o := &validate.Options{}
				o.TdQuoteBodyOptions.Rtmrs = [][]byte{{}, {}, {}, {}}
				o.TdQuoteBodyOptions.Rtmrs[i] = rt(j, 1)
				add(fmt.Sprintf("cross/rtmr%d<-rtmr%d", i, j), raw0, o)
			}
		}
	}
	// 8. all pairs of option states {equal, different} x {equal, different} plus all-equal
	allEq := &validate.Options{}
	for _, f := range optFields {
		f.set(allEq, val(f))
	}
	allEq.TdQuoteBodyOptions.Rtmrs = [][]byte{rt(0, 1), rt(1, 1), rt(2, 1), rt(3, 1)}
	allEq.TdQuoteBodyOptions.AnyMrTd = [][]byte{am(1), am(0)}
	allEq.TdQuoteBodyOptions.MinimumTeeTcbSvn = append([]byte(nil), svn...)
	add("all-equal", raw0, allEq)
	for i, a := range optFields {
		for _, b := range optFields[i+1:] {
			for code := 1; code < 4; code++ {
				o := *allEq
				if code&1 != 0 {
					v := val(a)
					v[1] ^= 4
					a.set(&o, v)
				}
				if code&2 != 0 {
					v := val(b)
					v[len(v)-2] ^= 4
					b.set(&o, v)
				}
				add(fmt.Sprintf("pair/%s,%s/%d", a.name, b.name, code), raw0, &o)
			}
		}
	}
	// 9. every pair of exact-match options, each in every state (a comparison wired to a neighbouring option,
	// or a check that stops at the first problem, needs two configured fields to show)
	pstates := []string{"equal", "first", "last", "short", "long", "empty"}
	pval := func(f optField, st string) []byte {
		v := val(f)
		switch st {
		case "first":
			v[0] ^= 1
		case "last":
			v[len(v)-1] ^= 0x80
		case "short":
			v = v[:len(v)-1]
		case "long":
			v = append(v, 7)
		case "empty":
			v = []byte{}
		}
		return v
	}
	for i, a := range optFields {
		for _, b := range optFields[i+1:] {
			for _, sa := range pstates {
				for _, sb := range pstates {
					o := &validate.Options{}
					a.set(o, pval(a, sa))
					b.set(o, pval(b, sb))
					add(fmt.Sprintf("pairstates/%s=%s,%s=%s", a.name, sa, b.name, sb), raw0, o)
				}
			}
		}
	}
	// everything is decided twice: with the library's logger at its default level and at verbosity 2 (what the
	// tool's -verbosity flag sets) — what gets logged has no bearing on the verdict
	var done int
	for _, lvl := range []int{0, 2} {
		lvl := lvl
		world.SetLogLevel(lvl)
		done += r.Parallel(len(cases), func(i int) {
			c := cases[i]
			if lvl != 0 {
				// logging is slow: at verbosity 2 the single-field, length, list and fixed-bit cases, every 16th of the rest
				switch kindOf(c.id) {
				case "opt", "quote", "length", "straddle", "longlist", "nil-options-fields", "xfam", "tdattr", "svn":
				default:
					if i%16 != 0 {
						return
					}
				}
				c.id += ",log-level=2"
			}
			if !r.Want(c.id) {
				return
			}
			pol := polOf(c.opts)
			err := safeValidateRaw(c.raw, c.opts)
			out := c08Judge(r, c.id, kindOf(c.id), c.raw, pol, err)
			// message entry point must agree with the raw one
			if q, perr := safeToProto(c.raw); perr == nil {
				e2 := safeValidate(q, c.opts)
				if (e2 == nil) != (err == nil) && !world.IsPanic(err) {
					r.Violate("raw-vs-message:"+kindOf(c.id), c.id, "validate.TdxQuote and validate.RawTdxQuote disagree", nil)
				}
				// the message as another process would receive it (protobuf wire form: empty byte fields become nil)
				if wire, merr := proto.Marshal(q); merr == nil && (i%4 == 0 || kindOf(c.id) == "authless") {
					q3 := &pb.QuoteV4{}
					if proto.Unmarshal(wire, q3) == nil {
						if e3 := safeValidate(q3, c.opts); (e3 == nil) != (err == nil) && !world.IsPanic(err) {
							r.Violate("raw-vs-wire-message:"+kindOf(c.id), c.id, "validate.RawTdxQuote and validate.TdxQuote on the message after a protobuf wire round trip disagree: "+errStr(e3), nil)
						}
					}
				}
			}
			r.Eval(c.id, c.id != "nil-options-fields", kindOf(c.id)+":"+out)
		})
	}
	world.SetLogLevel(0)
	r.SectionDone(mc.Section{Name: "policy-products", Evaluations: int64(done), Exhaustive: done >= len(cases), Note: "every case at log level 0; single-field, length, list cases and every 16th of the rest again at log level 2"})
	c08Histories(r, raw0)
	c08MessageShapes(r, raw0)
	world.SetLogLevel(2)
	c08MessageShapes(r, raw0)
	world.SetLogLevel(0)
	// degenerate: nil options, wrong quote type
	for name, fn := range map[string]func() error{
		"nil-options":  func() error { return safeValidateRaw(raw0, nil) },
		"string-quote": func() error { return safeValidate("x", &validate.Options{}) },
	} {
		err := fn()
		if err == nil || world.IsPanic(err) {
			r.Violate("degenerate:"+name, "degenerate/"+name, "validation of a degenerate call did not return an error: "+errStr(err), nil)
		}
		r.Eval("degenerate/"+name, true, "degenerate:"+verdict(err))
	}
}

func kindOf(id string) string {
	for i := 0; i < len(id); i++ {
		if id[i] == '/' {
			return id[:i]
		}
	}
	return id
}

// c08Histories: every sequence of a fixed length over {reconfigure one option of ONE shared
// validate.Options value (fresh slice, in-place overwrite, list entry replaced, copy of the value),
// validate quote k}; every validation in a sequence is judged by the reference semantics applied to the
// options' contents at that moment, so a verdict that depends on an earlier call or configuration shows.
func c08Histories(r *mc.Run, raw0 []byte) {
	type op struct {
		name string
		do   func(o **validate.Options)
		q    int // >=0: validate quote q
	}
	other := func(v []byte) []byte {
		w := append([]byte(nil), v...)
		w[len(w)-1] ^= 0x5a
		w[0] ^= 0x01
		return w
	}
	mrtd := append([]byte(nil), raw0[48+136:48+184]...)
	q1 := append([]byte(nil), raw0...)
	copy(q1[48+136:], other(mrtd)) // quote 1 carries the "other" MR_TD
	q2 := append([]byte(nil), raw0...)
	q2[48+520+63] ^= 0x5a // quote 2: "other" report data (same transformation as other())
	q2[48+520] ^= 0x01
	quotes := [][]byte{raw0, q1, q2}
	var ops []op
	for _, f := range optFields {
		f := f
		v := append([]byte(nil), raw0[f.off:f.off+f.len]...)
		ops = append(ops,
			op{f.name + "=equal", func(o **validate.Options) { f.set(*o, append([]byte(nil), v...)) }, -1},
			op{f.name + "=other", func(o **validate.Options) { f.set(*o, other(v)) }, -1},
			op{f.name + "=nil", func(o **validate.Options) { f.set(*o, nil) }, -1})
	}
	// in-place edits of the slices the options value already holds
	ops = append(ops,
		op{"MrTd[in-place]^", func(o **validate.Options) {
			if b := (*o).TdQuoteBodyOptions.MrTd; len(b) > 0 {
				b[0] ^= 0x01
				b[len(b)-1] ^= 0x5a
			}
		}, -1},
		op{"ReportData[in-place]^", func(o **validate.Options) {
			if b := (*o).TdQuoteBodyOptions.ReportData; len(b) > 0 {
				b[0] ^= 0x01
				b[len(b)-1] ^= 0x5a
			}
		}, -1})
	t := func(o **validate.Options) *validate.TdQuoteBodyOptions { return &(*o).TdQuoteBodyOptions }
	ops = append(ops,
		op{"AnyMrTd=[equal]", func(o **validate.Options) { t(o).AnyMrTd = [][]byte{append([]byte(nil), mrtd...)} }, -1},
		op{"AnyMrTd=[other]", func(o **validate.Options) { t(o).AnyMrTd = [][]byte{other(mrtd)} }, -1},
		op{"AnyMrTd=[other,equal]", func(o **validate.Options) { t(o).AnyMrTd = [][]byte{other(mrtd), append([]byte(nil), mrtd...)} }, -1},
		op{"AnyMrTd=nil", func(o **validate.Options) { t(o).AnyMrTd = nil }, -1},
		op{"AnyMrTd[0]=other", func(o **validate.Options) {
			if l := t(o).AnyMrTd; len(l) > 0 {
				l[0] = other(mrtd)
			}
		}, -1},
		op{"AnyMrTd[0]=equal", func(o **validate.Options) {
			if l := t(o).AnyMrTd; len(l) > 0 {
				l[0] = append([]byte(nil), mrtd...)
			}
		}, -1},
		op{"AnyMrTd[last][in-place]^", func(o **validate.Options) {
			if l := t(o).AnyMrTd; len(l) > 0 && len(l[len(l)-1]) > 0 {
				b := l[len(l)-1]
				b[0] ^= 0x01
				b[len(b)-1] ^= 0x5a
			}
		}, -1})
	rtmrs := func() [][]byte {
		var l [][]byte
		for i := 0; i < 4; i++ {
			l = append(l, append([]byte(nil), raw0[48+328+48*i:48+376+48*i]...))
		}
		return l
	}
	ops = append(ops,
		op{"Rtmrs=equal", func(o **validate.Options) { t(o).Rtmrs = rtmrs() }, -1},
		op{"Rtmrs=nil", func(o **validate.Options) { t(o).Rtmrs = nil }, -1},
		op{"Rtmrs[2]=other", func(o **validate.Options) {
			if l := t(o).Rtmrs; len(l) == 4 {
				l[2] = other(l[2])
			}
		}, -1},
		op{"Rtmrs[3]=empty", func(o **validate.Options) {
			if l := t(o).Rtmrs; len(l) == 4 {
				l[3] = []byte{}
			}
		}, -1})
	tee := append([]byte(nil), raw0[48:64]...)
	teeUp := append([]byte(nil), tee...)
	teeUp[5]++
	pce, qe := binary.LittleEndian.Uint16(raw0[8:]), binary.LittleEndian.Uint16(raw0[10:])
	ops = append(ops,
		op{"MinimumTeeTcbSvn=equal", func(o **validate.Options) { t(o).MinimumTeeTcbSvn = append([]byte(nil), tee...) }, -1},
		op{"MinimumTeeTcbSvn=above", func(o **validate.Options) { t(o).MinimumTeeTcbSvn = append([]byte(nil), teeUp...) }, -1},
		op{"MinimumTeeTcbSvn=nil", func(o **validate.Options) { t(o).MinimumTeeTcbSvn = nil }, -1},
		op{"MinimumTeeTcbSvn[5]++", func(o **validate.Options) {
			if b := t(o).MinimumTeeTcbSvn; len(b) == 16 {
				b[5]++
			}
		}, -1},
		op{"MinimumPceSvn=equal", func(o **validate.Options) { (*o).HeaderOptions.MinimumPceSvn = pce }, -1},
		op{"MinimumPceSvn=above", func(o **validate.Options) { (*o).HeaderOptions.MinimumPceSvn = pce + 1 }, -1},
		op{"MinimumQeSvn=above", func(o **validate.Options) { (*o).HeaderOptions.MinimumQeSvn = qe + 1 }, -1},
		op{"MinimumQeSvn=0", func(o **validate.Options) { (*o).HeaderOptions.MinimumQeSvn = 0 }, -1},
		op{"copy-by-value", func(o **validate.Options) { c := **o; *o = &c }, -1})
	for qi := range quotes {
		ops = append(ops, op{fmt.Sprintf("validate(q%d)", qi), nil, qi})
	}
	inits := []struct {
		name string
		mk   func() *validate.Options
	}{
		{"empty", func() *validate.Options { return &validate.Options{} }},
		{"full", func() *validate.Options {
			o := &validate.Options{}
			for _, f := range optFields {
				f.set(o, append([]byte(nil), raw0[f.off:f.off+f.len]...))
			}
			o.TdQuoteBodyOptions.AnyMrTd = [][]byte{append([]byte(nil), mrtd...)}
			o.TdQuoteBodyOptions.Rtmrs = rtmrs()
			o.TdQuoteBodyOptions.MinimumTeeTcbSvn = append([]byte(nil), tee...)
			o.HeaderOptions.MinimumPceSvn, o.HeaderOptions.MinimumQeSvn = pce, qe
			return o
		}},
	}
	depth := 3
	if r.Thorough() {
		depth = 4
	}
	nv := len(quotes)
	n := len(ops)
	// sequences of exactly depth operations whose last one is a validation (shorter ones are their prefixes)
	total := nv
	for i := 1; i < depth; i++ {
		total *= n
	}
	for _, in := range inits {
		in := in
		done := r.Parallel(total, func(idx int) {
			seq := make([]int, depth)
			x := idx
			seq[depth-1] = n - nv + x%nv
			x /= nv
			for i := depth - 2; i >= 0; i-- {
				seq[i] = x % n
				x /= n
			}
			names := make([]string, depth)
			for i, k := range seq {
				names[i] = ops[k].name
			}
			id := "history/init:" + in.name + "/" + strings.Join(names, ";")
			if !r.Want(id) {
				return
			}
			o := in.mk()
			out := ""
			for i, k := range seq {
				if ops[k].q < 0 {
					ops[k].do(&o)
					continue
				}
				raw := quotes[ops[k].q]
				pol := polOf(o)
				err := safeValidateRaw(raw, o)
				out += c08Judge(r, id, fmt.Sprintf("history:step%d-of-%d", i+1, depth), raw, pol, err) + ";"
			}
			r.Eval(id, true, "history:"+out)
		})
		r.SectionDone(mc.Section{Name: "reused-options-histories/init:" + in.name, Evaluations: int64(done), MaxDepth: depth, Exhaustive: done == total,
			Note: fmt.Sprintf("alphabet of %d operations (%d reconfigurations, %d validations), every sequence of length %d ending in a validation", n, n-nv, nv, depth)})
	}
}

// c08MessageShapes: quote MESSAGES (not byte strings) whose TD body fields have other sizes than the layout gives them —
// one field shorter / longer / empty, and every ordered pair of fields where one loses exactly the bytes the other
// gains (the total stays 584) — validated under option values that configure an expectation on the resized field.
// The expectations are read literally on the message: an exact-match field equals the quote's or not; every one of the
// 16 configured minimum components must be met by a component the quote has; XFAM / TD_ATTRIBUTES respect the fixed
// masks only if they are 8-byte values that do. No message may crash validation or be accepted while missing one.
func c08MessageShapes(r *mc.Run, raw0 []byte) {
	q0, err := safeToProto(raw0)
	if err != nil {
		r.HarnessError("C08 message shapes: baseline does not parse: %v", err)
		return
	}
	type fld struct {
		name string
		get  func(b *pb.TDQuoteBody) *[]byte
	}
	flds := []fld{
		{"tee_tcb_svn", func(b *pb.TDQuoteBody) *[]byte { return &b.TeeTcbSvn }}, {"mr_seam", func(b *pb.TDQuoteBody) *[]byte { return &b.MrSeam }},
		{"mr_signer_seam", func(b *pb.TDQuoteBody) *[]byte { return &b.MrSignerSeam }}, {"seam_attributes", func(b *pb.TDQuoteBody) *[]byte { return &b.SeamAttributes }},
		{"td_attributes", func(b *pb.TDQuoteBody) *[]byte { return &b.TdAttributes }}, {"xfam", func(b *pb.TDQuoteBody) *[]byte { return &b.Xfam }},
		{"mr_td", func(b *pb.TDQuoteBody) *[]byte { return &b.MrTd }}, {"mr_config_id", func(b *pb.TDQuoteBody) *[]byte { return &b.MrConfigId }},
		{"mr_owner", func(b *pb.TDQuoteBody) *[]byte { return &b.MrOwner }}, {"mr_owner_config", func(b *pb.TDQuoteBody) *[]byte { return &b.MrOwnerConfig }},
		{"report_data", func(b *pb.TDQuoteBody) *[]byte { return &b.ReportData }},
	}
	for i := 0; i < 4; i++ {
		i := i
		flds = append(flds, fld{fmt.Sprintf("rtmrs[%d]", i), func(b *pb.TDQuoteBody) *[]byte { return &b.Rtmrs[i] }})
	}
	type shape struct {
		name string
		mut  func(b *pb.TDQuoteBody)
	}
	var shapes []shape
	shapes = append(shapes, shape{"genuine", func(*pb.TDQuoteBody) {}})
	resize := func(p *[]byte, d int) {
		v := append([]byte(nil), *p...)
		if d < 0 {
			v = v[:len(v)+d]
		} else {
			v = append(v, make([]byte, d)...)
		}
		*p = v
	}
	for i, a := range flds {
		a := a
		n := len(*a.get(q0.TdQuoteBody))
		for _, d := range []int{-1, -8, -n, 1, 8, 255, 256, 257, 512, 65536} {
			d := d
			if -d > n {
				continue
			}
			shapes = append(shapes, shape{fmt.Sprintf("%s%+d", a.name, d), func(b *pb.TDQuoteBody) { resize(a.get(b), d) }})
		}
		for j, bf := range flds {
			if i == j {
				continue
			}
			bf := bf
			for _, d := range []int{1, 8, n} {
				d := d
				if d > n || (d == 8 && n == 8) {
					continue
				}
				shapes = append(shapes, shape{fmt.Sprintf("%s-%d,%s+%d", a.name, d, bf.name, d), func(b *pb.TDQuoteBody) { resize(a.get(b), -d); resize(bf.get(b), d) }})
			}
		}
	}
	g := q0.TdQuoteBody
	cp := func(b []byte) []byte { return append([]byte(nil), b...) }
	type optv struct {
		name string
		mk   func() *validate.Options
	}
	opts := []optv{{"empty", func() *validate.Options { return &validate.Options{} }}}
	for _, k := range []int{0, 7, 8, 12, 15} {
		k := k
		opts = append(opts, optv{fmt.Sprintf("minimum_tee_tcb_svn[%d]=quote+1", k), func() *validate.Options {
			v := cp(g.TeeTcbSvn)
			v[k]++
			return &validate.Options{TdQuoteBodyOptions: validate.TdQuoteBodyOptions{MinimumTeeTcbSvn: v}}
		}})
	}
	opts = append(opts, optv{"minimum_tee_tcb_svn=quote", func() *validate.Options {
		return &validate.Options{TdQuoteBodyOptions: validate.TdQuoteBodyOptions{MinimumTeeTcbSvn: cp(g.TeeTcbSvn)}}
	}}, optv{"all-exact-fields=quote", func() *validate.Options {
		return &validate.Options{TdQuoteBodyOptions: validate.TdQuoteBodyOptions{MrSeam: cp(g.MrSeam), TdAttributes: cp(g.TdAttributes), Xfam: cp(g.Xfam), MrTd: cp(g.MrTd),
			MrConfigID: cp(g.MrConfigId), MrOwner: cp(g.MrOwner), MrOwnerConfig: cp(g.MrOwnerConfig), ReportData: cp(g.ReportData),
			Rtmrs: [][]byte{cp(g.Rtmrs[0]), cp(g.Rtmrs[1]), cp(g.Rtmrs[2]), cp(g.Rtmrs[3])}, AnyMrTd: [][]byte{cp(g.MrTd)}}}
	}})
	fixedOK := func(v []byte, fixed1, fixed0 uint64) bool {
		if len(v) != 8 {
			return false
		}
		x := binary.LittleEndian.Uint64(v)
		return x&fixed1 == fixed1 && x&^fixed0 == 0
	}
	holds := func(q *pb.QuoteV4, o *validate.Options) bool {
		b, t := q.TdQuoteBody, o.TdQuoteBodyOptions
		eq := func(want, got []byte) bool { return len(want) == 0 || bytes.Equal(want, got) }
		ok := eq(t.MrSeam, b.MrSeam) && eq(t.TdAttributes, b.TdAttributes) && eq(t.Xfam, b.Xfam) && eq(t.MrTd, b.MrTd) && eq(t.MrConfigID, b.MrConfigId) &&
			eq(t.MrOwner, b.MrOwner) && eq(t.MrOwnerConfig, b.MrOwnerConfig) && eq(t.ReportData, b.ReportData)
		for i, want := range t.Rtmrs {
			ok = ok && (i < len(b.Rtmrs) && eq(want, b.Rtmrs[i]))
		}
		if len(t.AnyMrTd) > 0 {
			in := false
			for _, e := range t.AnyMrTd {
				in = in || bytes.Equal(e, b.MrTd)
			}
			ok = ok && in
		}
		for i, m := range t.MinimumTeeTcbSvn {
			ok = ok && i < len(b.TeeTcbSvn) && b.TeeTcbSvn[i] >= m
		}
		// architectural masks (validate.go: xfamFixed1 / xfamFixed0 / tdAttributesFixed1 / tdAttributesFixed0)
		return ok && fixedOK(b.Xfam, 0x3, 0x0006DBE7) && fixedOK(b.TdAttributes, 0, 0x1|1<<28|1<<30|1<<63)
	}
	type job struct{ s, o int }
	var jobs []job
	for si := range shapes {
		for oi := range opts {
			jobs = append(jobs, job{si, oi})
		}
	}
	done := r.Parallel(len(jobs), func(i int) {
		sh, ov := shapes[jobs[i].s], opts[jobs[i].o]
		id := fmt.Sprintf("message-shape/%s/options=%s", sh.name, ov.name)
		if world.LogLevel() != 0 {
			id += ",log-level=2"
		}
		if !r.Want(id) {
			return
		}
		q := proto.Clone(q0).(*pb.QuoteV4)
		sh.mut(q.TdQuoteBody)
		o := ov.mk()
		err := safeValidate(q, o)
		want := holds(q, o)
		out := verdict(err)
		switch {
		case world.IsPanic(err):
			r.Violate("message-shape:panic:"+crashSite(err), id, "validate.TdxQuote crashes on a quote message with resized fields: "+errStr(err), nil)
			out = "panic"
		case err == nil && !want:
			r.Violate("message-shape:accepted-despite-miss:"+ov.name, id, "a quote message that misses a configured expectation (read literally on its fields) is accepted", nil)
			out = "accept!"
		case err != nil && sh.name == "genuine" && want:
			r.Violate("message-shape:genuine-rejected", id, "the genuine message is rejected under expectations it meets: "+errStr(err), nil)
			out = "reject!"
		}
		r.Eval(id, sh.name != "genuine", fmt.Sprintf("message-shape:holds=%v:%s", want, out))
	})
	r.SectionDone(mc.Section{Name: fmt.Sprintf("message-shapes/log-level=%d", world.LogLevel()), Evaluations: int64(done), Exhaustive: done == len(jobs),
		Note: fmt.Sprintf("%d message shapes (single resizes and every ordered compensating pair over %d TD body fields) x %d option values", len(shapes), len(flds), len(opts))})
}
