package checks

import (
	"crypto/ecdsa"
	"crypto/ed25519"
	"crypto/elliptic"
	"crypto/rsa"
	"crypto/x509"
	"crypto/x509/pkix"
	"encoding/asn1"
	"encoding/pem"
	"errors"
	"fmt"
	"math/big"
	"net/url"
	"regexp"
	"strings"
	"sync/atomic"
	"time"

	"github.com/google/go-tdx-guest/abi"
	"github.com/google/go-tdx-guest/pcs"
	pb "github.com/google/go-tdx-guest/proto/tdx"
	"github.com/google/go-tdx-guest/rtmr"
	"github.com/google/go-tdx-guest/validate"
	"github.com/google/go-tdx-guest/verify"
	"google.golang.org/protobuf/proto"

	"verifharness/mc"
	"verifharness/ref"
	"verifharness/world"
)

func init() {
	mc.Register(&mc.Check{ID: "C10", Category: "fault_enumeration",
		Rule:   "cases: (1) every truncation, size/type-field boundary value and pair, trailing-byte and cut-signed-data variant of honest quotes, and every 16-bit size/type field at all 65536 values (32-bit ones at 0..len+64 and the top 64 values), into the three raw entry points; (2) every single and double structural mutation of a valid message (sub-message nil/empty, bytes nil/0/n-1/n+1, list counts 0..5, numeric boundaries) into the eight message entry points; (3) every combination of <=2 faulty endpoint answers from a response menu at the four fetch points; (4) every truncation, tag replacement and length-octet change of the SGX extension DER. Each under recover with a 60 s watchdog. Non-trivial: not the unmodified baseline; distinct by id",
		Assume: []string{"unrecoverable runtime faults (stack exhaustion, OOM) would abort the run and be attributed to the whole check, not a case", "coverage-guided fuzzing named in the quantifier is sampling and is not performed"},
		Run:    runC10})
}

var frameRe = regexp.MustCompile(`github\.com/google/go-tdx-guest/([A-Za-z0-9_/.()*]+)\(`)

// crashSite extracts the innermost library frame of a recovered panic.
func crashSite(err error) string {
	pe, ok := err.(*world.PanicError)
	if !ok {
		return "?"
	}
	for _, line := range strings.Split(pe.Stack, "\n") {
		if m := frameRe.FindStringSubmatch(line); m != nil {
			return m[1]
		}
	}
	return "outside-library"
}

// guard runs fn under recover and a watchdog.
func guard(fn func() error) (err error, hung bool) {
	ch := make(chan error, 1)
	go func() {
		var e error
		func() {
			defer world.Recover(&e)
			e = fn()
		}()
		ch <- e
	}()
	select {
	case e := <-ch:
		return e, false
	case <-time.After(60 * time.Second):
		return nil, true
	}
}

// c10Call runs one entry point on one input and reports crashes / hangs.
func c10Call(r *mc.Run, id, entry string, detail any, fn func() error) {
	err, hung := guard(fn)
	out := "returns"
	if hung {
		r.Violate("hang:"+entry, id, entry+" did not return within the 60 s watchdog", detail)
		out = "hang"
	} else if world.IsPanic(err) {
		site := crashSite(err)
		r.Violate("panic:"+entry+":"+site, id, entry+" panics in "+site+": "+errStr(err), detail)
		out = "panic@" + site
	} else if err != nil {
		out = "error"
	}
	r.Eval(id+"/"+entry, true, entry+":"+out)
}

func runC10(r *mc.Run) {
	bases := c01Baselines()
	vopts := &validate.Options{}
	// (1) raw inputs
	for _, b := range bases {
		cases := rawInputCases(b.name, b.raw, b.reg, true)
		done := r.Parallel(len(cases), func(i int) {
			c := cases[i]
			if !r.Want(c.id) {
				return
			}
			d := map[string]any{"raw_quote_hex": hexs(c.raw)}
			c10Call(r, c.id, "abi.QuoteToProto", d, func() error { _, e := abi.QuoteToProto(c.raw); return e })
			c10Call(r, c.id, "verify.RawTdxQuote", d, func() error { return verify.RawTdxQuote(c.raw, b.w.Options(world.L0)) })
			c10Call(r, c.id, "validate.RawTdxQuote", d, func() error { return validate.RawTdxQuote(c.raw, vopts) })
		})
		r.SectionDone(mc.Section{Name: "raw/" + b.name, Evaluations: int64(done) * 3, Exhaustive: done == len(cases)})
	}
	for bi, b := range bases {
		if bi > 0 && !r.Thorough() {
			break
		}
		b := b
		walk := sizeWalk(b.raw, b.reg)
		done := r.Parallel(len(walk), func(i int) {
			c := walk[i].build(b.name, b.raw)
			if !r.Want(c.id) {
				return
			}
			d := map[string]any{"field": walk[i].f.name, "value": walk[i].v, "baseline": b.name}
			c10Call(r, c.id, "abi.QuoteToProto", d, func() error { _, e := abi.QuoteToProto(c.raw); return e })
			c10Call(r, c.id, "verify.RawTdxQuote", d, func() error { return verify.RawTdxQuote(c.raw, b.w.Options(world.L0)) })
			c10Call(r, c.id, "validate.RawTdxQuote", d, func() error { return validate.RawTdxQuote(c.raw, vopts) })
		})
		r.SectionDone(mc.Section{Name: "size-field-walk/" + b.name, Evaluations: int64(done) * 3, Exhaustive: done == len(walk)})
	}
	// degenerate raw inputs
	for i, raw := range [][]byte{nil, {}, {4}, {4, 0}, make([]byte, 636), make([]byte, 1020), make([]byte, 70000)} {
		raw := raw
		id := fmt.Sprintf("raw/degenerate/%d", i)
		if r.Want(id) {
			c10Call(r, id, "abi.QuoteToProto", nil, func() error { _, e := abi.QuoteToProto(raw); return e })
			c10Call(r, id, "verify.RawTdxQuote", nil, func() error { return verify.RawTdxQuote(raw, bases[0].w.Options(world.L0)) })
			c10Call(r, id, "validate.RawTdxQuote", nil, func() error { return validate.RawTdxQuote(raw, vopts) })
		}
	}

	// (2) structural message mutations: singles and pairs
	q0 := expectedMessage(bases[0].p)
	muts := structuralMutations(q0)
	type pair struct{ a, b int }
	var work []pair
	for i := range muts {
		work = append(work, pair{i, -1})
	}
	for i := range muts {
		for j := i + 1; j < len(muts); j++ {
			work = append(work, pair{i, j})
		}
	}
	w := bases[0].w
	entries := func(id string, q *pb.QuoteV4, single bool) {
		var any1 any = q
		c10Call(r, id, "abi.QuoteToAbiBytes", nil, func() error { _, e := abi.QuoteToAbiBytes(any1); return e })
		c10Call(r, id, "abi.CheckQuoteV4", nil, func() error { return abi.CheckQuoteV4(q) })
		c10Call(r, id, "abi.HeaderToAbiBytes", nil, func() error { _, e := abi.HeaderToAbiBytes(q.GetHeader()); return e })
		c10Call(r, id, "abi.TdQuoteBodyToAbiBytes", nil, func() error { _, e := abi.TdQuoteBodyToAbiBytes(q.GetTdQuoteBody()); return e })
		c10Call(r, id, "abi.EnclaveReportToAbiBytes", nil, func() error {
			_, e := abi.EnclaveReportToAbiBytes(q.GetSignedData().GetCertificationData().GetQeReportCertificationData().GetQeReport())
			return e
		})
		c10Call(r, id, "verify.TdxQuote", nil, func() error { return verify.TdxQuote(any1, w.Options(world.L0)) })
		if single {
			c10Call(r, id, "verify.TdxQuote/L2", nil, func() error { return verify.TdxQuote(any1, w.Options(world.L2)) })
			// the second exported entry point that judges a message against collateral: it runs on options through which
			// a (genuine) quote was verified before, without the message checks TdxQuote starts with
			primed := w.Options(world.L1)
			world.SafeVerifyRaw(bases[0].raw, primed)
			c10Call(r, id, "verify.SupportedTcbLevelsFromCollateral/primed-options", nil, func() error {
				_, _, e := verify.SupportedTcbLevelsFromCollateral(any1, primed)
				return e
			})
			c10Call(r, id, "verify.SupportedTcbLevelsFromCollateral/fresh-options", nil, func() error {
				_, _, e := verify.SupportedTcbLevelsFromCollateral(any1, w.Options(world.L1))
				return e
			})
		}
		c10Call(r, id, "verify.ExtractChainFromQuote", nil, func() error { _, e := verify.ExtractChainFromQuote(any1); return e })
		c10Call(r, id, "validate.TdxQuote", nil, func() error { return validate.TdxQuote(any1, vopts) })
	}
	done := r.Parallel(len(work), func(i int) {
		p := work[i]
		id := "msg/" + muts[p.a].name
		if p.b >= 0 {
			id += "+" + muts[p.b].name
		}
		if !r.Want(id) {
			return
		}
		q := proto.Clone(q0).(*pb.QuoteV4)
		muts[p.a].apply(q)
		if p.b >= 0 {
			muts[p.b].apply(q)
		}
		entries(id, q, p.b < 0)
	})
	r.SectionDone(mc.Section{Name: "message-mutations", Evaluations: int64(done) * 8, Exhaustive: done == len(work),
		Note: fmt.Sprintf("%d single mutations, all %d pairs", len(muts), len(work)-len(muts))})
	if r.Thorough() {
		// all triples of structural mutations (three inconsistent places at once); verification entry points only at L0
		nm := len(muts)
		var triples int64
		doneT := r.Parallel(nm*nm, func(idx int) {
			i, j := idx/nm, idx%nm
			if i >= j {
				return
			}
			for k := j + 1; k < nm; k++ {
				id := "msg/" + muts[i].name + "+" + muts[j].name + "+" + muts[k].name
				if !r.Want(id) {
					continue
				}
				q := proto.Clone(q0).(*pb.QuoteV4)
				muts[i].apply(q)
				muts[j].apply(q)
				muts[k].apply(q)
				entries(id, q, false)
				atomic.AddInt64(&triples, 1)
			}
		})
		r.SectionDone(mc.Section{Name: "message-mutations/triples", Evaluations: triples * 8, Exhaustive: doneT == nm*nm,
			Note: fmt.Sprintf("all %d triples of the %d single mutations", triples, nm)})
	}
	// well-formed messages whose variable-length parts have other (consistent) sizes, up to the limits of their
	// size fields and across the 16-bit boundaries of the lengths nested around them
	{
		type sz struct{ a, c int }
		var szs []sz
		for _, a := range []int{0, 1, 2, 31, 33, 253, 254, 255, 256, 257, 258, 32766, 32767, 32768, 32769, 65529, 65530, 65531, 65532, 65533, 65534, 65535} {
			szs = append(szs, sz{a, -1}, sz{a, 0})
		}
		for _, c := range []int{1, 65079, 65080, 65081, 65527, 65528, 65529, 65533, 65534, 65535, 65536, 65537, 131070, 131071, 131072, 131073} {
			szs = append(szs, sz{32, c}, sz{0, c})
		}
		doneS := r.Parallel(len(szs), func(i int) {
			id := fmt.Sprintf("msg/consistent-sizes/auth=%d,chain=%d", szs[i].a, szs[i].c)
			if !r.Want(id) {
				return
			}
			p := bases[0].w.Parts.Clone()
			p.Auth = world.Fill("c10auth", szs[i].a)
			if szs[i].c >= 0 {
				p.Chain = world.Fill("c10chain", szs[i].c)
			}
			raw, _ := p.Bytes()
			rp, perr := ref.ParseQuote(raw)
			if perr != nil {
				r.HarnessError("C10: reference parser rejects a generated well-formed quote %s: %v", id, perr)
				return
			}
			entries(id, expectedMessage(rp), true)
			c10Call(r, id, "abi.QuoteToProto", nil, func() error { _, e := abi.QuoteToProto(raw); return e })
			c10Call(r, id, "verify.RawTdxQuote", nil, func() error { return verify.RawTdxQuote(raw, w.Options(world.L0)) })
			c10Call(r, id, "validate.RawTdxQuote", nil, func() error { return validate.RawTdxQuote(raw, vopts) })
		})
		r.SectionDone(mc.Section{Name: "message-consistent-sizes", Evaluations: int64(doneS) * 12, Exhaustive: doneS == len(szs)})
	}
	// RTMR lists of other shapes that still add up to 4 x 48 bytes (and some that do not)
	{
		splits := [][]int{{96, 48, 48}, {48, 96, 48}, {48, 48, 96}, {96, 96}, {192}, {144, 48}, {48, 144}, {47, 49, 48, 48}, {0, 96, 48, 48}, {48, 48, 48, 48, 0}, {0, 48, 48, 48, 48},
			{48, 48, 48, 24, 24}, {24, 24, 24, 24, 24, 24, 24, 24}, {1, 191}, {191, 1}, {48, 48, 48}, {48, 48, 48, 48, 48}, {64, 64, 64}, {0, 0, 0, 192}, {192, 0, 0, 0}, {0, 0, 0, 0}, {}}
		all := make([]byte, 0, 192)
		for _, x := range q0.GetTdQuoteBody().GetRtmrs() {
			all = append(all, x...)
		}
		for len(all) < 192 {
			all = append(all, 0)
		}
		doneR := r.Parallel(len(splits), func(i int) {
			id := fmt.Sprintf("msg/rtmr-list-shape/%v", splits[i])
			if !r.Want(id) {
				return
			}
			q := proto.Clone(q0).(*pb.QuoteV4)
			var list [][]byte
			off := 0
			for _, n := range splits[i] {
				e := make([]byte, n)
				if off+n <= len(all) {
					copy(e, all[off:off+n])
				}
				off += n
				list = append(list, e)
			}
			q.TdQuoteBody.Rtmrs = list
			entries(id, q, true)
			c10Call(r, id, "rtmr.GetRtmrsFromTdQuote", nil, func() error { _, e := rtmr.GetRtmrsFromTdQuote(q); return e })
		})
		r.SectionDone(mc.Section{Name: "message-rtmr-list-shapes", Evaluations: int64(doneR) * 10, Exhaustive: doneR == len(splits)})
	}
	// nil-ish messages
	for name, q := range map[string]any{"typed-nil": (*pb.QuoteV4)(nil), "empty": &pb.QuoteV4{}, "untyped-nil": nil, "other-type": &pb.Header{}, "string": "quote"} {
		q := q
		id := "msg/degenerate/" + name
		if !r.Want(id) {
			continue
		}
		c10Call(r, id, "abi.QuoteToAbiBytes", nil, func() error { _, e := abi.QuoteToAbiBytes(q); return e })
		c10Call(r, id, "verify.TdxQuote", nil, func() error { return verify.TdxQuote(q, w.Options(world.L0)) })
		c10Call(r, id, "verify.TdxQuote/L2", nil, func() error { return verify.TdxQuote(q, w.Options(world.L2)) })
		c10Call(r, id, "verify.ExtractChainFromQuote", nil, func() error { _, e := verify.ExtractChainFromQuote(q); return e })
		c10Call(r, id, "validate.TdxQuote", nil, func() error { return validate.TdxQuote(q, vopts) })
		if qq, ok := q.(*pb.QuoteV4); ok {
			c10Call(r, id, "abi.CheckQuoteV4", nil, func() error { return abi.CheckQuoteV4(qq) })
		}
	}
	c10Call(r, "msg/degenerate/nil-parts", "abi.HeaderToAbiBytes", nil, func() error { _, e := abi.HeaderToAbiBytes(nil); return e })
	c10Call(r, "msg/degenerate/nil-parts", "abi.TdQuoteBodyToAbiBytes", nil, func() error { _, e := abi.TdQuoteBodyToAbiBytes(nil); return e })
	c10Call(r, "msg/degenerate/nil-parts", "abi.EnclaveReportToAbiBytes", nil, func() error { _, e := abi.EnclaveReportToAbiBytes(nil); return e })
	c10Call(r, "msg/degenerate/nil-options", "verify.TdxQuote", nil, func() error { return verify.TdxQuote(q0, nil) })
	c10Call(r, "msg/degenerate/nil-options", "validate.TdxQuote", nil, func() error { return validate.TdxQuote(q0, nil) })
	c10Call(r, "msg/degenerate/zero-options", "verify.TdxQuote", nil, func() error {
		return verify.TdxQuote(q0, &verify.Options{TrustedRoots: w.Roots})
	})

	// (2b) certificates whose subject public key is of another type than the signature algorithm they were
	// signed with (an ECDSA-signed certificate carrying an Ed25519 / RSA / other-curve key), at every position of
	// the quote's chain and of the issuer-chain headers
	c10KeyTypes(r, w, vopts)

	// (2c) well-formed, correctly signed TCB Info of every small shape of the TDX module identity list, against quotes
	// whose module version / SVN select every position in it
	c10ModuleIdentityShapes(r)
	c10LevelComponentShapes(r)
	c10IdentityFieldLengths(r)
	c10TcbMemberPairs(r)
	c10RootCrlPoints(r)
	c10CertificateNames(r)

	// (3) arbitrary endpoint behaviour
	c10Endpoints(r, bases[0])
	// (4) arbitrary DER in the SGX extension
	c10SgxDER(r, bases[0])
}

// endpointMenu returns faulty answers for an endpoint whose honest answer is good.
func endpointMenu(good world.Response, hdrKey string) []struct {
	name string
	resp world.Response
} {
	type alt = struct {
		name string
		resp world.Response
	}
	body := func(b []byte) world.Response { return world.Response{Header: good.Header, Body: b} }
	hdr := func(h map[string][]string) world.Response { return world.Response{Header: h, Body: good.Body} }
	deep := strings.Repeat("[", 12000) + strings.Repeat("]", 12000)
	out := []alt{
		{"error", world.Response{Err: fmt.Errorf("connection refused")}},
		{"empty-body", body(nil)},
		{"null", body([]byte("null"))},
		{"empty-object", body([]byte("{}"))},
		{"array", body([]byte("[]"))},
		{"garbage", body(world.Fill("garbage", 300))},
		{"deep-nesting", body([]byte(`{"tcbInfo":` + deep + `,"enclaveIdentity":` + deep + `,"signature":"00"}`))},
		{"members-null", body([]byte(`{"tcbInfo":null,"enclaveIdentity":null,"signature":null}`))},
		{"members-wrong-type", body([]byte(`{"tcbInfo":7,"enclaveIdentity":"x","signature":[]}`))},
		{"fields-wrong-type", body([]byte(`{"tcbInfo":{"id":1,"version":"3","tcbLevels":{},"tdxModule":[],"fmspc":5},"enclaveIdentity":{"id":[],"miscselect":5,"tcbLevels":"x"},"signature":"zz"}`))},
		{"numbers-out-of-range", body([]byte(`{"tcbInfo":{"id":"TDX","version":300,"tcbLevels":[{"tcb":{"sgxtcbcomponents":[{"svn":256}],"pcesvn":65536,"isvsvn":4294967296},"tcbStatus":"UpToDate"}]},"enclaveIdentity":{"id":"TD_QE","version":-1,"isvprodid":70000,"tcbLevels":[{"tcb":{"isvsvn":-1},"tcbStatus":"UpToDate"}]},"signature":"00"}`))},
		{"invalid-hex", body([]byte(`{"tcbInfo":{"id":"TDX","version":3,"tdxModule":{"mrsigner":"zz","attributes":"0","attributesMask":"f"},"tcbLevels":[{"tcbStatus":"UpToDate"}]},"enclaveIdentity":{"id":"TD_QE","version":2,"miscselect":"0","miscselectMask":"xyz","attributes":"","attributesMask":"","mrsigner":"0g","tcbLevels":[{"tcbStatus":"UpToDate"}]},"signature":"0"}`))},
		{"short-fields", body([]byte(`{"tcbInfo":{"id":"TDX","version":3,"fmspc":"","pceId":"","tdxModule":{"mrsigner":"","attributes":"","attributesMask":""},"tcbLevels":[{"tcb":{"sgxtcbcomponents":[],"tdxtcbcomponents":[{"svn":1}]},"tcbStatus":"UpToDate"}]},"enclaveIdentity":{"id":"TD_QE","version":2,"miscselect":"00","miscselectMask":"00","attributes":"00","attributesMask":"00","mrsigner":"","tcbLevels":[{"tcb":{},"tcbStatus":"UpToDate"}]},"signature":""}`))},
		{"unknown-status", body([]byte(`{"tcbInfo":{"id":"TDX","version":3,"tcbLevels":[{"tcbStatus":"Fine"}]},"enclaveIdentity":{"id":"TD_QE","version":2,"tcbLevels":[{"tcbStatus":7}]},"signature":"00"}`))},
		{"non-der", body([]byte("-----BEGIN X509 CRL-----\nAAAA\n-----END X509 CRL-----\n"))},
		{"pem-begin-line-only", body([]byte("-----BEGIN X509 CRL-----\n"))},
		{"pem-begin-without-newline", body([]byte("-----BEGIN X509 CRL-----"))},
		{"pem-no-end-line", body([]byte("-----BEGIN X509 CRL-----\nAAAA\n"))},
		{"pem-corrupt-base64", body([]byte("-----BEGIN X509 CRL-----\n!!!!not base64!!!!\n-----END X509 CRL-----\n"))},
		{"pem-end-label-differs", body([]byte("-----BEGIN X509 CRL-----\nAAAA\n-----END CERTIFICATE-----\n"))},
		{"pem-of-the-genuine-body", body(world.PEMBlock("X509 CRL", good.Body))},
		{"pem-headers-only", body([]byte("-----BEGIN X509 CRL-----\nProc-Type: 4,ENCRYPTED\n\n-----END X509 CRL-----\n"))},
		{"text-that-starts-like-json-then-pem", body([]byte("{\"a\":1}\n-----BEGIN X509 CRL-----\n"))},
		{"der-truncated", body(good.Body[:len(good.Body)/2])},
		{"header-absent", hdr(nil)},
		{"header-empty-map", hdr(map[string][]string{})},
		{"header-empty-value", hdr(map[string][]string{hdrKey: {""}})},
		{"header-no-values", hdr(map[string][]string{hdrKey: {}})},
		{"header-two-values", hdr(map[string][]string{hdrKey: {"a", "b"}})},
		{"header-bad-escape", hdr(map[string][]string{hdrKey: {"%zz"}})},
		{"header-first-cert-only", hdr(map[string][]string{hdrKey: {firstPEM(good.Header[hdrKey])}})},
		{"header-second-cert-only", hdr(map[string][]string{hdrKey: {secondPEM(good.Header[hdrKey])}})},
		{"header-three-certs", hdr(map[string][]string{hdrKey: {firstPEM(good.Header[hdrKey]) + firstPEM(good.Header[hdrKey]) + secondPEM(good.Header[hdrKey])}})},
		{"header-cert-plus-junk", hdr(map[string][]string{hdrKey: {firstPEM(good.Header[hdrKey]) + "junk"}})},
		{"header-garbage-pem", hdr(map[string][]string{hdrKey: {"-----BEGIN%20CERTIFICATE-----%0AAAAA%0A-----END%20CERTIFICATE-----%0A-----BEGIN%20CERTIFICATE-----%0AAAAA%0A-----END%20CERTIFICATE-----%0A"}})},
		{"header-not-pem", hdr(map[string][]string{hdrKey: {"hello"}})},
	}
	// truncations of the genuine body at every 64th byte
	for n := 0; n < len(good.Body); n += 64 {
		out = append(out, alt{fmt.Sprintf("trunc@%d", n), body(good.Body[:n])})
	}
	return out
}

func firstPEM(vals []string) string {
	if len(vals) == 0 {
		return ""
	}
	raw, err := url.QueryUnescape(vals[0])
	if err != nil {
		return vals[0]
	}
	blk, _ := pem.Decode([]byte(raw))
	if blk == nil {
		return vals[0]
	}
	return url.QueryEscape(string(pem.EncodeToMemory(blk)))
}

// secondPEM is the issuer-chain header value with only its second certificate.
func secondPEM(vals []string) string {
	if len(vals) == 0 {
		return ""
	}
	raw, err := url.QueryUnescape(vals[0])
	if err != nil {
		return vals[0]
	}
	_, rest := pem.Decode([]byte(raw))
	blk, _ := pem.Decode(rest)
	if blk == nil {
		return vals[0]
	}
	return url.QueryEscape(string(pem.EncodeToMemory(blk)))
}

func c10Endpoints(r *mc.Run, b *c01base) {
	w := b.w
	urls := []struct{ url, hdr string }{
		{world.URLTcbInfo(hexs(w.Plat.FMSPC)), world.HdrTcbInfo}, {world.URLQeIdentity, world.HdrQeIdentity},
		{world.URLPckCrl("platform"), world.HdrPckCrl}, {world.RootCRLURL, ""},
	}
	menus := make([][]struct {
		name string
		resp world.Response
	}, len(urls))
	for i, u := range urls {
		menus[i] = endpointMenu(w.Getter.Responses[u.url], u.hdr)
	}
	bound := 2
	st := r.Explore("endpoints", bound, func(c *mc.Ctx) {
		g := w.Getter.Clone()
		for i, u := range urls {
			if k := c.Choose("ep"+fmt.Sprint(i), len(menus[i])+1); k > 0 {
				g.Responses[u.url] = menus[i][k-1].resp
			}
		}
		id := "endpoint/" + c.ID()
		if !r.Want(id) {
			return
		}
		now := w.Now
		c10Call(r, id, "verify.TdxQuote/L2", nil, func() error {
			return verify.RawTdxQuote(b.raw, &verify.Options{GetCollateral: true, CheckRevocations: true, Getter: g, Now: &now, TrustedRoots: w.Roots})
		})
	})
	_ = st
}

// derNodes lists (offset of tag, offset of first length octet, header length, content length) for every TLV in b.
func derNodes(b []byte) [][4]int {
	var out [][4]int
	var walk func(off, end int)
	walk = func(off, end int) {
		for off < end {
			if off+2 > end {
				return
			}
			tag := b[off]
			l := int(b[off+1])
			hl := 2
			if l&0x80 != 0 {
				n := l & 0x7f
				if n == 0 || n > 3 || off+2+n > end {
					return
				}
				l = 0
				for k := 0; k < n; k++ {
					l = l<<8 | int(b[off+2+k])
				}
				hl = 2 + n
			}
			if off+hl+l > end {
				return
			}
			out = append(out, [4]int{off, off + 1, hl, l})
			if tag&0x20 != 0 {
				walk(off+hl, off+hl+l)
			}
			off += hl + l
		}
	}
	walk(0, len(b))
	return out
}

func c10SgxDER(r *mc.Run, b *c01base) {
	good := world.SGXExtension(b.w.Plat)
	type dcase struct {
		id  string
		der []byte
	}
	var cases []dcase
	for n := 0; n < len(good); n++ {
		cases = append(cases, dcase{fmt.Sprintf("sgxder/trunc/%d", n), good[:n:n]})
	}
	tags := []byte{0x02, 0x04, 0x05, 0x06, 0x0a, 0x0c, 0x13, 0x30, 0x31, 0x01, 0x03, 0x17, 0xa0, 0x00, 0xff, 0x1f}
	for _, nd := range derNodes(good) {
		for _, t := range tags {
			if good[nd[0]] == t {
				continue
			}
			m := append([]byte(nil), good...)
			m[nd[0]] = t
			cases = append(cases, dcase{fmt.Sprintf("sgxder/tag@%d=%#x", nd[0], t), m})
		}
		for _, d := range []int{-1, 1} {
			m := append([]byte(nil), good...)
			m[nd[0]+nd[2]-1] = byte(int(m[nd[0]+nd[2]-1]) + d)
			cases = append(cases, dcase{fmt.Sprintf("sgxder/len@%d%+d", nd[0], d), m})
		}
		m := append([]byte(nil), good...)
		m[nd[1]] = 0x80 // indefinite length
		cases = append(cases, dcase{fmt.Sprintf("sgxder/indef@%d", nd[0]), m})
		m2 := append([]byte(nil), good...)
		m2[nd[1]] = 0x84
		cases = append(cases, dcase{fmt.Sprintf("sgxder/longlen@%d", nd[0]), m2})
	}
	// every byte of the encoding at a menu of values (OID arcs, integer contents, string contents, lengths)
	for off := range good {
		seen := map[byte]bool{good[off]: true}
		for _, v := range []byte{0x00, 0x01, 0x7f, 0x80, 0xff, good[off] ^ 1, good[off] + 1, good[off] - 1, good[off] ^ 0x80} {
			if seen[v] {
				continue
			}
			seen[v] = true
			m := append([]byte(nil), good...)
			m[off] = v
			cases = append(cases, dcase{fmt.Sprintf("sgxder/byte@%d=%#x", off, v), m})
		}
	}
	cases = append(cases, dcase{"sgxder/empty", []byte{}}, dcase{"sgxder/null", []byte{5, 0}}, dcase{"sgxder/emptyseq", []byte{0x30, 0}})
	// element counts: every top-level element repeated 1..4 more times (at the end and right behind itself), all of
	// them twice, one or more removed; every TCB element repeated; an extension of 40 unknown elements
	{
		top, tcb := world.SGXElems(b.w.Plat)
		order := []string{"ppid", "tcb", "pceid", "fmspc", "type"}
		elem := func(k string) []byte {
			if k == "tcb" {
				return world.SGXTcbElem(tcb)
			}
			return top[k]
		}
		for i, k := range order {
			for extra := 1; extra <= 4; extra++ {
				var atEnd, behind [][]byte
				for j, kk := range order {
					atEnd = append(atEnd, elem(kk))
					behind = append(behind, elem(kk))
					if j == i {
						for e := 0; e < extra; e++ {
							behind = append(behind, elem(kk))
						}
					}
				}
				for e := 0; e < extra; e++ {
					atEnd = append(atEnd, elem(k))
				}
				cases = append(cases, dcase{fmt.Sprintf("sgxder/repeat/%s+%d-at-end", k, extra), world.DERSeq(atEnd...)},
					dcase{fmt.Sprintf("sgxder/repeat/%s+%d-behind-itself", k, extra), world.DERSeq(behind...)})
			}
			var without [][]byte
			for j, kk := range order {
				if j != i {
					without = append(without, elem(kk))
				}
			}
			cases = append(cases, dcase{"sgxder/without/" + k, world.DERSeq(without...)})
			cases = append(cases, dcase{"sgxder/only/" + k, world.DERSeq(elem(k))})
		}
		var twice, unknown [][]byte
		for _, kk := range order {
			twice = append(twice, elem(kk), elem(kk))
		}
		cases = append(cases, dcase{"sgxder/repeat/all-twice", world.DERSeq(twice...)})
		for i := 0; i < 40; i++ {
			unknown = append(unknown, world.DERSeq(world.DEROID([]int{1, 2, 840, 113741, 1, 13, 1, 40 + i}), world.DEROctet([]byte{byte(i)})))
		}
		cases = append(cases, dcase{"sgxder/40-unknown-elements", world.DERSeq(unknown...)})
		cases = append(cases, dcase{"sgxder/known+40-unknown-elements", world.DERSeq(append(append([][]byte{}, twice[0], twice[2], twice[4], twice[6], twice[8]), unknown...)...)})
		for i := range tcb {
			t2 := append(append([][]byte(nil), tcb...), tcb[i])
			var seq [][]byte
			for _, kk := range order {
				if kk == "tcb" {
					seq = append(seq, world.SGXTcbElem(t2))
				} else {
					seq = append(seq, elem(kk))
				}
			}
			cases = append(cases, dcase{fmt.Sprintf("sgxder/repeat/tcb-element%d", i+1), world.DERSeq(seq...)})
		}
	}
	pki := b.w.PKI
	done := r.Parallel(len(cases), func(i int) {
		c := cases[i]
		if !r.Want(c.id) {
			return
		}
		exts := []pkix.Extension{{Id: asn1.ObjectIdentifier{2, 5, 29, 35}}, {Id: asn1.ObjectIdentifier{2, 5, 29, 31}}, {Id: asn1.ObjectIdentifier{2, 5, 29, 14}},
			{Id: asn1.ObjectIdentifier{2, 5, 29, 15}}, {Id: asn1.ObjectIdentifier{2, 5, 29, 19}}, {Id: world.OidSGX, Value: c.der}}
		d := map[string]any{"sgx_extension_hex": hexs(c.der)}
		c10Call(r, c.id, "pcs.PckCertificateExtensions", d, func() error {
			_, e := pcs.PckCertificateExtensions(&x509.Certificate{Extensions: exts})
			return e
		})
		if r.Thorough() || i%1 == 0 {
			// the same bytes inside a genuinely issued leaf, through the verifier
			var leaf *x509.Certificate
			func() {
				defer func() { recover() }()
				leaf = world.MakeCert(world.CertSpec{CN: world.CNLeaf, Key: pki.LeafKey, SGXExt: nonNil(c.der)}, pki.Inter, pki.InterKey)
			}()
			if leaf == nil {
				return
			}
			p := b.w.Parts.Clone()
			p.Chain = world.PEM(leaf, pki.Inter, pki.Root)
			raw, _ := p.Bytes()
			c10Call(r, c.id, "verify.RawTdxQuote", d, func() error { return verify.RawTdxQuote(raw, b.w.Options(world.L1)) })
		}
	})
	r.SectionDone(mc.Section{Name: "sgx-extension-der", Evaluations: int64(done) * 2, Exhaustive: done == len(cases)})
	// nil / odd certificates
	c10Call(r, "sgxder/cert-no-extensions", "pcs.PckCertificateExtensions", nil, func() error {
		_, e := pcs.PckCertificateExtensions(&x509.Certificate{})
		return e
	})
	c10Call(r, "sgxder/cert-root", "pcs.PckCertificateExtensions", nil, func() error {
		_, e := pcs.PckCertificateExtensions(pki.Root)
		return e
	})
}

func nonNil(b []byte) []byte {
	if b == nil || len(b) == 0 {
		return []byte{}
	}
	return b
}

func c10KeyTypes(r *mc.Run, w *world.World, vopts *validate.Options) {
	T := w.PKI
	edPub := ed25519.NewKeyFromSeed(world.Fill("c10-ed25519-seed", 32)).Public()
	rsaN := new(big.Int).SetBytes(world.Fill("c10-rsa-modulus", 256))
	rsaN.SetBit(rsaN, 2047, 1)
	rsaN.SetBit(rsaN, 0, 1)
	p384, _ := ecdsa.GenerateKey(elliptic.P384(), detReader("c10-p384"))
	p224, _ := ecdsa.GenerateKey(elliptic.P224(), detReader("c10-p224"))
	p521, _ := ecdsa.GenerateKey(elliptic.P521(), detReader("c10-p521"))
	keys := []struct {
		name string
		pub  any
	}{{"ed25519", edPub}, {"rsa2048", &rsa.PublicKey{N: rsaN, E: 65537}}, {"p384", &p384.PublicKey}, {"p224", &p224.PublicKey}, {"p521", &p521.PublicKey}}
	type variant struct {
		name  string
		apply func(p *world.QuoteParts, g *world.Getter, pub any)
	}
	leafSpec := func(pub any) *x509.Certificate {
		return world.MakeCert(world.CertSpec{CN: world.CNLeaf, Key: T.LeafKey, PubKey: pub, SGXExt: world.SGXExtension(w.Plat)}, T.Inter, T.InterKey)
	}
	interSpec := func(pub any) *x509.Certificate {
		return world.MakeCert(world.CertSpec{CN: world.CNPlatform, IsCA: true, Key: T.InterKey, PubKey: pub, MaxPathLen: -1}, T.Root, T.RootKey)
	}
	rootSpec := func(pub any) *x509.Certificate {
		return world.MakeCert(world.CertSpec{CN: world.CNRoot, IsCA: true, Key: T.RootKey, PubKey: pub, MaxPathLen: 1}, nil, T.RootKey)
	}
	tcbSpec := func(pub any) *x509.Certificate {
		return world.MakeCert(world.CertSpec{CN: world.CNTcb, Key: T.TcbKey, PubKey: pub}, T.Root, T.RootKey)
	}
	hdr := func(g *world.Getter, url, key string, certs ...*x509.Certificate) {
		resp := g.Responses[url]
		resp.Header = map[string][]string{key: {world.IssuerChainHeader(certs...)}}
		g.Responses[url] = resp
	}
	tcbURL := world.URLTcbInfo(hexs(w.Plat.FMSPC))
	variants := []variant{
		{"chain/leaf", func(p *world.QuoteParts, g *world.Getter, pub any) {
			p.Chain = world.PEM(leafSpec(pub), T.Inter, T.Root)
		}},
		{"chain/intermediate", func(p *world.QuoteParts, g *world.Getter, pub any) {
			p.Chain = world.PEM(T.Leaf, interSpec(pub), T.Root)
		}},
		{"chain/root", func(p *world.QuoteParts, g *world.Getter, pub any) {
			p.Chain = world.PEM(T.Leaf, T.Inter, rootSpec(pub))
		}},
		{"chain/all-three", func(p *world.QuoteParts, g *world.Getter, pub any) {
			p.Chain = world.PEM(leafSpec(pub), interSpec(pub), rootSpec(pub))
		}},
		{"tcbinfo-header/signer", func(p *world.QuoteParts, g *world.Getter, pub any) {
			hdr(g, tcbURL, world.HdrTcbInfo, tcbSpec(pub), T.Root)
		}},
		{"tcbinfo-header/root", func(p *world.QuoteParts, g *world.Getter, pub any) {
			hdr(g, tcbURL, world.HdrTcbInfo, T.Tcb, rootSpec(pub))
		}},
		{"qeidentity-header/signer", func(p *world.QuoteParts, g *world.Getter, pub any) {
			hdr(g, world.URLQeIdentity, world.HdrQeIdentity, tcbSpec(pub), T.Root)
		}},
		{"qeidentity-header/root", func(p *world.QuoteParts, g *world.Getter, pub any) {
			hdr(g, world.URLQeIdentity, world.HdrQeIdentity, T.Tcb, rootSpec(pub))
		}},
		{"pckcrl-header/ca", func(p *world.QuoteParts, g *world.Getter, pub any) {
			hdr(g, world.URLPckCrl("platform"), world.HdrPckCrl, interSpec(pub), T.Root)
		}},
		{"pckcrl-header/root", func(p *world.QuoteParts, g *world.Getter, pub any) {
			hdr(g, world.URLPckCrl("platform"), world.HdrPckCrl, T.Inter, rootSpec(pub))
		}},
	}
	type job struct{ v, k int }
	var jobs []job
	for v := range variants {
		for k := range keys {
			jobs = append(jobs, job{v, k})
		}
	}
	done := r.Parallel(len(jobs), func(i int) {
		j := jobs[i]
		id := fmt.Sprintf("keytype/%s=%s", variants[j.v].name, keys[j.k].name)
		if !r.Want(id) {
			return
		}
		p := w.Parts.Clone()
		g := w.Getter.Clone()
		func() {
			defer func() {
				if x := recover(); x != nil {
					r.HarnessError("C10 %s: cannot build the certificate: %v", id, x)
				}
			}()
			variants[j.v].apply(p, g, keys[j.k].pub)
		}()
		raw, _ := p.Bytes()
		for _, l := range []int{world.L0, world.L2} {
			l := l
			o := w.Options(l)
			o.Getter = g.Clone()
			c10Call(r, id, "verify.RawTdxQuote/"+lvlName[l], nil, func() error { return verify.RawTdxQuote(raw, o) })
		}
		if q, err := safeToProto(raw); err == nil {
			c10Call(r, id, "verify.ExtractChainFromQuote", nil, func() error { _, e := verify.ExtractChainFromQuote(q); return e })
			o := w.Options(world.L2)
			o.Getter = g.Clone()
			c10Call(r, id, "verify.SupportedTcbLevelsFromCollateral", nil, func() error {
				_, _, e := verify.SupportedTcbLevelsFromCollateral(q, o)
				return e
			})
		}
	})
	r.SectionDone(mc.Section{Name: "certificate-key-types", Evaluations: int64(done) * 4, Exhaustive: done == len(jobs),
		Note: fmt.Sprintf("%d positions x %d subject key types", len(variants), len(keys))})
}

// detReader is a deterministic byte stream for key generation.
type detStream struct {
	label string
	n     int
	buf   []byte
}

func detReader(label string) *detStream { return &detStream{label: label} }
func (d *detStream) Read(p []byte) (int, error) {
	for i := range p {
		if len(d.buf) == 0 {
			d.buf = world.Fill(fmt.Sprintf("%s/%d", d.label, d.n), 64)
			d.n++
		}
		p[i] = d.buf[0]
		d.buf = d.buf[1:]
	}
	return len(p), nil
}

func c10ModuleIdentityShapes(r *mc.Run) {
	type ident struct {
		id     string
		levels int
	}
	var kinds []ident
	for _, id := range []string{"TDX_01", "TDX_03"} {
		for n := 0; n <= 3; n++ {
			kinds = append(kinds, ident{id, n})
		}
	}
	var lists [][]ident
	for _, a := range kinds {
		lists = append(lists, []ident{a})
		for _, b := range kinds {
			lists = append(lists, []ident{a, b})
		}
	}
	lists = append(lists, nil, []ident{})
	type job struct {
		list     int
		ver, svn byte
	}
	var jobs []job
	for li := range lists {
		for _, ver := range []byte{1, 3} {
			for svn := byte(0); svn < 8; svn++ {
				jobs = append(jobs, job{li, ver, svn})
			}
		}
	}
	done := r.Parallel(len(jobs), func(i int) {
		j := jobs[i]
		id := fmt.Sprintf("module-identities/%v/version=%d,svn=%d", lists[j.list], j.ver, j.svn)
		if !r.Want(id) {
			return
		}
		w := world.Honest("T")
		w.Spec.TeeTcbSvn = []byte{j.svn, j.ver, 5, 0, 0, 0, 0, 0, 0, 0, 0, 0, 0, 0, 0, 0}
		w.Parts = w.Spec.Parts()
		w.TcbInfo = world.DefaultTcbInfo(w.Plat, w.Parts.Body[0:16])
		if lists[j.list] != nil {
			w.TcbInfo.TdxModuleIdentities = []world.ModuleIdentity{}
		}
		for _, k := range lists[j.list] {
			mi := world.ModuleIdentity{ID: k.id, Mrsigner: strings.Repeat("00", 48), Attributes: "0000000000000000", AttributesMask: "FFFFFFFFFFFFFFFF", TcbLevels: []world.Level{}}
			for n := 0; n < k.levels; n++ {
				mi.TcbLevels = append(mi.TcbLevels, world.Level{Tcb: world.Tcb{Isvsvn: world.IntP(6 - 2*n)}, TcbDate: "2029-01-01T00:00:00Z", TcbStatus: []string{"UpToDate", "OutOfDate", "UpToDate"}[n]})
			}
			w.TcbInfo.TdxModuleIdentities = append(w.TcbInfo.TdxModuleIdentities, mi)
		}
		w.Finish()
		raw := w.Raw()
		o := w.Options(world.L1)
		c10Call(r, id, "verify.RawTdxQuote/L1", nil, func() error { return verify.RawTdxQuote(raw, o) })
		if q, err := safeToProto(raw); err == nil {
			o2 := w.Options(world.L1)
			c10Call(r, id, "verify.SupportedTcbLevelsFromCollateral", nil, func() error {
				_, _, e := verify.SupportedTcbLevelsFromCollateral(q, o2)
				return e
			})
		}
	})
	r.SectionDone(mc.Section{Name: "module-identity-shapes", Evaluations: int64(done) * 2, Exhaustive: done == len(jobs),
		Note: fmt.Sprintf("%d identity lists x module version {1,3} x module SVN 0..7", len(lists))})
}

// c10LevelComponentShapes: correctly signed TCB info whose first platform TCB level has component lists of unusual
// lengths (absent, 1, 2, 3, 15, 16, 17, 18, 32; all SVNs zero, PCE SVN zero, so that every earlier conjunct of the
// level search holds and the odd list is what is looked at), followed or not by the level that matches; quotes with
// TDX module version 0, 1 and 3 (the comparison skips two components when it is non-zero).
func c10LevelComponentShapes(r *mc.Run) {
	lens := []int{0, 1, 2, 3, 15, 16, 17, 18, 32}
	type job struct {
		sgx, tdx int
		ver      byte
		followed bool
	}
	var jobs []job
	for _, a := range lens {
		for _, b := range lens {
			for _, ver := range []byte{0, 1, 3} {
				jobs = append(jobs, job{a, b, ver, true}, job{a, b, ver, false})
			}
		}
	}
	done := r.Parallel(len(jobs), func(i int) {
		j := jobs[i]
		id := fmt.Sprintf("level-components/sgx=%d,tdx=%d,module-version=%d,matching-level-follows=%v", j.sgx, j.tdx, j.ver, j.followed)
		if !r.Want(id) {
			return
		}
		w := world.Honest("T")
		w.Spec.TeeTcbSvn = []byte{4, j.ver, 5, 0, 0, 0, 0, 0, 0, 0, 0, 0, 0, 0, 0, 0}
		w.Parts = w.Spec.Parts()
		w.TcbInfo = world.DefaultTcbInfo(w.Plat, w.Parts.Body[0:16])
		if j.ver != 0 {
			w.TcbInfo.TdxModuleIdentities = []world.ModuleIdentity{{ID: fmt.Sprintf("TDX_%02d", j.ver), Mrsigner: strings.Repeat("00", 48), Attributes: "0000000000000000", AttributesMask: "FFFFFFFFFFFFFFFF",
				TcbLevels: []world.Level{{Tcb: world.Tcb{Isvsvn: world.IntP(2)}, TcbDate: "2029-01-01T00:00:00Z", TcbStatus: "UpToDate"}}}}
		}
		odd := world.Level{Tcb: world.Tcb{Pcesvn: world.IntP(0)}, TcbDate: "2028-06-01T00:00:00Z", TcbStatus: "OutOfDate"}
		if j.sgx > 0 {
			odd.Tcb.Sgx = world.CompsOf(make([]byte, j.sgx))
		}
		if j.tdx > 0 {
			odd.Tcb.Tdx = world.CompsOf(make([]byte, j.tdx))
		}
		if j.followed {
			w.TcbInfo.TcbLevels = append([]world.Level{odd}, w.TcbInfo.TcbLevels...)
		} else {
			w.TcbInfo.TcbLevels = []world.Level{odd}
		}
		w.Finish()
		raw := w.Raw()
		o := w.Options(world.L1)
		c10Call(r, id, "verify.RawTdxQuote/L1", nil, func() error { return verify.RawTdxQuote(raw, o) })
		if q, err := safeToProto(raw); err == nil {
			o2 := w.Options(world.L1)
			c10Call(r, id, "verify.SupportedTcbLevelsFromCollateral", nil, func() error {
				_, _, e := verify.SupportedTcbLevelsFromCollateral(q, o2)
				return e
			})
		}
	})
	r.SectionDone(mc.Section{Name: "level-component-shapes", Evaluations: int64(done) * 2, Exhaustive: done == len(jobs),
		Note: fmt.Sprintf("%d x %d component list lengths x module version {0,1,3} x matching level follows {yes,no}", len(lens), len(lens))})
}

// c10TcbMemberPairs: well-formed 18-member TCB sequences in which TWO members stand under object identifiers outside
// the profile (so both are absent as far as the decoder is concerned): every pair, through the extension decoder and
// through verification.
func c10TcbMemberPairs(r *mc.Run) {
	T := world.CachedPKI("T")
	type pr struct{ a, b int }
	var pairs []pr
	for a := 0; a < 18; a++ {
		for b := a + 1; b < 18; b++ {
			pairs = append(pairs, pr{a, b})
		}
	}
	done := r.Parallel(len(pairs), func(i int) {
		p := pairs[i]
		id := fmt.Sprintf("tcb-member-pairs/members-%d-and-%d-under-unknown-arcs", p.a+1, p.b+1)
		if !r.Want(id) {
			return
		}
		w := world.Honest("T")
		top, tcb := world.SGXElems(w.Plat)
		for k, m := range []int{p.a, p.b} {
			val := world.DERInt64(int64(7 + k))
			if m == 17 {
				val = world.DEROctet(w.Plat.CPUSVN[:])
			}
			tcb[m] = world.DERSeq(world.DEROID(world.SGXOid(2, 40+m)), val)
		}
		ext := world.DERSeq(top["ppid"], world.SGXTcbElem(tcb), top["pceid"], top["fmspc"], top["type"])
		leaf := world.MakeCert(world.CertSpec{CN: world.CNLeaf, Key: T.LeafKey, SGXExt: ext}, T.Inter, T.InterKey)
		c10Call(r, id, "pcs.PckCertificateExtensions", nil, func() error { _, e := pcs.PckCertificateExtensions(leaf); return e })
		parts := w.Parts.Clone()
		parts.Chain = world.PEM(leaf, T.Inter, T.Root)
		raw, _ := parts.Bytes()
		for _, lvl := range []int{world.L0, world.L1} {
			o := w.Options(lvl)
			c10Call(r, id, "verify.RawTdxQuote/"+lvlName[lvl], nil, func() error { return verify.RawTdxQuote(raw, o) })
		}
	})
	r.SectionDone(mc.Section{Name: "tcb-member-pairs", Evaluations: int64(done) * 3, Exhaustive: done == len(pairs)})
}

// c10IdentityFieldLengths: correctly signed QE identities / TCB Infos whose value and mask members have every pair of
// lengths around the field's size (a check that sizes one of them by the other indexes the fixed-size report field).
func c10IdentityFieldLengths(r *mc.Run) {
	type job struct {
		field string
		a, b  int
		val   byte
	}
	var jobs []job
	pair := func(field string, lens []int) {
		for _, a := range lens {
			for _, b := range lens {
				for _, v := range []byte{0x00, 0xff} {
					jobs = append(jobs, job{field, a, b, v})
				}
			}
		}
	}
	pair("qe.attributes", []int{0, 1, 15, 16, 17, 32, 64})
	pair("qe.miscselect", []int{0, 1, 3, 4, 5, 8})
	pair("module.attributes", []int{0, 1, 7, 8, 9, 16})
	for _, l := range []int{0, 1, 31, 32, 33, 48, 64} {
		jobs = append(jobs, job{"qe.mrsigner", l, 0, 0xab}, job{"module.mrsigner", l + 16, 0, 0xab})
	}
	done := r.Parallel(len(jobs), func(i int) {
		j := jobs[i]
		id := fmt.Sprintf("identity-field-lengths/%s/value=%d,mask=%d,fill=%02x", j.field, j.a, j.b, j.val)
		if !r.Want(id) {
			return
		}
		w := world.Honest("T")
		hx := func(n int) string { return strings.Repeat(fmt.Sprintf("%02x", j.val), n) }
		switch j.field {
		case "qe.attributes":
			w.QeID.Attributes, w.QeID.AttributesMask = hx(j.a), hx(j.b)
		case "qe.miscselect":
			w.QeID.Miscselect, w.QeID.MiscselectMask = hx(j.a), hx(j.b)
		case "qe.mrsigner":
			w.QeID.Mrsigner = hx(j.a)
		case "module.attributes":
			w.TcbInfo.TdxModule.Attributes, w.TcbInfo.TdxModule.AttributesMask = hx(j.a), hx(j.b)
		case "module.mrsigner":
			w.TcbInfo.TdxModule.Mrsigner = hx(j.a)
		}
		w.Finish()
		raw := w.Raw()
		for _, lvl := range []int{world.L1, world.L2} {
			o := w.Options(lvl)
			c10Call(r, id, "verify.RawTdxQuote/"+lvlName[lvl], nil, func() error { return verify.RawTdxQuote(raw, o) })
		}
		if q, err := safeToProto(raw); err == nil {
			o2 := w.Options(world.L1)
			c10Call(r, id, "verify.TdxQuote/L1", nil, func() error { return verify.TdxQuote(q, o2) })
		}
	})
	r.SectionDone(mc.Section{Name: "identity-field-lengths", Evaluations: int64(done) * 3, Exhaustive: done == len(jobs)})
}

// c10RootCrlPoints: the trusted root names TWO CRL distribution points and each answers independently with one of:
// a numbered CRL, a CRL without the cRLNumber extension, CRL number 0, a 20-octet CRL number, a CRL that lists the
// intermediate CA, a CRL of another issuer, garbage, an empty body, an error. Every pair, through both entry points,
// with collateral and revocation checking on: a result or an error, never a crash.
func c10RootCrlPoints(r *mc.Run) {
	w := world.Honest("T")
	pki := w.PKI
	F := world.CachedPKI("F")
	root2 := world.MakeCert(world.CertSpec{CN: world.CNRoot, IsCA: true, Key: pki.RootKey, MaxPathLen: 1, CRLDP: []string{world.RootCRLURL, c05dp2}}, nil, pki.RootKey)
	numbered := world.MakeCRL(world.CRLSpec{Issuer: pki.Root, Signer: pki.RootKey, Number: 7})
	answers := []struct {
		name string
		resp world.Response
	}{
		{"numbered", world.Response{Body: numbered}},
		{"without-crl-number", world.Response{Body: world.WithoutCRLNumber(numbered, pki.RootKey)}},
		{"number-0", world.Response{Body: world.WithoutCRLNumber(numbered, pki.RootKey)}},
		{"number-huge", world.Response{Body: world.MakeCRL(world.CRLSpec{Issuer: pki.Root, Signer: pki.RootKey, Number: 1<<62 + 5})}},
		{"lists-intermediate", world.Response{Body: world.MakeCRL(world.CRLSpec{Issuer: pki.Root, Signer: pki.RootKey, Number: 9, Revoked: []*big.Int{pki.Inter.SerialNumber}})}},
		{"other-issuer", world.Response{Body: world.MakeCRL(world.CRLSpec{Issuer: F.Root, Signer: F.RootKey, Number: 8})}},
		{"other-issuer-without-number", world.Response{Body: world.WithoutCRLNumber(world.MakeCRL(world.CRLSpec{Issuer: F.Root, Signer: F.RootKey}), F.RootKey)}},
		{"garbage", world.Response{Body: world.Fill("c10-crl-garbage", 300)}},
		{"empty", world.Response{Body: []byte{}}},
		{"error", world.Response{Err: errors.New("503")}},
	}
	raw := w.Raw()
	type job struct{ a, b int }
	var jobs []job
	for a := range answers {
		for b := range answers {
			jobs = append(jobs, job{a, b})
		}
	}
	done := r.Parallel(len(jobs), func(i int) {
		j := jobs[i]
		id := fmt.Sprintf("root-crl-points/first=%s,second=%s", answers[j.a].name, answers[j.b].name)
		if !r.Want(id) {
			return
		}
		mk := func() *verify.Options {
			g := w.Getter.Clone()
			g.Responses[world.URLQeIdentity] = world.Response{Header: map[string][]string{world.HdrQeIdentity: {world.IssuerChainHeader(pki.Tcb, root2)}}, Body: g.Responses[world.URLQeIdentity].Body}
			g.Responses[world.RootCRLURL], g.Responses[c05dp2] = answers[j.a].resp, answers[j.b].resp
			o := w.Options(world.L2)
			o.Getter = g
			return o
		}
		o1 := mk()
		c10Call(r, id, "verify.RawTdxQuote/L2", nil, func() error { return verify.RawTdxQuote(raw, o1) })
		if q, err := safeToProto(raw); err == nil {
			o2 := mk()
			c10Call(r, id, "verify.TdxQuote/L2", nil, func() error { return verify.TdxQuote(q, o2) })
		}
	})
	r.SectionDone(mc.Section{Name: "root-crl-distribution-points", Evaluations: int64(done) * 2, Exhaustive: done == len(jobs), Note: fmt.Sprintf("%d x %d answers of two distribution points", len(answers), len(answers))})
}

// c10CertificateNames: certificate chains whose common names are near the names the library looks for (shorter,
// longer, the fixed prefix and suffix alone or overlapping, empty, very long): every entry point that reads the chain
// returns a result or an error.
func c10CertificateNames(r *mc.Run) {
	w := world.Honest("T")
	T := w.PKI
	names := []string{"Intel SGX PCK CA", "Intel SGX PCK  CA", "Intel SGX PCK", "Intel SGX PCK ", " CA", "CA", "", "Intel SGX PCK Platform", "Intel SGX PCK Platform CA ", "Intel SGX PCK Processor CA",
		"Intel SGX PCK Platform Processor CA", "intel sgx pck platform ca", "Intel SGX PCK \x00 CA", "Intel SGX PCK Platform CA\x00", strings.Repeat("Intel SGX PCK ", 300) + "CA", "Intel SGX Root CA", "Intel SGX PCK Certificate", "Intel SGX TCB Signing"}
	positions := []string{"intermediate", "leaf", "root", "tcb-signer"}
	type job struct{ n, p int }
	var jobs []job
	for n := range names {
		for p := range positions {
			jobs = append(jobs, job{n, p})
		}
	}
	done := r.Parallel(len(jobs), func(i int) {
		j := jobs[i]
		id := fmt.Sprintf("certificate-names/%s=%q", positions[j.p], shortName(names[j.n]))
		if !r.Want(id) {
			return
		}
		cn := names[j.n]
		root, inter, leaf, tcb := T.Root, T.Inter, T.Leaf, T.Tcb
		switch positions[j.p] {
		case "intermediate":
			inter = world.MakeCert(world.CertSpec{CN: cn, IsCA: true, Key: T.InterKey, MaxPathLen: -1}, T.Root, T.RootKey)
			leaf = world.MakeCert(world.CertSpec{CN: world.CNLeaf, Key: T.LeafKey, SGXExt: world.SGXExtension(w.Plat)}, inter, T.InterKey)
		case "leaf":
			leaf = world.MakeCert(world.CertSpec{CN: cn, Key: T.LeafKey, SGXExt: world.SGXExtension(w.Plat)}, T.Inter, T.InterKey)
		case "root":
			root = world.MakeCert(world.CertSpec{CN: cn, IsCA: true, Key: T.RootKey, MaxPathLen: 1}, nil, T.RootKey)
		case "tcb-signer":
			tcb = world.MakeCert(world.CertSpec{CN: cn, Key: T.TcbKey}, T.Root, T.RootKey)
		}
		p := w.Parts.Clone()
		p.Chain = world.PEM(leaf, inter, root)
		raw, _ := p.Bytes()
		for _, lvl := range []int{world.L0, world.L2} {
			lvl := lvl
			mk := func() *verify.Options {
				o := w.Options(lvl)
				g := w.Getter.Clone()
				hdr := world.IssuerChainHeader(tcb, root)
				g.Responses[world.URLQeIdentity] = world.Response{Header: map[string][]string{world.HdrQeIdentity: {hdr}}, Body: g.Responses[world.URLQeIdentity].Body}
				u := world.URLTcbInfo(hexs(w.Plat.FMSPC))
				g.Responses[u] = world.Response{Header: map[string][]string{world.HdrTcbInfo: {hdr}}, Body: g.Responses[u].Body}
				g.Responses[world.URLPckCrl("platform")] = world.Response{Header: map[string][]string{world.HdrPckCrl: {world.IssuerChainHeader(inter, root)}}, Body: g.Responses[world.URLPckCrl("platform")].Body}
				g.Default = func(string) world.Response { return world.Response{Body: w.PckCrl} }
				o.Getter = g
				o.TrustedRoots = world.Pool(root)
				return o
			}
			o := mk()
			c10Call(r, id, "verify.RawTdxQuote/"+lvlName[lvl], nil, func() error { return verify.RawTdxQuote(raw, o) })
		}
		if q, err := safeToProto(raw); err == nil {
			c10Call(r, id, "verify.ExtractChainFromQuote", nil, func() error { _, e := verify.ExtractChainFromQuote(q); return e })
		}
	})
	r.SectionDone(mc.Section{Name: "certificate-names", Evaluations: int64(done) * 3, Exhaustive: done == len(jobs), Note: fmt.Sprintf("%d names x %d certificate positions", len(names), len(positions))})
}

func shortName(s string) string {
	if len(s) > 48 {
		return fmt.Sprintf("%s...(%d bytes)", s[:40], len(s))
	}
	return s
}
