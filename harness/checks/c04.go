package checks

import (
	"bytes"
	"encoding/json"
	"fmt"
	"regexp"
	"strings"

	"github.com/google/go-tdx-guest/verify"

	"verifharness/mc"
	"verifharness/ref"
	"verifharness/world"
)

func init() {
	mc.Register(&mc.Check{ID: "C04", Category: "exploration",
		Rule:   "small-scope abstraction named by the property, walked by Engine A end-to-end through verify.TdxQuote with freshly signed TCB Info: <=3 listed levels, each level's comparison reduced to {all equal, all below, SGX fails at index 0/15, PCE SVN above, TDX fails at index 0/1/2/15} x status; TEE_TCB_SVN[1] in {0,1,3,0x0a}; TDX module identities {present, absent, other id only} with <=2 levels of isvsvn {equal, below, above} x status, or an empty / null level list; identity fields FMSPC {equal, case-flipped, nibble off}, PCE-ID, MRSIGNERSEAM, SEAM attributes vs mask {equal, differs outside mask, differs inside mask, mask length off by one}; all decision vectors within the deviation bound plus the full product of the two first levels. Non-trivial: >=1 deviation; distinct by decision vector",
		Assume: append([]string{"values beyond the boundary-index abstraction (random SVN vectors) are sampling and are not explored", "PCE-ID hex case is kept lower-case (the library compares it case-sensitively; the statement does not settle case)"}, cryptoAssume...),
		Run:    runC04})
}

var c04Patterns = []string{"equal", "all-below", "sgx0-above", "sgx15-above", "pce-above", "tdx0-above", "tdx1-above", "tdx2-above", "tdx15-above", "sgx0-below+sgx15-above", "tdx2-below+tdx15-above", "sgx-all-below+pce-above",
	"sgx7-mid-above", "tdx9-mid-above", "all-far-below"}

// c04Level builds a level from a comparison pattern relative to the platform.
func c04Level(p world.Platform, tee []byte, pattern int, status string) world.Level {
	sgx := append([]byte(nil), p.CPUSVN[:]...)
	tdx := append([]byte(nil), tee...)
	pce := int(p.PCESVN)
	switch pattern {
	case 1:
		for i := range sgx {
			if sgx[i] > 0 {
				sgx[i]--
			}
		}
		for i := range tdx {
			if tdx[i] > 0 {
				tdx[i]--
			}
		}
		pce--
	case 2:
		sgx[0]++
	case 3:
		sgx[15]++
	case 4:
		pce++
	case 5:
		tdx[0]++
	case 6:
		tdx[1]++
	case 7:
		tdx[2]++
	case 8:
		tdx[15]++
	case 9: // an earlier component below, a later one above: only a component-wise comparison rejects
		sgx[0]--
		sgx[15]++
	case 10:
		tdx[2]--
		tdx[15]++
	case 11:
		for i := range sgx {
			if sgx[i] > 0 {
				sgx[i]--
			}
		}
		pce++
	case 12: // a component in the middle of the vector
		sgx[7]++
	case 13:
		tdx[9]++
	case 14: // every component far below the platform's (totals, not only components, differ a lot)
		for i := range sgx {
			if sgx[i] >= 10 {
				sgx[i] -= 10
			} else {
				sgx[i] = 0
			}
		}
		for i := range tdx {
			if i != 1 && tdx[i] >= 10 {
				tdx[i] -= 10
			} else if i != 1 {
				tdx[i] = 0
			}
		}
		if pce >= 10 {
			pce -= 10
		} else {
			pce = 0
		}
	}
	return world.Level{Tcb: world.Tcb{Sgx: world.CompsOf(sgx), Pcesvn: world.IntP(pce), Tdx: world.CompsOf(tdx)}, TcbDate: "2029-06-01T00:00:00Z", TcbStatus: status}
}

func runC04(r *mc.Run) {
	// quotes 4 and 5 carry SVNs >= 0x80 / PCESVN >= 0x8000 (signedness); quotes 6 and 7 come with a PCK certificate whose
	// opaque CPUSVN octet string does not repeat the sixteen component values (all 0xFF / all zero): levels are
	// compared with the components
	// quotes 8 and 9: the PCK certificate lists its 18 TCB elements in reversed / rotated order (values are bound to
	// their object identifiers, not to positions)
	svn1s := []byte{0, 1, 3, 0x0a, 0, 0x83, 0, 3, 0, 3, 0, 3}
	// one quote per TEE_TCB_SVN[1] value (everything else shared)
	type qv struct {
		w   *world.World
		tee []byte
		raw []byte
	}
	var quotes []qv
	for qn, s1 := range svn1s {
		w := world.Honest("T")
		w.Plat.CPUSVN = [16]byte{5, 5, 2, 2, 3, 1, 1, 3, 1, 1, 1, 1, 1, 1, 1, 4}
		high := qn == 4 || qn == 5
		switch qn {
		case 6:
			w.Plat.CPUSVNBlob = bytes.Repeat([]byte{0xff}, 16)
		case 7:
			w.Plat.CPUSVNBlob = make([]byte, 16)
		case 8:
			for k := 17; k >= 0; k-- {
				w.Plat.TcbOrder = append(w.Plat.TcbOrder, k)
			}
		case 9:
			for k := 0; k < 18; k++ {
				w.Plat.TcbOrder = append(w.Plat.TcbOrder, (k+7)%18)
			}
		}
		if qn == 10 || qn == 11 {
			// component SVNs that add up to more than one byte holds (276), and a TEE TCB SVN that does too
			w.Plat.CPUSVN = [16]byte{130, 130, 5, 5, 6, 0, 0, 0, 0, 0, 0, 0, 0, 0, 0, 0}
		}
		if high {
			w.Plat.CPUSVN = [16]byte{0x85, 0xfe, 0x80, 0x81, 0x90, 0xa0, 0xb0, 0xc0, 0xd0, 0xe0, 0xf0, 0x88, 0x99, 0xaa, 0xbb, 0x84}
			w.Plat.PCESVN = 0x8005
		}
		w.PKI = w.PKI.WithLeaf(w.Plat)
		w.Spec.PKI = w.PKI
		w.Spec.TeeTcbSvn = []byte{4, s1, 5, 1, 1, 1, 1, 1, 1, 1, 1, 1, 1, 1, 1, 2}
		if qn == 10 || qn == 11 {
			w.Spec.TeeTcbSvn = []byte{140, s1, 120, 12, 11, 0, 0, 0, 0, 0, 0, 0, 0, 0, 0, 10}
		}
		if high {
			w.Spec.TeeTcbSvn = []byte{0x84, s1, 0x85, 0x81, 0x91, 0xa1, 0xb1, 0xc1, 0xd1, 0xe1, 0xf1, 0x89, 0x9a, 0xab, 0xbc, 0x82}
		}
		w.Spec.MrSeamSigner = world.Fill("mrsignerseam", 48)
		w.Spec.SeamAttrs = []byte{0x0f, 0, 0, 0, 0, 0, 0, 0x80}
		w.Parts = w.Spec.Parts()
		w.Finish()
		quotes = append(quotes, qv{w, w.Spec.TeeTcbSvn, w.Raw()})
	}
	statuses := world.Statuses
	classes := []string{"UpToDate", "OutOfDate", "SWHardeningNeeded"}

	build := func(c *mc.Ctx, qi int, full *[4]int) (world.TcbInfo, string) {
		q := quotes[qi]
		p := q.w.Plat
		ti := world.DefaultTcbInfo(p, q.tee)
		ti.TdxModule = world.TdxModule{Mrsigner: hexs(q.w.Spec.MrSeamSigner), Attributes: "0f00000000000080", AttributesMask: "ffffffffffffffff"}
		var l1p, l1s, l2p, l2s int
		if full != nil {
			l1p, l1s, l2p, l2s = full[0], full[1], full[2], full[3]
		} else {
			l1p = c.Choose("l1.pattern", len(c04Patterns))
			l1s = c.Choose("l1.status", len(statuses))
		}
		nlev := 1
		if full != nil {
			nlev = 2
		} else {
			nlev += c.Choose("levels", 4)
			if nlev == 4 { // an empty platform level list
				nlev = 0
			}
			if nlev > 1 {
				l2p = c.Choose("l2.pattern", len(c04Patterns))
				l2s = c.Choose("l2.status", len(classes))
			}
		}
		ti.TcbLevels = []world.Level{c04Level(p, q.tee, l1p, statuses[l1s])}
		// the descriptive "category" / "type" members of components (Intel labels them "BIOS", "OS/VMM", "TDX Module",
		// ...) play no part in the algorithm, whatever they say and wherever they stand
		if lb := c.Choose("component-labels", 4); lb != 0 {
			for li := range ti.TcbLevels {
				l := &ti.TcbLevels[li]
				l.Tcb.Sgx, l.Tcb.Tdx = append([]world.Comp(nil), l.Tcb.Sgx...), append([]world.Comp(nil), l.Tcb.Tdx...)
				for k := range l.Tcb.Tdx {
					switch lb {
					case 1: // Intel's own pattern
						if k < 2 {
							l.Tcb.Tdx[k].Category, l.Tcb.Tdx[k].Type = "OS/VMM", "TDX Module"
						} else {
							l.Tcb.Tdx[k].Category, l.Tcb.Tdx[k].Type = "OS/VMM", "TDX Late Microcode Update"
						}
					case 2: // every component labelled as the module's
						l.Tcb.Tdx[k].Category, l.Tcb.Tdx[k].Type = "OS/VMM", "TDX Module"
					case 3: // labels in the wrong places, odd strings
						l.Tcb.Tdx[k].Category, l.Tcb.Tdx[k].Type = []string{"", "TDX Module", "BIOS"}[k%3], []string{"TDX Module", "", "tdx module"}[(k+1)%3]
					}
				}
				for k := range l.Tcb.Sgx {
					if lb >= 2 {
						l.Tcb.Sgx[k].Category, l.Tcb.Sgx[k].Type = "BIOS", []string{"TDX Module", "Early Microcode Update", "SGX Late Microcode Update"}[k%3]
					}
				}
			}
		}
		// other spellings of the first level's status: only Intel's own spelling is that status
		if sp := c.Choose("l1.status-spelling", 5); sp != 0 {
			st := statuses[l1s]
			ti.TcbLevels[0].TcbStatus = []string{st, strings.ToUpper(st), strings.ToLower(st), strings.ToLower(st[:1]) + st[1:], st + " "}[sp]
		}
		if nlev == 0 {
			ti.TcbLevels = []world.Level{}
		}
		if nlev >= 2 {
			ti.TcbLevels = append(ti.TcbLevels, c04Level(p, q.tee, l2p, classes[l2s]))
		}
		if nlev >= 3 {
			ti.TcbLevels = append(ti.TcbLevels, c04Level(p, q.tee, 1, "OutOfDate"))
		}
		// dates of the levels: the listed order decides, whatever the dates say
		c04Dates(ti.TcbLevels, c.Choose("level-dates", 5))
		// TDX module identities
		mod := c.Choose("module", 6)
		misv := c.Choose("module.isvsvn", 3)
		mstat := c.Choose("module.status", len(statuses))
		m2 := c.Choose("module.level2", 5)
		mid := fmt.Sprintf("TDX_%02x", q.tee[1])
		isv := int(q.tee[0]) + []int{0, -1, 1}[misv]
		mlevels := []world.Level{{Tcb: world.Tcb{Isvsvn: world.IntP(isv)}, TcbDate: "2029-01-01T00:00:00Z", TcbStatus: statuses[mstat]}}
		if sp := c.Choose("module.status-spelling", 3); sp != 0 {
			mlevels[0].TcbStatus = []string{"", strings.ToUpper(statuses[mstat]), strings.ToLower(statuses[mstat])}[sp]
		}
		switch m2 {
		case 1:
			mlevels = append(mlevels, world.Level{Tcb: world.Tcb{Isvsvn: world.IntP(int(q.tee[0]) - 2)}, TcbDate: "2028-01-01T00:00:00Z", TcbStatus: "UpToDate"})
		case 2:
			mlevels = append(mlevels, world.Level{Tcb: world.Tcb{Isvsvn: world.IntP(int(q.tee[0]) - 2)}, TcbDate: "2028-01-01T00:00:00Z", TcbStatus: "OutOfDate"})
		case 3: // the identity is listed but holds no level at all: "tcbLevels": []
			mlevels = []world.Level{}
		case 4: // "tcbLevels": null
			mlevels = nil
		}
		c04Dates(mlevels, c.Choose("module.level-dates", 5))
		ms := strings.Repeat("00", 48)
		switch mod {
		case 0:
			ti.TdxModuleIdentities = []world.ModuleIdentity{
				{ID: "TDX_7f", Mrsigner: ms, Attributes: "0000000000000000", AttributesMask: "FFFFFFFFFFFFFFFF", TcbLevels: []world.Level{{Tcb: world.Tcb{Isvsvn: world.IntP(0)}, TcbStatus: "Revoked", TcbDate: "2028-01-01T00:00:00Z"}}},
				{ID: mid, Mrsigner: ms, Attributes: "0000000000000000", AttributesMask: "FFFFFFFFFFFFFFFF", TcbLevels: mlevels}}
		case 1:
			ti.TdxModuleIdentities = nil
		case 2:
			ti.TdxModuleIdentities = []world.ModuleIdentity{{ID: "TDX_7f", Mrsigner: ms, Attributes: "0000000000000000", AttributesMask: "FFFFFFFFFFFFFFFF", TcbLevels: mlevels}}
		case 3, 4, 5:
			// the matching identity is NOT the last one listed: first of two, in the middle of three, first of three;
			// the others would accept anything (one UpToDate level from isvsvn 0) or refuse anything
			any := world.ModuleIdentity{ID: "TDX_7e", Mrsigner: ms, Attributes: "0000000000000000", AttributesMask: "FFFFFFFFFFFFFFFF", TcbLevels: []world.Level{{Tcb: world.Tcb{Isvsvn: world.IntP(0)}, TcbStatus: "UpToDate", TcbDate: "2028-01-01T00:00:00Z"}}}
			none := world.ModuleIdentity{ID: "TDX_7f", Mrsigner: ms, Attributes: "0000000000000000", AttributesMask: "FFFFFFFFFFFFFFFF", TcbLevels: []world.Level{{Tcb: world.Tcb{Isvsvn: world.IntP(0)}, TcbStatus: "Revoked", TcbDate: "2028-01-01T00:00:00Z"}}}
			own := world.ModuleIdentity{ID: mid, Mrsigner: ms, Attributes: "0000000000000000", AttributesMask: "FFFFFFFFFFFFFFFF", TcbLevels: mlevels}
			ti.TdxModuleIdentities = [][]world.ModuleIdentity{{own, any}, {none, own, any}, {own, none, any}}[mod-3]
		}
		// identity fields
		switch c.Choose("fmspc", 3) {
		case 1:
			ti.Fmspc = strings.ToUpper(ti.Fmspc)
		case 2:
			ti.Fmspc = ti.Fmspc[:11] + "1"
		}
		if c.Choose("pceid", 2) == 1 {
			ti.PceID = "0001"
		}
		if c.Choose("mrsignerseam", 2) == 1 {
			ti.TdxModule.Mrsigner = hexs(world.Fill("other-seam-signer", 48))
		}
		switch c.Choose("seamattrs", 5) {
		case 1: // differs only outside the mask
			ti.TdxModule.AttributesMask = "0f00000000000000"
			ti.TdxModule.Attributes = "0f00000000000000"
		case 2: // differs inside the mask
			ti.TdxModule.Attributes = "0e00000000000080"
		case 3: // mask one byte short
			ti.TdxModule.AttributesMask = "ffffffffffffff"
		case 4: // expected value has a bit the mask clears
			ti.TdxModule.AttributesMask = "0f00000000000000"
			ti.TdxModule.Attributes = "0f00000000000080"
		}
		return ti, fmt.Sprintf("q%d/svn1=%#x", qi, q.tee[1])
	}

	var sibling func(body []byte) []byte // when set: adds UNSIGNED members next to the signed one in the response body
	var rawEdit func([]byte) []byte      // when set: edits the JSON text before signing; only "accepted => algorithm accepts" is judged
	eval := func(id string, qi int, ti world.TcbInfo, nontrivial bool) {
		q := quotes[qi]
		w := q.w
		raw := world.MustJSON(ti)
		// a document with a status string the library cannot decode may be refused as a whole (wherever the level stands)
		soundOnly := rawEdit != nil || c04HasOddStatus(ti)
		if rawEdit != nil {
			raw = rawEdit(raw)
			if !json.Valid(raw) {
				r.HarnessError("C04 %s: edited TCB Info is not valid JSON", id)
				return
			}
		}
		g := w.Getter.Clone()
		respBody := world.SignedBody("tcbInfo", raw, w.PKI.TcbKey)
		if sibling != nil {
			respBody = sibling(respBody)
		}
		g.Responses[world.URLTcbInfo(hexs(w.Plat.FMSPC))] = world.Response{Header: w.TcbHdr, Body: respBody}
		now := w.Now
		opts := &verify.Options{GetCollateral: true, Getter: g, Now: &now, TrustedRoots: w.Roots}
		qm, perr := safeToProto(q.raw)
		if perr != nil {
			r.HarnessError("C04: baseline quote does not parse: %v", perr)
			return
		}
		err := world.SafeVerify(qm, opts)
		var tj ref.TcbInfoJ
		json.Unmarshal(raw, &tj)
		rp, _ := ref.ParseQuote(q.raw)
		want, matched, why := ref.TcbInfoVerdict(tj, ref.PlatformOf(rp, w.Plat.CPUSVN[:], int(w.Plat.PCESVN), w.Plat.FMSPC, w.Plat.PCEID))
		out := verdict(err)
		detail := map[string]any{"tcbInfo": string(raw), "tee_tcb_svn": hexs(q.tee), "reference": why}
		switch {
		case world.IsPanic(err):
			r.Violate("panic:"+crashSite(err), id, "verification crashes: "+errStr(err), detail)
		case err == nil && !want:
			r.Violate("accepted:"+whyClass(why)+fmt.Sprintf(":svn1nonzero=%v", q.tee[1] != 0), id, "quote accepted although Intel's TCB algorithm rejects it: "+why, detail)
			out = "accept!"
		case err != nil && want && !soundOnly:
			r.Violate("rejected-uptodate"+fmt.Sprintf(":svn1nonzero=%v", q.tee[1] != 0), id, "quote rejected although every stated condition holds: "+errStr(err), detail)
			out = "reject!"
		}
		// the reporting API
		var rerr error
		func() {
			defer world.Recover(&rerr)
			_, _, rerr = verify.SupportedTcbLevelsFromCollateral(qm, opts)
		}()
		rep := "report-ok"
		switch {
		case world.IsPanic(rerr):
			r.Violate("report:panic:"+crashSite(rerr), id, "SupportedTcbLevelsFromCollateral crashes: "+errStr(rerr), detail)
			rep = "report-panic"
		case !matched && rerr == nil && !soundOnly:
			r.Violate("report:nil-error-without-match", id, "no TCB level matches but SupportedTcbLevelsFromCollateral returns no error (an empty level)", detail)
			rep = "report-empty!"
		case rerr != nil:
			rep = "report-error"
		}
		r.Eval(id, nontrivial, fmt.Sprintf("want=%v/%s/%s", want, out, rep))
	}

	// members absent from / null / empty in the signed JSON: a zero value must not be read as a match or as UpToDate
	{
		drop := func(name string, nth int, repl string) func([]byte) []byte {
			return func(m []byte) []byte {
				re := regexp.MustCompile(`"` + name + `":("[^"]*"|[0-9]+),?`)
				k := 0
				out := re.ReplaceAllFunc(m, func(b []byte) []byte {
					k++
					if k-1 != nth {
						return b
					}
					if repl == "" {
						return nil
					}
					tail := ""
					if b[len(b)-1] == ',' {
						tail = ","
					}
					return []byte(`"` + name + `":` + repl + tail)
				})
				return bytes.ReplaceAll(bytes.ReplaceAll(out, []byte(",}"), []byte("}")), []byte(",]"), []byte("]"))
			}
		}
		for _, qi := range []int{0, 2} {
			c := &mc.Ctx{}
			full := [4]int{0, 0, 0, 0} // two levels, both matching, both UpToDate
			ti, _ := build(c, qi, &full)
			nStatus := 2
			if len(ti.TdxModuleIdentities) == 2 {
				nStatus = 2 + len(ti.TdxModuleIdentities[0].TcbLevels) + len(ti.TdxModuleIdentities[1].TcbLevels)
			}
			type ed struct {
				name string
				n    int
			}
			eds := []ed{{"fmspc", 1}, {"pceId", 1}, {"mrsigner", 3}, {"attributes", 3}, {"attributesMask", 3}, {"id", 3}, {"version", 1}, {"nextUpdate", 1}, {"issueDate", 1}, {"tcbType", 1}, {"pcesvn", 2}, {"isvsvn", 3}, {"tcbDate", 4}, {"tcbStatus", nStatus}}
			for _, e := range eds {
				for nth := 0; nth < e.n; nth++ {
					for _, v := range []struct{ n, repl string }{{"absent", ""}, {"null", "null"}, {"empty", `""`}} {
						id := fmt.Sprintf("member/q%d/%s[%d]=%s", qi, e.name, nth, v.n)
						if !r.Want(id) {
							continue
						}
						rawEdit = drop(e.name, nth, v.repl)
						eval(id, qi, ti, true)
						rawEdit = nil
					}
				}
			}
		}
	}
	bound := 2
	if r.Thorough() {
		bound = 3
	}
	for _, lvl := range []int{0, 2} {
		world.SetLogLevel(lvl)
		exName, exBound := "tcb-worlds", bound
		if lvl != 0 {
			exName, exBound = "tcb-worlds/log-level=2", 1
		}
		r.Explore(exName, exBound, func(c *mc.Ctx) {
			qi := c.Free("svn1", len(svn1s))
			ti, tag := build(c, qi, nil)
			// unsigned members spelled like the signed one, supplying what the signed document may lack (module
			// identities that accept anything): the verdict follows the signed member alone
			sib := c.Choose("unsigned-sibling", 4)
			id := "tcb/" + tag + "/" + c.ID() + world.LogTag()
			if !r.Want(id) {
				return
			}
			if sib != 0 {
				q := quotes[qi]
				extra := fmt.Sprintf(`%q:{"tdxModuleIdentities":[{"id":"TDX_%02x","mrsigner":%q,"attributes":"0000000000000000","attributesMask":"FFFFFFFFFFFFFFFF","tcbLevels":[{"tcb":{"isvsvn":0},"tcbDate":"2028-01-01T00:00:00Z","tcbStatus":"UpToDate"}]}]}`,
					[]string{"", "TcbInfo", "tcbinfo", "TCBINFO"}[sib], q.tee[1], strings.Repeat("00", 48))
				sibling = func(body []byte) []byte {
					if sib == 2 { // after the signature
						return append(append(append([]byte{}, body[:len(body)-1]...), ','), []byte(extra+"}")...)
					}
					return append([]byte("{"+extra+","), body[1:]...)
				}
			}
			eval(id, qi, ti, c.Deviations() > 0)
			sibling = nil
		})
	}
	world.SetLogLevel(0)
	// full product of the first two levels (pattern x status) x module status class, for svn1 in {0, 3}
	type prod struct{ qi, l1p, l1s, l2p, l2s, ms, dates int }
	var prods []prod
	for _, qi := range []int{0, 2, 4, 5, 6, 7, 8, 9, 10, 11} {
		for l1p := range c04Patterns {
			for l1s := range statuses {
				for l2p := range c04Patterns {
					for l2s := range classes {
						for _, ms := range []int{0, 4} {
							if (qi == 0 || qi == 4 || qi == 6 || qi == 8 || qi == 10) && ms != 0 {
								continue
							}
							prods = append(prods, prod{qi, l1p, l1s, l2p, l2s, ms, 0})
							if qi == 0 || qi == 2 {
								prods = append(prods, prod{qi, l1p, l1s, l2p, l2s, ms, 1})
							}
						}
					}
				}
			}
		}
	}
	done := r.Parallel(len(prods), func(i int) {
		p := prods[i]
		id := fmt.Sprintf("product/q%d/svn1=%#x/l1=%s:%s,l2=%s:%s,module=%s", p.qi, svn1s[p.qi], c04Patterns[p.l1p], statuses[p.l1s], c04Patterns[p.l2p], classes[p.l2s], statuses[p.ms])
		if p.dates != 0 {
			id += ",dates=ascending"
		}
		if !r.Want(id) {
			return
		}
		full := [4]int{p.l1p, p.l1s, p.l2p, p.l2s}
		// module status injected through a prefix-less context: build with defaults, then patch
		c := &mc.Ctx{}
		ti, _ := build(c, p.qi, &full)
		if len(ti.TdxModuleIdentities) == 2 {
			ti.TdxModuleIdentities[1].TcbLevels[0].TcbStatus = statuses[p.ms]
		}
		c04Dates(ti.TcbLevels, p.dates)
		eval(id, p.qi, ti, true)
	})
	r.SectionDone(mc.Section{Name: "two-level-product", Evaluations: int64(done), Exhaustive: done == len(prods)})

	// long level lists: the first listed level that matches decides, however many levels precede or follow it
	// (counts around thresholds an implementation might introduce); the levels before it each fail in a different
	// component, the levels after it match too but carry another status
	type longCase struct {
		qi, n, pos, st int
		module         bool
	}
	var longs []longCase
	nonMatching := []int{2, 3, 4, 5, 7, 8, 9, 10, 12, 13}
	for _, qi := range []int{0, 2} {
		for _, n := range []int{8, 9, 16, 17, 33, 64, 100} {
			for _, pos := range []int{-1, 0, 1, n / 2, n - 2, n - 1} {
				for st := range statuses {
					longs = append(longs, longCase{qi, n, pos, st, false})
					if qi == 2 && (n == 9 || n == 17 || n == 100) {
						longs = append(longs, longCase{qi, n, pos, st, true})
					}
				}
			}
		}
	}
	doneL := r.Parallel(len(longs), func(i int) {
		lc := longs[i]
		id := fmt.Sprintf("long-levels/q%d/n=%d,first-match@%d:%s,module-levels=%v", lc.qi, lc.n, lc.pos, statuses[lc.st], lc.module)
		if !r.Want(id) {
			return
		}
		full := [4]int{0, 0, 0, 0}
		ti, _ := build(&mc.Ctx{}, lc.qi, &full)
		q := quotes[lc.qi]
		other := "UpToDate"
		if statuses[lc.st] == "UpToDate" {
			other = "Revoked"
		}
		if !lc.module {
			ti.TcbLevels = nil
			for k := 0; k < lc.n; k++ {
				switch {
				case lc.pos >= 0 && k == lc.pos:
					ti.TcbLevels = append(ti.TcbLevels, c04Level(q.w.Plat, q.tee, 0, statuses[lc.st]))
				case lc.pos >= 0 && k > lc.pos:
					ti.TcbLevels = append(ti.TcbLevels, c04Level(q.w.Plat, q.tee, k%2, other))
				default:
					ti.TcbLevels = append(ti.TcbLevels, c04Level(q.w.Plat, q.tee, nonMatching[k%len(nonMatching)], "UpToDate"))
				}
			}
		} else if len(ti.TdxModuleIdentities) == 2 {
			// the same for the levels of the matching TDX module identity (isvsvn against TEE_TCB_SVN[0])
			var ml []world.Level
			for k := 0; k < lc.n; k++ {
				isv, st := int(q.tee[0])+1+(lc.n-k)%3, "UpToDate"
				switch {
				case lc.pos >= 0 && k == lc.pos:
					isv, st = int(q.tee[0]), statuses[lc.st]
				case lc.pos >= 0 && k > lc.pos:
					isv, st = int(q.tee[0])-k%2, other
				}
				ml = append(ml, world.Level{Tcb: world.Tcb{Isvsvn: world.IntP(isv)}, TcbDate: "2029-01-01T00:00:00Z", TcbStatus: st})
			}
			ti.TdxModuleIdentities[1].TcbLevels = ml
		}
		eval(id, lc.qi, ti, true)
	})
	// lists that are NOT sorted in some column: the first matching level, then a run of levels that one column (PCESVN,
	// an SGX component, a TDX component) puts out of reach, then matching levels of the other verdict — any search that
	// relies on a column being monotone lands behind the first match
	type humpCase struct{ qi, n, pos, run, col, st int }
	var humps []humpCase
	for _, qi := range []int{0, 2} {
		for _, n := range []int{8, 9, 12, 16, 33} {
			for _, pos := range []int{0, 1, 2} {
				for _, run := range []int{1, n/2 - 1, n - 4} {
					for _, col := range []int{4, 2, 3, 7, 8} {
						for _, st := range []int{0, 1} {
							if qi == 0 && col >= 7 && st == 1 {
								continue
							}
							humps = append(humps, humpCase{qi, n, pos, run, col, st})
						}
					}
				}
			}
		}
	}
	doneH := r.Parallel(len(humps), func(i int) {
		hc := humps[i]
		id := fmt.Sprintf("unsorted-levels/q%d/n=%d,first-match@%d:%s,then-%d-out-of-reach-by-pattern-%d", hc.qi, hc.n, hc.pos, statuses[hc.st], hc.run, hc.col)
		if !r.Want(id) {
			return
		}
		full := [4]int{0, 0, 0, 0}
		ti, _ := build(&mc.Ctx{}, hc.qi, &full)
		q := quotes[hc.qi]
		other := "UpToDate"
		if statuses[hc.st] == "UpToDate" {
			other = "OutOfDate"
		}
		ti.TcbLevels = nil
		for k := 0; k < hc.n; k++ {
			switch {
			case k < hc.pos:
				ti.TcbLevels = append(ti.TcbLevels, c04Level(q.w.Plat, q.tee, hc.col, "UpToDate"))
			case k == hc.pos:
				ti.TcbLevels = append(ti.TcbLevels, c04Level(q.w.Plat, q.tee, 0, statuses[hc.st]))
			case k <= hc.pos+hc.run:
				ti.TcbLevels = append(ti.TcbLevels, c04Level(q.w.Plat, q.tee, hc.col, other))
			default:
				ti.TcbLevels = append(ti.TcbLevels, c04Level(q.w.Plat, q.tee, 1, other))
			}
		}
		eval(id, hc.qi, ti, true)
	})
	r.SectionDone(mc.Section{Name: "unsorted-level-lists", Evaluations: int64(doneH), Exhaustive: doneH == len(humps)})
	// the platform side of the comparison comes from the PCK certificate: a component (or the PCESVN) written there as
	// a NEGATIVE DER INTEGER of the field's width (02 01 90 is -112, not 144) states no SVN at all; a level that needs
	// 144 is not reached through it. Control: the same value properly encoded (02 02 00 90) is.
	{
		T := world.CachedPKI("T")
		n := 0
		for _, k := range []int{0, 7, 15, 16} {
			for _, neg := range []bool{false, true} {
				id := fmt.Sprintf("certificate-encoding/member%d-as-%s", k+1, map[bool]string{false: "proper-integer", true: "negative-integer-of-the-field-width"}[neg])
				if !r.Want(id) {
					continue
				}
				n++
				w := world.Honest("T")
				if k < 16 {
					w.Plat.CPUSVN[k] = 0x90
				} else {
					w.Plat.PCESVN = 0x9000
				}
				top, tcb := world.SGXElems(w.Plat)
				if neg {
					oid := world.DEROID(world.SGXOid(2, k+1))
					if k < 16 {
						tcb[k] = world.DERSeq(oid, world.DER(0x02, []byte{0x90}))
					} else {
						tcb[k] = world.DERSeq(oid, world.DER(0x02, []byte{0x90, 0x00}))
					}
				}
				ext := world.DERSeq(top["ppid"], world.SGXTcbElem(tcb), top["pceid"], top["fmspc"], top["type"])
				pk := *T
				pk.Leaf = world.MakeCert(world.CertSpec{CN: world.CNLeaf, Key: T.LeafKey, SGXExt: ext}, T.Inter, T.InterKey)
				w.PKI = &pk
				w.Spec.PKI = w.PKI
				w.Parts = w.Spec.Parts()
				w.TcbInfo = world.DefaultTcbInfo(w.Plat, w.Parts.Body[0:16])
				w.Finish()
				err := world.SafeVerifyRaw(w.Raw(), w.Options(world.L1))
				out := verdict(err)
				switch {
				case world.IsPanic(err):
				case neg && err == nil:
					r.Violate("accepted:certificate-states-no-svn", id, "quote accepted at a level that needs 144 / 0x9000 although the PCK certificate writes that member as a negative INTEGER", nil)
					out = "accept!"
				case !neg && err != nil:
					r.Violate("rejected:proper-certificate", id, "quote rejected although the certificate states the SVN the level needs: "+errStr(err), nil)
					out = "reject!"
				}
				r.Eval(id, true, "certificate-encoding:"+out)
			}
		}
		r.SectionDone(mc.Section{Name: "certificate-encodings", Evaluations: int64(n), Exhaustive: true})
	}
	r.SectionDone(mc.Section{Name: "long-level-lists", Evaluations: int64(doneL), Exhaustive: doneL == len(longs),
		Note: "platform level lists (and module identity level lists) of 8..100 levels, first match at selected positions x every status"})
}

func whyClass(why string) string {
	switch {
	case strings.HasPrefix(why, "first matching platform level"):
		return "platform-level-not-uptodate"
	case strings.HasPrefix(why, "first matching TDX module level"):
		return "module-level-not-uptodate"
	case strings.HasPrefix(why, "no platform level"):
		return "no-platform-level"
	case strings.HasPrefix(why, "no TDX module level"), strings.HasPrefix(why, "TDX module identity absent"):
		return "no-module-level"
	}
	return strings.ReplaceAll(why, " ", "-")
}

// c04Dates gives the levels of a list equal (0), ascending (1: later listed = newer) or descending (2) dates.
func c04Dates(ls []world.Level, mode int) {
	for i := range ls {
		switch mode {
		case 1:
			ls[i].TcbDate = fmt.Sprintf("20%02d-03-01T00:00:00Z", 20+i)
		case 2:
			ls[i].TcbDate = fmt.Sprintf("20%02d-03-01T00:00:00Z", 29-i)
		case 3: // the first listed levels are dated after the verification time (2030), later ones before it
			ls[i].TcbDate = fmt.Sprintf("20%02d-03-01T00:00:00Z", 33-2*i)
		case 4: // every level dated after the verification time
			ls[i].TcbDate = fmt.Sprintf("20%02d-03-01T00:00:00Z", 40+i)
		}
	}
}

// c04HasOddStatus: some level of the document carries a status that is not one of Intel's seven spellings.
func c04HasOddStatus(ti world.TcbInfo) bool {
	known := map[string]bool{}
	for _, st := range world.Statuses {
		known[st] = true
	}
	for _, l := range ti.TcbLevels {
		if !known[l.TcbStatus] {
			return true
		}
	}
	for _, mi := range ti.TdxModuleIdentities {
		for _, l := range mi.TcbLevels {
			if !known[l.TcbStatus] {
				return true
			}
		}
	}
	return false
}
