// Package checks holds one exploration per property (C01..C20).
package checks

import (
	"bytes"
	"crypto/ecdsa"
	"crypto/x509"
	"encoding/hex"
	"fmt"
	"math/big"
	"os"

	"github.com/google/go-tdx-guest/testing/testdata"
	"verifharness/ref"

	"verifharness/world"
)

var lvlName = []string{"L0", "L1", "L2"}

func verdict(err error) string {
	switch {
	case err == nil:
		return "accept"
	case world.IsPanic(err):
		return "panic"
	default:
		return "reject"
	}
}

func hexs(b []byte) string { return hex.EncodeToString(b) }

func errStr(err error) string {
	if err == nil {
		return "<nil>"
	}
	s := err.Error()
	if len(s) > 300 {
		s = s[:300] + "…"
	}
	return s
}

// levels returns the checking levels explored at this tier.
func levels(thorough bool) []int {
	if thorough {
		return []int{world.L0, world.L1, world.L2}
	}
	return []int{world.L0}
}

func sprintf(f string, a ...any) string { return fmt.Sprintf(f, a...) }

var cryptoAssume = []string{
	"ECDSA P-256, SHA-256/384 and Go's crypto/x509 path building are trusted, not explored",
	"data values outside the stated alphabets are not covered",
	"the driver's private look-alike PKI stands in for Intel's (same names, extension layout, URL scheme; different keys)",
}

// embeddedIntelRoot is Intel's real SGX Root CA, taken from the sample quote's chain.
func embeddedIntelRoot() []*x509.Certificate {
	p, err := ref.ParseQuote(testdata.RawQuote)
	if err != nil {
		return nil
	}
	ders := ref.ChainDERs(bytes.TrimRight(p.Chain, "\x00"))
	if len(ders) != 3 {
		return nil
	}
	c, err := x509.ParseCertificate(ders[2])
	if err != nil {
		return nil
	}
	return []*x509.Certificate{c}
}

func pubX(c *x509.Certificate) *big.Int {
	if pk, ok := c.PublicKey.(*ecdsa.PublicKey); ok {
		return pk.X
	}
	return new(big.Int)
}

// repoRoot is the library checkout the checks run against (/repo unless VERIF_REPO says otherwise).
func repoRoot() string {
	if r := os.Getenv("VERIF_REPO"); r != "" {
		return r
	}
	return "/repo"
}
