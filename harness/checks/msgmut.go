package checks

import (
	"fmt"
	"reflect"
	"strings"

	pb "github.com/google/go-tdx-guest/proto/tdx"
	"google.golang.org/protobuf/reflect/protoreflect"
)

// msgMut is one named structural mutation of a quote message.
type msgMut struct {
	name  string
	apply func(q *pb.QuoteV4)
}

type msgPath []protoreflect.FieldDescriptor

func (p msgPath) String() string {
	s := ""
	for i, fd := range p {
		if i > 0 {
			s += "."
		}
		s += string(fd.Name())
	}
	return s
}

// resolve walks path on q; create=true materialises absent sub-messages.
func (p msgPath) resolve(q *pb.QuoteV4, create bool) (protoreflect.Message, bool) {
	m := q.ProtoReflect()
	for _, fd := range p {
		if !m.Has(fd) {
			if !create {
				return nil, false
			}
		}
		m = m.Mutable(fd).Message()
	}
	return m, true
}

// structuralMutations enumerates every single structural mutation of a valid
// message: each sub-message nil at every depth, each bytes field nil / empty /
// one short / one long, each repeated bytes field at count 0..5 (and its
// entries resized), each numeric field at boundary values.
func structuralMutations(q0 *pb.QuoteV4) []msgMut {
	var out []msgMut
	var walk func(path msgPath, m protoreflect.Message)
	walk = func(path msgPath, m protoreflect.Message) {
		fds := m.Descriptor().Fields()
		for i := 0; i < fds.Len(); i++ {
			fd := fds.Get(i)
			p := path
			name := path.String()
			if name != "" {
				name += "."
			}
			name += string(fd.Name())
			switch {
			case fd.IsList() && fd.Kind() == protoreflect.BytesKind:
				for n := 0; n <= 5; n++ {
					n := n
					if n == m.Get(fd).List().Len() {
						continue
					}
					out = append(out, msgMut{fmt.Sprintf("%s:count=%d", name, n), func(q *pb.QuoteV4) {
						mm, _ := p.resolve(q, true)
						l := mm.Mutable(fd).List()
						for l.Len() > n {
							l.Truncate(l.Len() - 1)
						}
						for l.Len() < n {
							l.Append(protoreflect.ValueOfBytes(make([]byte, 48)))
						}
					}})
				}
				for k := 0; k < m.Get(fd).List().Len(); k++ {
					k := k
					ln := len(m.Get(fd).List().Get(k).Bytes())
					for _, nl := range []int{0, ln - 1, ln + 1, ln + 256} {
						nl := nl
						out = append(out, msgMut{fmt.Sprintf("%s[%d]:len=%d", name, k, nl), func(q *pb.QuoteV4) {
							mm, _ := p.resolve(q, true)
							if l := mm.Mutable(fd).List(); k < l.Len() {
								l.Set(k, protoreflect.ValueOfBytes(make([]byte, nl)))
							}
						}})
					}
				}
			case fd.Kind() == protoreflect.BytesKind:
				ln := len(m.Get(fd).Bytes())
				out = append(out, msgMut{name + ":nil", func(q *pb.QuoteV4) {
					mm, _ := p.resolve(q, true)
					mm.Clear(fd)
				}})
				for _, nl := range []int{0, ln - 1, ln + 1, 1, ln + 256, ln + 65536} {
					if nl < 0 || nl == ln {
						continue
					}
					nl := nl
					out = append(out, msgMut{fmt.Sprintf("%s:len=%d", name, nl), func(q *pb.QuoteV4) {
						mm, _ := p.resolve(q, true)
						b := make([]byte, nl)
						copy(b, mm.Get(fd).Bytes())
						mm.Set(fd, protoreflect.ValueOfBytes(b))
					}})
					if nl == 0 {
						// present but empty: a non-nil slice of length 0 (protobuf reflection normalises an empty
						// value to nil, so the Go field is set directly)
						out = append(out, msgMut{name + ":empty-non-nil", func(q *pb.QuoteV4) {
							mm, _ := p.resolve(q, true)
							setGoBytes(mm, fd, []byte{})
						}})
						out = append(out, msgMut{name + ":empty-with-capacity", func(q *pb.QuoteV4) {
							mm, _ := p.resolve(q, true)
							setGoBytes(mm, fd, make([]byte, 0, 64))
						}})
					}
				}
			case fd.Kind() == protoreflect.Uint32Kind:
				cur := uint32(m.Get(fd).Uint())
				seenV := map[uint32]bool{}
				for _, v := range []uint32{0, 1, cur + 1, cur - 1, 1 << 16, 1<<32 - 1, cur + 1<<16, cur + 7<<16, cur | 1<<31} {
					if v == cur || seenV[v] {
						continue
					}
					seenV[v] = true
					v := v
					out = append(out, msgMut{fmt.Sprintf("%s:=%d", name, v), func(q *pb.QuoteV4) {
						mm, _ := p.resolve(q, true)
						mm.Set(fd, protoreflect.ValueOfUint32(v))
					}})
				}
			case fd.Kind() == protoreflect.MessageKind:
				out = append(out, msgMut{name + ":nil", func(q *pb.QuoteV4) {
					mm, ok := p.resolve(q, false)
					if ok {
						mm.Clear(fd)
					}
				}})
				out = append(out, msgMut{name + ":empty", func(q *pb.QuoteV4) {
					mm, ok := p.resolve(q, false)
					if ok {
						mm.Clear(fd)
						mm.Mutable(fd)
					}
				}})
				np := append(append(msgPath{}, path...), fd)
				walk(np, m.Get(fd).Message())
			}
		}
	}
	walk(nil, q0.ProtoReflect())
	return out
}

// setGoBytes assigns b to the Go struct field behind fd without protobuf's empty-to-nil normalisation.
func setGoBytes(mm protoreflect.Message, fd protoreflect.FieldDescriptor, b []byte) {
	parts := strings.Split(string(fd.Name()), "_")
	for i, p := range parts {
		if p != "" {
			parts[i] = strings.ToUpper(p[:1]) + p[1:]
		}
	}
	v := reflect.ValueOf(mm.Interface()).Elem().FieldByName(strings.Join(parts, ""))
	if v.IsValid() && v.CanSet() && v.Kind() == reflect.Slice {
		v.SetBytes(b)
	} else {
		panic("harness: no Go field for " + string(fd.FullName()))
	}
}
