package checks

import (
	"crypto/x509"
	"crypto/x509/pkix"
	"encoding/asn1"
	"errors"
	"fmt"
	ccpb "github.com/google/go-tdx-guest/proto/checkconfig"
	"math/big"
	"time"

	"github.com/google/go-tdx-guest/verify"

	"verifharness/mc"
	"verifharness/world"
)

func init() {
	mc.Register(&mc.Check{ID: "C05", Category: "fault_enumeration",
		Rule:   "Engine A at the revocation level over: revoked-serial sets of each CRL {none, unrelated, near-miss +-1, target, target among 100 entries, 20-byte serial, the other CRL's target (cross)}; targets = leaf on the PCK CRL; intermediate, TCB-Info signer and QE-Identity signer (distinct certificates) on the Root CA CRL; CRL signer {right CA, the other CA, look-alike CA with identical name, PCK key}; endpoint outcome per CRL URL {ok, error, empty, garbage, PEM instead of DER, the other CRL, look-alike PKI's CRL, truncated}; issuer root with 0/1/2 distribution points and each failing/succeeding pattern; option combinations. Non-trivial: >=1 deviation; distinct by decision vector",
		Assume: cryptoAssume, Run: runC05})
}

// c05env is everything that depends on the serial numbers of the certificates under test.
type c05env struct {
	shape                        string
	w                            *world.World
	pki                          *world.PKI
	tcb2                         *x509.Certificate
	tcb2Key                      *world.Key
	rootDP                       map[string]*x509.Certificate
	leafSN, interSN, tcbSN, qeSN *big.Int
	pckSets, rootSets            []c05rset
	pckSigners, rootSigners      []c05signer
}

type c05rset struct {
	name   string
	list   []*big.Int
	benign bool
}

type c05signer struct {
	name   string
	issuer *x509.Certificate
	key    *world.Key
	ok     bool
}

const c05dp2 = "https://certificates.trustedservices.intel.com/IntelSGXRootCA-mirror.der"
const c05dpUpper = "HTTPS://CERTIFICATES.TRUSTEDSERVICES.INTEL.COM/IntelSGXRootCA.der"

// c05Shapes: serial-number shapes of the four certificates a CRL can name (leaf, intermediate,
// TCB-Info signer, QE-Identity signer): as the generator derives them, with a zero top nibble,
// single digit, high bit set (DER needs a leading zero octet) and the 20-octet maximum.
func c05Shapes() []struct {
	name    string
	serials [4]*big.Int
} {
	hexInt := func(h string) *big.Int { v, _ := new(big.Int).SetString(h, 16); return v }
	return []struct {
		name    string
		serials [4]*big.Int
	}{
		{"derived", [4]*big.Int{nil, nil, nil, big.NewInt(0x5151515151)}},
		{"zero-top-nibble", [4]*big.Int{hexInt("0a3c5e7f9b1d2f4061"), hexInt("0190aabbccddeeff00112233"), hexInt("0f00000000000001"), hexInt("05a5a5a5a5")}},
		{"single-digit", [4]*big.Int{big.NewInt(5), big.NewInt(6), big.NewInt(7), big.NewInt(9)}},
		{"high-bit", [4]*big.Int{hexInt("ff3c5e7f9b1d2f4061aabb"), hexInt("80000000000000000001"), hexInt("c0ffee00c0ffee"), hexInt("fedcba9876543210")}},
		{"leaf-zero", [4]*big.Int{big.NewInt(0), big.NewInt(6), big.NewInt(7), big.NewInt(9)}},
		{"inter-zero", [4]*big.Int{big.NewInt(5), big.NewInt(0), big.NewInt(7), big.NewInt(9)}},
		{"tcbinfo-signer-zero", [4]*big.Int{big.NewInt(5), big.NewInt(6), big.NewInt(0), big.NewInt(9)}},
		{"qeidentity-signer-zero", [4]*big.Int{big.NewInt(5), big.NewInt(6), big.NewInt(7), big.NewInt(0)}},
		// serials are unique per ISSUER only: the leaf (issued by the intermediate) may carry the serial of a
		// certificate the root issued
		{"leaf=inter", [4]*big.Int{big.NewInt(0x4242), big.NewInt(0x4242), big.NewInt(7), big.NewInt(9)}},
		{"leaf=tcbinfo-signer", [4]*big.Int{hexInt("0c0ffee0c0ffee0c0ffee1"), big.NewInt(6), hexInt("0c0ffee0c0ffee0c0ffee1"), big.NewInt(9)}},
		{"20-octets", [4]*big.Int{hexInt("7fffffffffffffffffffffffffffffffffffff01"), hexInt("7fffffffffffffffffffffffffffffffffffff02"), hexInt("100000000000000000000000000000000000ab03"), hexInt("0123456789abcdef0123456789abcdef01234504")}},
	}
}

func c05Env(shape string, serials [4]*big.Int) *c05env {
	e := &c05env{shape: shape}
	w := world.Honest("T")
	F := world.CachedPKI("F")
	base := w.PKI
	pk := *base
	if serials[1] != nil {
		pk.Inter = world.MakeCert(world.CertSpec{CN: world.CNPlatform, IsCA: true, Key: base.InterKey, MaxPathLen: -1, Serial: serials[1]}, base.Root, base.RootKey)
	}
	if serials[0] != nil {
		pk.Leaf = world.MakeCert(world.CertSpec{CN: world.CNLeaf, Key: base.LeafKey, SGXExt: world.SGXExtension(w.Plat), Serial: serials[0]}, pk.Inter, base.InterKey)
	}
	if serials[2] != nil {
		pk.Tcb = world.MakeCert(world.CertSpec{CN: world.CNTcb, Key: base.TcbKey, Serial: serials[2]}, base.Root, base.RootKey)
	}
	w.PKI = &pk
	w.Spec.PKI = w.PKI
	w.Parts = w.Spec.Parts()
	w.Finish()
	pki := w.PKI
	e.w, e.pki = w, pki
	// distinct signing certificates for the two JSON documents
	tcb2Key := world.NewKey("T/tcb2")
	tcb2 := world.MakeCert(world.CertSpec{CN: world.CNTcb, Key: tcb2Key, Serial: serials[3]}, pki.Root, pki.RootKey)
	// issuer roots with other distribution-point lists (same key and name as the trusted root)
	const dp2 = c05dp2
	rootDP := map[string]*x509.Certificate{
		"none": world.MakeCert(world.CertSpec{CN: world.CNRoot, IsCA: true, Key: pki.RootKey, MaxPathLen: 1, NoCRLDP: true}, nil, pki.RootKey),
		"two":  world.MakeCert(world.CertSpec{CN: world.CNRoot, IsCA: true, Key: pki.RootKey, MaxPathLen: 1, CRLDP: []string{world.RootCRLURL, dp2}}, nil, pki.RootKey),
		// the first point's URL written with an upper-case scheme and host (a URL is the same URL)
		"upper": world.MakeCert(world.CertSpec{CN: world.CNRoot, IsCA: true, Key: pki.RootKey, MaxPathLen: 1, CRLDP: []string{c05dpUpper, dp2}}, nil, pki.RootKey),
	}
	leafSN, interSN, tcbSN, qeSN := pki.Leaf.SerialNumber, pki.Inter.SerialNumber, pki.Tcb.SerialNumber, tcb2.SerialNumber
	unrelated := big.NewInt(0x77777777)
	many := func(target *big.Int) []*big.Int {
		var out []*big.Int
		for i := 0; i < 100; i++ {
			out = append(out, big.NewInt(int64(1000+i)))
			if i == 57 && target != nil {
				out = append(out, target)
			}
		}
		return out
	}
	// 300 entries with the target at a given position (entry counts / encodings beyond one-byte lengths)
	manyAt := func(target *big.Int, at int) []*big.Int {
		var out []*big.Int
		for i := 0; i < 300; i++ {
			if i == at {
				out = append(out, target)
			} else {
				out = append(out, big.NewInt(int64(5000+i)))
			}
		}
		return out
	}
	big20 := new(big.Int).Lsh(big.NewInt(0x7f), 152)
	pm := func(v *big.Int, d int64) *big.Int {
		x := new(big.Int).Add(v, big.NewInt(d))
		if x.Sign() < 0 { // next to serial 0: stay among the serials a CRL can carry
			x = new(big.Int).Add(v, big.NewInt(100))
		}
		return x
	}
	up := func(v *big.Int, bit uint) *big.Int { return new(big.Int).Add(v, new(big.Int).Lsh(big.NewInt(1), bit)) }
	type rset = c05rset
	pckSets := []rset{{"none", nil, true}, {"unrelated", []*big.Int{unrelated}, true}, {"leaf-1", []*big.Int{pm(leafSN, -1)}, true}, {"leaf+1", []*big.Int{pm(leafSN, 1)}, true},
		{"20-byte", []*big.Int{big20}, true}, {"100-unrelated", many(nil), true}, {"cross:inter+tcb-signers", []*big.Int{interSN, tcbSN, qeSN}, true},
		{"leaf", []*big.Int{leafSN}, false}, {"leaf-among-100", many(leafSN), false}, {"leaf-last", []*big.Int{unrelated, big20, leafSN}, false},
		{"leaf@128-of-300", manyAt(leafSN, 128), false}, {"leaf@256-of-300", manyAt(leafSN, 256), false}, {"leaf@299-of-300", manyAt(leafSN, 299), false}, {"300-unrelated", manyAt(unrelated, 7), true},
		{"leaf+2^64,+2^32,+2^8", []*big.Int{up(leafSN, 64), up(leafSN, 32), up(leafSN, 8)}, true},
		// entries that are the leaf's serial up to sign / repeated: each entry stands for itself
		{"-leaf-then-leaf", []*big.Int{new(big.Int).Neg(pm(leafSN, 0)), leafSN}, false}, {"leaf-then--leaf", []*big.Int{leafSN, new(big.Int).Neg(pm(leafSN, 0))}, false},
		{"-leaf-only", []*big.Int{new(big.Int).Neg(pm(leafSN, 0))}, true}, {"unrelated-twice-then-leaf", []*big.Int{unrelated, unrelated, leafSN}, false}, {"leaf-twice", []*big.Int{leafSN, leafSN}, false}}
	rootSets := []rset{{"none", nil, true}, {"unrelated", []*big.Int{unrelated}, true}, {"inter-1", []*big.Int{pm(interSN, -1)}, true}, {"tcb+1", []*big.Int{pm(tcbSN, 1)}, true},
		{"100-unrelated", many(nil), true}, {"cross:leaf", []*big.Int{leafSN}, true},
		{"inter", []*big.Int{interSN}, false}, {"tcbinfo-signer", []*big.Int{tcbSN}, false}, {"qeidentity-signer", []*big.Int{qeSN}, false},
		{"inter-among-100", many(interSN), false}, {"qeidentity-signer-last", []*big.Int{unrelated, qeSN}, false},
		{"inter@128-of-300", manyAt(interSN, 128), false}, {"tcbinfo-signer@299-of-300", manyAt(tcbSN, 299), false},
		{"-inter-then-inter", []*big.Int{new(big.Int).Neg(pm(interSN, 0)), interSN}, false}, {"-tcbinfo-signer-then-tcbinfo-signer", []*big.Int{new(big.Int).Neg(pm(tcbSN, 0)), tcbSN}, false},
		{"signers+2^64,+2^32,+2^8", []*big.Int{up(interSN, 64), up(tcbSN, 64), up(qeSN, 64), up(interSN, 32), up(tcbSN, 32), up(qeSN, 32), up(tcbSN, 8)}, true}}
	type signer = c05signer
	pckSigners := []signer{{"inter", pki.Inter, pki.InterKey, true}, {"root", pki.Root, pki.RootKey, false}, {"F.inter", F.Inter, F.InterKey, false},
		{"inter-name/leaf-key", pki.Inter, pki.LeafKey, false}, {"inter-name/root-key", pki.Inter, pki.RootKey, false}}
	rootSigners := []signer{{"root", pki.Root, pki.RootKey, true}, {"inter", pki.Inter, pki.InterKey, false}, {"F.root", F.Root, F.RootKey, false},
		{"root-name/inter-key", pki.Root, pki.InterKey, false}, {"root-name/leaf-key", pki.Root, pki.LeafKey, false}}
	e.tcb2, e.tcb2Key, e.rootDP = tcb2, tcb2Key, rootDP
	e.leafSN, e.interSN, e.tcbSN, e.qeSN = leafSN, interSN, tcbSN, qeSN
	e.pckSets, e.rootSets, e.pckSigners, e.rootSigners = pckSets, rootSets, pckSigners, rootSigners
	return e
}

func runC05(r *mc.Run) {
	F := world.CachedPKI("F")
	var envs []*c05env
	for _, sh := range c05Shapes() {
		envs = append(envs, c05Env(sh.name, sh.serials))
	}
	const dp2 = c05dp2
	endpoints := []string{"ok", "error", "empty", "garbage", "pem", "other-crl", "F-crl", "truncated"}
	dps := []string{"one", "none", "two:ok,ok", "two:bad,ok", "two:ok,bad", "two:bad,bad", "upper:as-chosen,clean-mirror"}
	bound := 3
	if r.Thorough() {
		bound = 4
	}
	pckCrlURL := world.URLPckCrl("platform")
	fInterNYV := world.MakeCert(world.CertSpec{CN: world.CNPlatform, IsCA: true, Key: F.InterKey, MaxPathLen: -1, NotBefore: world.T0.AddDate(0, 0, 1), NotAfter: world.T0.AddDate(10, 0, 0)}, F.Root, F.RootKey)
	for _, lvl := range []int{0, 2} {
		world.SetLogLevel(lvl)
		exName, exBound := "revocation-worlds", bound
		if lvl != 0 {
			exName, exBound = "revocation-worlds/log-level=2", 1
		}
		r.Explore(exName, exBound, func(c *mc.Ctx) {
			e := envs[c.Choose("serial-shape", len(envs))]
			w, pki, tcb2, tcb2Key, rootDP := e.w, e.pki, e.tcb2, e.tcb2Key, e.rootDP
			leafSN, interSN, tcbSN, qeSN := e.leafSN, e.interSN, e.tcbSN, e.qeSN
			pckSets, rootSets, pckSigners, rootSigners := e.pckSets, e.rootSets, e.pckSigners, e.rootSigners
			ps := c.Choose("pck.revoked", len(pckSets))
			rs := c.Choose("root.revoked", len(rootSets))
			psg := c.Choose("pck.signer", len(pckSigners))
			rsg := c.Choose("root.signer", len(rootSigners))
			pep := c.Choose("pck.endpoint", len(endpoints))
			rep := c.Choose("root.endpoint", len(endpoints))
			dp := c.Choose("root.dps", len(dps))
			ph := c.Choose("pck.header", 7)
			opt := c.Choose("options", 3)
			rk := c.Choose("entry.reason", 12)
			reason := []int{0, 1, 8, 6, 10, 0, 0, 0, 0, 0, 0, 0}[rk] // none, keyCompromise, removeFromCRL, certificateHold, aACompromise, then entry extensions
			var entryExts, firstExts []pkix.Extension
			// certificateIssuer (2.5.29.29) naming another CA / the CRL issuer's own common name, on the FIRST entry only:
			// these CRLs are direct ones (no issuingDistributionPoint), so every entry is about the CRL issuer's certificates
			otherCA := func(cn string, critical bool) []pkix.Extension {
				name := world.DERSeq(world.DER(0x31, world.DERSeq(world.DER(0x06, []byte{0x55, 0x04, 0x03}), world.DER(0x0c, []byte(cn)))))
				return []pkix.Extension{{Id: asn1.ObjectIdentifier{2, 5, 29, 29}, Critical: critical, Value: world.DERSeq(world.DER(0xa4, name))}}
			}
			switch rk {
			case 5: // an extension nobody knows, marked critical
				entryExts = []pkix.Extension{{Id: asn1.ObjectIdentifier{1, 3, 6, 1, 4, 1, 99999, 1}, Critical: true, Value: []byte{0x05, 0x00}}}
			case 6: // ... not critical
				entryExts = []pkix.Extension{{Id: asn1.ObjectIdentifier{1, 3, 6, 1, 4, 1, 99999, 1}, Value: []byte{0x05, 0x00}}}
			case 7: // invalidityDate
				entryExts = []pkix.Extension{{Id: asn1.ObjectIdentifier{2, 5, 29, 24}, Value: []byte{0x18, 0x0f, '2', '0', '2', '8', '0', '1', '0', '1', '0', '0', '0', '0', '0', '0', 'Z'}}}
			case 8: // critical reasonCode
				entryExts = []pkix.Extension{{Id: asn1.ObjectIdentifier{2, 5, 29, 21}, Critical: true, Value: []byte{0x0a, 0x01, 0x01}}}
			case 9:
				firstExts = otherCA("Some Other Issuing CA", true)
			case 10:
				firstExts = otherCA("Some Other Issuing CA", false)
			case 11: // on every entry
				entryExts = otherCA("Some Other Issuing CA", true)
			}
			// revocation date of the entries relative to the verification time: a listed certificate is revoked whenever its entry is dated
			revAt := []time.Time{{}, world.T0, world.T0.Add(time.Second), world.T0.AddDate(0, 0, 14)}[c.Choose("entry.date", 4)]
			// the CRLs spell their issuer's name in another encoding than the certificates do (UTF8String values)
			utf8Issuer := c.Choose("crl.issuer-name-encoding", 2) == 1
			// ... and name another authority key identifier than the certificates carry (a hint, not an identity)
			var crlAKI []byte
			if c.Choose("crl.authority-key-identifier", 2) == 1 {
				crlAKI = world.Fill("c05-other-key-identifier", 20)
			}
			// when the CRLs were issued: by default shortly before the verification time; long ago (before any certificate
			// of the chain became valid: what such a CRL lists is listed all the same); at the verification time itself
			var crlThis time.Time
			switch c.Choose("crl.this-update", 3) {
			case 1:
				crlThis = world.T0.AddDate(-3, 0, 0)
			case 2:
				crlThis = world.T0
			}
			// extensions of the CRL itself that narrow or widen its scope on paper (issuing distribution point flags,
			// critical or not; a private extension): a CRL that lists a certificate of the chain lists it
			var crlExts []pkix.Extension
			crlExt := []int{0, 1, 2, 4, 6, 7}[c.Choose("crl.extensions", 6)]
			if crlExt != 0 {
				idp := asn1.ObjectIdentifier{2, 5, 29, 28}
				v := [][]byte{nil, {0x30, 0x03, 0x85, 0x01, 0xff}, {0x30, 0x03, 0x81, 0x01, 0xff}, {0x30, 0x03, 0x82, 0x01, 0xff}, {0x30, 0x03, 0x84, 0x01, 0xff}, {0x30, 0x04, 0x83, 0x02, 0x01, 0x7e}, {0x30, 0x03, 0x85, 0x01, 0xff}, {0x04, 0x02, 0x01, 0x02}}[crlExt]
				e := pkix.Extension{Id: idp, Critical: crlExt != 6, Value: v}
				if crlExt == 7 {
					e = pkix.Extension{Id: asn1.ObjectIdentifier{1, 2, 840, 113741, 1, 13, 99}, Value: v}
				}
				crlExts = []pkix.Extension{e}
			}
			id := "crl/" + c.ID() + world.LogTag()
			if !r.Want(id) {
				return
			}
			pckCrl := world.MakeCRL(world.CRLSpec{Issuer: pckSigners[psg].issuer, Signer: pckSigners[psg].key, Revoked: pckSets[ps].list, Reason: reason, RevokedAt: revAt, EntryExts: entryExts, FirstEntryExts: firstExts, IssuerUTF8: utf8Issuer, AuthorityKeyID: crlAKI, ThisUpdate: crlThis, Exts: crlExts})
			rootCrl := world.MakeCRL(world.CRLSpec{Issuer: rootSigners[rsg].issuer, Signer: rootSigners[rsg].key, Revoked: rootSets[rs].list, Reason: reason, RevokedAt: revAt, EntryExts: entryExts, FirstEntryExts: firstExts, IssuerUTF8: utf8Issuer, AuthorityKeyID: crlAKI, ThisUpdate: crlThis, Exts: crlExts})
			fPck := world.MakeCRL(world.CRLSpec{Issuer: F.Inter, Signer: F.InterKey})
			fRoot := world.MakeCRL(world.CRLSpec{Issuer: F.Root, Signer: F.RootKey})
			serve := func(kind string, own, other, f []byte, hdr map[string][]string) world.Response {
				switch kind {
				case "error":
					return world.Response{Err: errors.New("503")}
				case "empty":
					return world.Response{Header: hdr, Body: nil}
				case "garbage":
					return world.Response{Header: hdr, Body: world.Fill("crl-garbage", 200)}
				case "pem":
					return world.Response{Header: hdr, Body: world.PEMBlock("X509 CRL", own)}
				case "other-crl":
					return world.Response{Header: hdr, Body: other}
				case "F-crl":
					return world.Response{Header: hdr, Body: f}
				case "truncated":
					return world.Response{Header: hdr, Body: own[:len(own)-7]}
				}
				return world.Response{Header: hdr, Body: own}
			}
			g := w.Getter.Clone()
			g.Responses[world.URLQeIdentity] = world.Response{Header: map[string][]string{world.HdrQeIdentity: {world.IssuerChainHeader(tcb2, pki.Root)}},
				Body: world.SignedBody("enclaveIdentity", w.QeRaw, tcb2Key)}
			pckHdr := w.PckHdr
			switch ph {
			case 1: // a self-consistent look-alike issuer chain (same names) accompanying the CRL
				pckHdr = map[string][]string{world.HdrPckCrl: {world.IssuerChainHeader(F.Inter, F.Root)}}
			case 2: // look-alike CA under the genuine root
				pckHdr = map[string][]string{world.HdrPckCrl: {world.IssuerChainHeader(F.Inter, pki.Root)}}
			case 3: // the issuer chain of whoever signed this CRL
				pckHdr = map[string][]string{world.HdrPckCrl: {world.IssuerChainHeader(pckSigners[psg].issuer, pki.Root)}}
			case 4: // the root CA's own chain
				pckHdr = map[string][]string{world.HdrPckCrl: {world.IssuerChainHeader(pki.Root, pki.Root)}}
			case 5: // look-alike chain whose CA certificate is not yet valid (a validity error must not replace the trust decision)
				pckHdr = map[string][]string{world.HdrPckCrl: {world.IssuerChainHeader(fInterNYV, F.Root)}}
			case 6: // ... under the genuine root
				pckHdr = map[string][]string{world.HdrPckCrl: {world.IssuerChainHeader(fInterNYV, pki.Root)}}
			}
			g.Responses[pckCrlURL] = serve(endpoints[pep], pckCrl, rootCrl, fPck, pckHdr)
			rootResp := serve(endpoints[rep], rootCrl, pckCrl, fRoot, nil)
			bad := world.Response{Err: errors.New("404")}
			dpBenign := true
			switch dps[dp] {
			case "one":
				g.Responses[world.RootCRLURL] = rootResp
			case "none":
				g.Responses[world.URLQeIdentity] = world.Response{Header: map[string][]string{world.HdrQeIdentity: {world.IssuerChainHeader(tcb2, rootDP["none"])}}, Body: g.Responses[world.URLQeIdentity].Body}
				g.Responses[world.RootCRLURL] = rootResp
				dpBenign = false
			case "upper:as-chosen,clean-mirror":
				// the first point (upper-case URL) serves the Root CA CRL of this world, the mirror an older, clean list
				g.Responses[world.URLQeIdentity] = world.Response{Header: map[string][]string{world.HdrQeIdentity: {world.IssuerChainHeader(tcb2, rootDP["upper"])}}, Body: g.Responses[world.URLQeIdentity].Body}
				g.Responses[c05dpUpper] = rootResp
				g.Responses[dp2] = world.Response{Body: world.MakeCRL(world.CRLSpec{Issuer: pki.Root, Signer: pki.RootKey})}
			default:
				g.Responses[world.URLQeIdentity] = world.Response{Header: map[string][]string{world.HdrQeIdentity: {world.IssuerChainHeader(tcb2, rootDP["two"])}}, Body: g.Responses[world.URLQeIdentity].Body}
				g.Responses[world.RootCRLURL], g.Responses[dp2] = rootResp, rootResp
				switch dps[dp] {
				case "two:bad,ok":
					g.Responses[world.RootCRLURL] = bad
				case "two:ok,bad":
					g.Responses[dp2] = bad
				case "two:bad,bad":
					g.Responses[world.RootCRLURL], g.Responses[dp2] = bad, bad
					dpBenign = false
				}
			}
			now := w.Now
			o := &verify.Options{GetCollateral: true, CheckRevocations: true, Getter: g, Now: &now, TrustedRoots: w.Roots}
			switch opt {
			case 1:
				o.GetCollateral = false // revocation without collateral must always fail
			case 2:
				o.CheckRevocations = false // L1: CRLs must not matter at all
			}
			err := verifyRawBoth(r, id, w.Raw(), o)
			// reference condition, evaluated on the bytes each endpoint actually served
			crlGood := func(resp world.Response, ca *x509.Certificate, targets ...*big.Int) bool {
				if resp.Err != nil {
					return false
				}
				crl, perr := x509.ParseRevocationList(resp.Body)
				if perr != nil || crl.Issuer.String() != ca.Subject.String() || crl.CheckSignatureFrom(ca) != nil {
					return false
				}
				for _, rc := range crl.RevokedCertificateEntries {
					for _, t := range targets {
						if rc.SerialNumber.Cmp(t) == 0 {
							return false
						}
					}
				}
				return true
			}
			pckGood := crlGood(g.Responses[pckCrlURL], pki.Inter, leafSN)
			rootGood := false
			switch dps[dp] {
			case "one":
				rootGood = crlGood(g.Responses[world.RootCRLURL], pki.Root, interSN, tcbSN, qeSN)
			case "none":
			default:
				// the first distribution point that answers with a parseable CRL is the one obtained
				points := []string{world.RootCRLURL, dp2}
				if dps[dp] == "upper:as-chosen,clean-mirror" {
					points = []string{c05dpUpper, dp2}
				}
				for _, u := range points {
					resp := g.Responses[u]
					if resp.Err != nil {
						continue
					}
					if _, perr := x509.ParseRevocationList(resp.Body); perr != nil {
						continue
					}
					rootGood = crlGood(resp, pki.Root, interSN, tcbSN, qeSN)
					break
				}
			}
			_ = dpBenign
			cond := pckGood && rootGood
			out := verdict(err)
			detail := map[string]any{"pck_crl_hex": hexs(g.Responses[pckCrlURL].Body), "root_crl_hex": hexs(rootResp.Body), "urls": g.Log}
			switch {
			case world.IsPanic(err):
				// C10
			case opt == 1 && err == nil:
				r.Violate("accepted:revocation-without-collateral", id, "CheckRevocations without GetCollateral was accepted", detail)
				out = "accept!"
			case opt == 0 && err == nil && !cond:
				r.Violate("accepted:"+c05Why(pckSets[ps].benign, rootSets[rs].benign, pckSigners[psg].ok, rootSigners[rsg].ok, endpoints[pep], endpoints[rep], dps[dp], rootSets[rs].name), id,
					"quote accepted with revocation checking although a CRL is missing, unauthenticated or lists a certificate of the chain", detail)
				out = "accept!"
			case opt == 0 && err != nil && cond && crlExt != 0:
				// a CRL with scope extensions may be refused as a whole: only acceptances are judged for those
				out = "reject(scope-extension)"
			case opt == 0 && err != nil && cond:
				r.Violate("rejected-clean:"+c05Benign(pckSets[ps].name, rootSets[rs].name, dps[dp]), id, "quote rejected although both CRLs are genuine and list none of its certificates: "+errStr(err), detail)
				out = "reject!"
			case opt == 2 && err != nil:
				r.Violate("crl-matters-without-revocation-checking", id, "with revocation checking off the verdict still depends on CRL state: "+errStr(err), detail)
				out = "reject!"
			}
			r.Eval(id, c.Deviations() > 0, fmt.Sprintf("opt%d:cond=%v/%s", opt, cond, out))
		})
	}
	world.SetLogLevel(0)
	c05Routes(r, envs[0])
	c05Positions(r, envs[0])
	world.SetLogLevel(2)
	c05Positions(r, envs[0])
	world.SetLogLevel(0)
}

// c05Routes: the switches reach the verifier through a root-of-trust configuration exactly as through options set by
// hand: for each of the four combinations of check_crl / get_collateral and a clean resp. leaf-revoking PCK CRL the
// verdict through verify.RootOfTrustToOptions equals the direct one, and revocation checking without collateral
// fetching fails on both routes.
func c05Routes(r *mc.Run, e *c05env) {
	w, pki := e.w, e.pki
	for _, crl := range []bool{false, true} {
		for _, gc := range []bool{false, true} {
			for _, revoked := range []bool{false, true} {
				id := fmt.Sprintf("route/check_crl=%v,get_collateral=%v,leaf-revoked=%v", crl, gc, revoked)
				if !r.Want(id) {
					continue
				}
				mkGetter := func() *world.Getter {
					g := w.Getter.Clone()
					g.Responses[world.URLQeIdentity] = world.Response{Header: map[string][]string{world.HdrQeIdentity: {world.IssuerChainHeader(e.tcb2, pki.Root)}},
						Body: world.SignedBody("enclaveIdentity", w.QeRaw, e.tcb2Key)}
					if revoked {
						g.Responses[world.URLPckCrl("platform")] = world.Response{Header: w.PckHdr, Body: world.MakeCRL(world.CRLSpec{Issuer: pki.Inter, Signer: pki.InterKey, Revoked: []*big.Int{e.leafSN}})}
					}
					return g
				}
				now := w.Now
				direct := &verify.Options{GetCollateral: gc, CheckRevocations: crl, Getter: mkGetter(), Now: &now, TrustedRoots: w.Roots}
				derr := world.SafeVerifyRaw(w.Raw(), direct)
				var viaCfg *verify.Options
				var cerr error
				func() {
					defer world.Recover(&cerr)
					viaCfg, cerr = verify.RootOfTrustToOptions(&ccpb.RootOfTrust{Cabundles: []string{string(world.PEM(pki.Root))}, CheckCrl: crl, GetCollateral: gc})
				}()
				out := "config-error"
				if cerr == nil && viaCfg != nil {
					now2 := w.Now
					viaCfg.Now, viaCfg.Getter = &now2, mkGetter()
					verr := world.SafeVerifyRaw(w.Raw(), viaCfg)
					out = verdict(verr)
					switch {
					case world.IsPanic(verr):
					case crl && !gc && verr == nil:
						r.Violate("route:revocation-without-collateral-accepted", id, "check_crl without get_collateral, given through a root-of-trust configuration, is accepted", nil)
						out = "accept!"
					case (verr == nil) != (derr == nil):
						r.Violate("route:config-differs-from-direct", id, fmt.Sprintf("options from a root-of-trust configuration give %q, the same switches set by hand give %q", errStr(verr), errStr(derr)), nil)
						out += "!=direct"
					case crl && gc && revoked && verr == nil:
						r.Violate("route:revoked-leaf-accepted", id, "a revoked leaf is accepted with check_crl and get_collateral given through a root-of-trust configuration", nil)
						out = "accept!"
					}
				} else if !world.IsPanic(cerr) {
					r.Violate("route:config-refused", id, "a root-of-trust configuration with an inline bundle is refused: "+errStr(cerr), nil)
				}
				r.Eval(id, true, "route:"+out)
			}
		}
	}
}

// c05Positions: the revoked certificate's entry at EVERY index of CRLs of several sizes (one entry .. 300 entries;
// sizes around powers of two), for the leaf in the PCK CRL and for the intermediate CA and the two collateral signers
// in the Root CA CRL: listed is listed, wherever the entry sits. A clean CRL of each size is the control.
func c05Positions(r *mc.Run, e *c05env) {
	w, pki := e.w, e.pki
	type job struct {
		target string
		n, at  int
	}
	var jobs []job
	for _, n := range []int{1, 2, 8, 16, 17, 31, 32, 33, 34, 40, 48, 64, 65, 100, 300} {
		for at := -1; at < n; at++ {
			jobs = append(jobs, job{"leaf", n, at})
			if n == 33 || n == 48 || n == 100 {
				jobs = append(jobs, job{"intermediate", n, at}, job{"tcbinfo-signer", n, at}, job{"qeidentity-signer", n, at})
			}
		}
	}
	done := r.Parallel(len(jobs), func(i int) {
		j := jobs[i]
		id := fmt.Sprintf("crl-position/%s/entries=%d,at=%d", j.target, j.n, j.at) + world.LogTag()
		if !r.Want(id) {
			return
		}
		sn := map[string]*big.Int{"leaf": e.leafSN, "intermediate": e.interSN, "tcbinfo-signer": e.tcbSN, "qeidentity-signer": e.qeSN}[j.target]
		var list []*big.Int
		for k := 0; k < j.n; k++ {
			if k == j.at {
				list = append(list, sn)
			} else {
				list = append(list, big.NewInt(int64(900000+7*k)))
			}
		}
		g := w.Getter.Clone()
		g.Responses[world.URLQeIdentity] = world.Response{Header: map[string][]string{world.HdrQeIdentity: {world.IssuerChainHeader(e.tcb2, pki.Root)}},
			Body: world.SignedBody("enclaveIdentity", w.QeRaw, e.tcb2Key)}
		if j.target == "leaf" {
			g.Responses[world.URLPckCrl("platform")] = world.Response{Header: w.PckHdr, Body: world.MakeCRL(world.CRLSpec{Issuer: pki.Inter, Signer: pki.InterKey, Revoked: list})}
		} else {
			g.Responses[world.RootCRLURL] = world.Response{Body: world.MakeCRL(world.CRLSpec{Issuer: pki.Root, Signer: pki.RootKey, Revoked: list})}
		}
		now := w.Now
		err := verifyRawBoth(r, id, w.Raw(), &verify.Options{GetCollateral: true, CheckRevocations: true, Getter: g, Now: &now, TrustedRoots: w.Roots})
		out := verdict(err)
		switch {
		case world.IsPanic(err):
		case j.at >= 0 && err == nil:
			r.Violate("accepted:position:"+j.target, id, fmt.Sprintf("quote accepted with revocation checking although entry %d of the %d-entry CRL lists the %s certificate", j.at, j.n, j.target), nil)
			out = "accept!"
		case j.at < 0 && err != nil:
			r.Violate("rejected-clean:position", id, "quote rejected although the CRL lists none of its certificates: "+errStr(err), nil)
			out = "reject!"
		}
		r.Eval(id, true, fmt.Sprintf("position:listed=%v/%s", j.at >= 0, out))
	})
	r.SectionDone(mc.Section{Name: "crl-entry-positions" + world.LogTag(), Evaluations: int64(done), Exhaustive: done == len(jobs), Note: "every index of CRLs of 15 sizes (leaf), of 3 sizes (intermediate and the two collateral signers)"})
}

func c05Why(pckBenign, rootBenign, pckSigOK, rootSigOK bool, pep, rep, dp, rootSet string) string {
	switch {
	case !pckBenign:
		return "leaf-revoked"
	case !rootBenign:
		return "root-crl-lists:" + rootSet
	case !pckSigOK:
		return "pck-crl-wrong-signer"
	case !rootSigOK:
		return "root-crl-wrong-signer"
	case pep != "ok":
		return "pck-crl-endpoint:" + pep
	case rep != "ok":
		return "root-crl-endpoint:" + rep
	}
	return "root-dps:" + dp
}

func c05Benign(ps, rs, dp string) string { return ps + "/" + rs + "/" + dp }
