package checks

import (
	"bytes"
	"context"
	"encoding/binary"
	"errors"
	"flag"
	"fmt"
	"io"
	"io/fs"
	"os"
	"path/filepath"
	"sync/atomic"
	"syscall"
	"time"

	"github.com/google/go-tdx-guest/client"
	labi "github.com/google/go-tdx-guest/client/linuxabi"
	pb "github.com/google/go-tdx-guest/proto/tdx"
	"google.golang.org/protobuf/proto"

	"verifharness/mc"
	"verifharness/world"
)

func init() {
	mc.Register(&mc.Check{ID: "C15", Category: "fault_enumeration",
		Rule:   "cases: the full product of report data {zeros, pattern, 0xFF} x report request {error, result 0,1,7,8,9,2^32} x report bytes {A,B} x quote request {error, result 0,1,9} x status {0, in-flight, error, unavailable, 1, 2^63} x OutLen {0,1,exact,buffer,buffer+1,2^32-1} x buffer content {quote, zeros, TD report left in place} against a scripted client.Device, plus every provider behaviour {supported, unsupported} x bytes {nil, empty, quote, garbage} x error {nil, e} and the fallback path with the device flag at {nonexistent, regular file}. Non-trivial: any combination other than the all-success default; distinct by id",
		Assume: []string{"the kernel side of /dev/tdx_guest and configfs is modelled by scripted doubles of client.Device / client.QuoteProvider"},
		Run:    runC15})
}

type c15dev struct {
	repErr    error
	repResult uintptr
	repBytes  [labi.TdReportSize]byte
	qErr      error
	qResult   uintptr
	status    uint64
	outLen    uint32
	content   int // 0 quote, 1 zeros, 2 leave the TD report in place, 3-5 self-describing contents
	quote     []byte

	calls     []string
	gotData   [64]byte
	gotReport []byte
	gotInLen  uint32
	gotLength uint64
	written   []byte // what the device put in the buffer
	bufSize   int
	setLength *uint64 // when set: the device overwrites the request's Length field with it
	// the device completes the request without storing some header fields (they stay as the library sent them)
	keepOutLen, keepStatus bool
	sentOutLen             uint32
	sentStatus             uint64
}

func (d *c15dev) Open(string) error { return nil }
func (d *c15dev) Close() error      { return nil }
func (d *c15dev) Ioctl(cmd uintptr, arg any) (uintptr, error) {
	switch a := arg.(type) {
	case *labi.TdxReportReq:
		d.calls = append(d.calls, "report")
		d.gotData = a.ReportData
		if d.repErr != nil {
			return 0, d.repErr
		}
		a.TdReport = d.repBytes
		return d.repResult, nil
	case *labi.TdxQuoteReq:
		d.calls = append(d.calls, "quote")
		h, ok := a.Buffer.(*labi.TdxQuoteHdr)
		if !ok {
			return 0, errors.New("scripted device: unexpected buffer type")
		}
		d.gotReport = append([]byte(nil), h.Data[:labi.TdReportSize]...)
		d.gotInLen = h.InLen
		d.gotLength = a.Length
		d.bufSize = len(h.Data)
		if d.qErr != nil {
			return 0, d.qErr
		}
		switch d.content {
		case 0:
			for i := range h.Data {
				h.Data[i] = 0
			}
			copy(h.Data[:], d.quote)
		case 1:
			for i := range h.Data {
				h.Data[i] = 0
			}
		case 3, 4, 5:
			// contents that describe themselves: what the device wrote is what the caller gets, whatever it looks like.
			// 3 / 4: a quote-generation-service response frame (big-endian total, version 1, type 1, sizes, error 0, id
			// size 0 / 16, quote size) whose every size agrees with OutLen; 5: a little-endian length prefix
			for i := range h.Data {
				h.Data[i] = 0
			}
			n := int(d.outLen)
			if n >= 64 && n <= len(h.Data) {
				if d.content == 5 {
					binary.LittleEndian.PutUint32(h.Data[0:], uint32(n-4))
					copy(h.Data[4:n], d.quote)
				} else {
					idSize := 0
					if d.content == 4 {
						idSize = 16
					}
					binary.BigEndian.PutUint32(h.Data[0:], uint32(n-4))
					binary.LittleEndian.PutUint16(h.Data[4:], 1)
					binary.LittleEndian.PutUint32(h.Data[8:], 1)
					binary.LittleEndian.PutUint32(h.Data[12:], uint32(n-4))
					binary.LittleEndian.PutUint32(h.Data[16:], 0)
					binary.LittleEndian.PutUint32(h.Data[20:], uint32(idSize))
					binary.LittleEndian.PutUint32(h.Data[24:], uint32(n-28-idSize))
					copy(h.Data[28+idSize:n], d.quote)
				}
			} else {
				copy(h.Data[:], d.quote)
			}
		}
		d.sentOutLen, d.sentStatus = h.OutLen, h.Status
		if !d.keepStatus {
			h.Status = d.status
		}
		if !d.keepOutLen {
			h.OutLen = d.outLen
		}
		if d.setLength != nil {
			a.Length = *d.setLength
		}
		d.written = append([]byte(nil), h.Data[:]...)
		return d.qResult, nil
	}
	d.calls = append(d.calls, "other")
	return 0, errors.New("scripted device: unexpected request")
}

type c15prov struct {
	supported error
	bytes     []byte
	err       error
	calls     int
	got       [64]byte
}

func (p *c15prov) IsSupported() error { return p.supported }
func (p *c15prov) GetRawQuote(rd [64]byte) ([]uint8, error) {
	p.calls++
	p.got = rd
	return p.bytes, p.err
}

func runC15(r *mc.Run) {
	base := c01Baselines()[0]
	quote := base.raw
	bufSize := len(labi.TdxQuoteHdr{}.Data)
	rds := [][64]byte{{}, {}, {}}
	copy(rds[1][:], world.Fill("report-data", 64))
	for i := range rds[2] {
		rds[2][i] = 0xff
	}
	repOutcomes := []struct {
		name string
		err  error
		res  uintptr
	}{{"ok", nil, 0}, {"err", errors.New("EIO"), 0}, {"r1", nil, 1}, {"r7", nil, 7}, {"r8", nil, 8}, {"r9", nil, 9}, {"r2^32", nil, 1 << 32},
		{"EINTR", syscall.EINTR, 0}, {"EAGAIN", syscall.EAGAIN, 0}, {"err+result1", errors.New("EIO"), 1}, {"r2^63", nil, 1 << 63}, {"r2^32+1", nil, 1<<32 + 1}, {"r-1", nil, ^uintptr(0)}}
	qOutcomes := []struct {
		name string
		err  error
		res  uintptr
	}{{"ok", nil, 0}, {"err", errors.New("EBUSY"), 0}, {"r1", nil, 1}, {"r9", nil, 9}, {"EINTR", syscall.EINTR, 0}, {"EAGAIN", syscall.EAGAIN, 0}, {"r2^32", nil, 1 << 32}, {"r2^63", nil, 1 << 63}}
	statuses := []uint64{0, 0xffffffffffffffff, 0x8000000000000000, 0x8000000000000001, 1, 1 << 62}
	if r.Thorough() {
		for bit := 0; bit < 64; bit++ {
			if v := uint64(1) << uint(bit); v != 1 && v != 1<<62 && v != 1<<63 {
				statuses = append(statuses, v)
			}
		}
		statuses = append(statuses, 0x8000000000000002, 0x7fffffffffffffff, 0xfffffffffffffffe)
	}
	outLens := []uint32{uint32(len(quote)), 0, 1, uint32(bufSize), uint32(bufSize + 1), 0xffffffff, uint32(len(quote) - 1), 1024,
		// lengths outside the buffer that agree with a fitting length in their low 16 / 24 / 31 bits
		65536 + 1, 65536 + uint32(len(quote)), 65536 + uint32(bufSize), 2*65536 + uint32(len(quote)), 0xffff0000 + 100, 1<<24 + uint32(len(quote)), 1<<31 | uint32(len(quote)), 65536, 1 << 31}
	var repA, repB [labi.TdReportSize]byte
	copy(repA[:], world.Fill("td-report-a", labi.TdReportSize))
	copy(repB[:], world.Fill("td-report-b", labi.TdReportSize))
	type combo struct{ rd, rep, rb, q, st, ol, ct int }
	var combos []combo
	for rd := range rds {
		for rep := range repOutcomes {
			for rb := 0; rb < 2; rb++ {
				for q := range qOutcomes {
					for st := range statuses {
						for ol := range outLens {
							for ct := 0; ct < 6; ct++ {
								if ct >= 3 && (rd != 1 || rb != 0) {
									continue // the self-describing contents with one report-data / report pair
								}
								combos = append(combos, combo{rd, rep, rb, q, st, ol, ct})
							}
						}
					}
				}
			}
		}
	}
	done := r.Parallel(len(combos), func(i int) {
		c := combos[i]
		id := fmt.Sprintf("device/rd%d,rep=%s,rb%d,q=%s,st=%#x,outlen=%d,content%d", c.rd, repOutcomes[c.rep].name, c.rb, qOutcomes[c.q].name, statuses[c.st], outLens[c.ol], c.ct)
		if !r.Want(id) {
			return
		}
		d := &c15dev{repErr: repOutcomes[c.rep].err, repResult: repOutcomes[c.rep].res, repBytes: repA,
			qErr: qOutcomes[c.q].err, qResult: qOutcomes[c.q].res, status: statuses[c.st], outLen: outLens[c.ol], content: c.ct, quote: quote}
		if c.rb == 1 {
			d.repBytes = repB
		}
		var got []byte
		var err error
		func() {
			defer world.Recover(&err)
			got, err = client.GetRawQuote(d, rds[c.rd])
		}()
		repOK := d.repErr == nil && d.repResult == 0
		wantOK := repOK && d.qErr == nil && d.qResult == 0 && d.status == 0 && d.outLen > 0 && int64(d.outLen) <= int64(bufSize)
		out := verdict(err)
		sigTail := fmt.Sprintf("rep=%s,q=%s,st=%#x,outlen=%s", repOutcomes[c.rep].name, qOutcomes[c.q].name, statuses[c.st], outLenClass(outLens[c.ol], len(quote), bufSize))
		switch {
		case world.IsPanic(err):
			r.Violate("device:panic:"+crashSite(err)+":"+outLenClass(outLens[c.ol], len(quote), bufSize), id, "GetRawQuote crashes: "+errStr(err), nil)
		case len(d.calls) == 0 || d.calls[0] != "report" || d.gotData != rds[c.rd]:
			r.Violate("device:report-data-not-relayed", id, "the report request does not carry the caller's 64 bytes unchanged", nil)
			out = "bad-request1"
		case repOK && (len(d.calls) != 2 || d.calls[1] != "quote" || !bytes.Equal(d.gotReport, d.repBytes[:])):
			r.Violate("device:td-report-not-relayed", id, fmt.Sprintf("the quote request does not carry the 1024-byte TD report of the report request (calls=%v)", d.calls), nil)
			out = "bad-request2"
		case !repOK && len(d.calls) != 1:
			r.Violate("device:continues-after-report-failure", id, fmt.Sprintf("a failed report request is followed by further requests (calls=%v)", d.calls), nil)
			out = "bad-sequence"
		case wantOK && err != nil:
			r.Violate("device:rejects-success:"+sigTail, id, "a fully successful device exchange yields an error: "+errStr(err), nil)
			out = "error!"
		case wantOK && !bytes.Equal(got, d.written[:d.outLen]):
			r.Violate("device:wrong-bytes:"+sigTail, id, fmt.Sprintf("result is not the first OutLen=%d bytes the device wrote (got %d bytes)", d.outLen, len(got)), nil)
			out = "wrong-bytes"
		case !wantOK && err == nil:
			r.Violate("device:accepts-failure:"+sigTail, id, fmt.Sprintf("a failed device exchange returns %d bytes and no error", len(got)), nil)
			out = "accept!"
		}
		r.Eval(id, i != 0, "device:"+fmt.Sprint(wantOK)+"/"+out)
	})
	r.SectionDone(mc.Section{Name: "device-product", Evaluations: int64(done), Exhaustive: done == len(combos)})

	// the device also owns the request structure it is handed: it may leave another value in its Length field. What the
	// caller gets is decided by OutLen and the buffer the library allocated, as before
	{
		lengths := []uint64{0, 1, uint64(len(quote)), uint64(bufSize), uint64(bufSize) + 1, 1 << 20, 1 << 32, ^uint64(0)}
		ols := append(append([]uint32{}, outLens...), 16385, 20480, 1<<20)
		for _, ln := range lengths {
			for _, ol := range ols {
				for _, st := range []uint64{0, 0x8000000000000000} {
					ln, id := ln, fmt.Sprintf("device/length-rewritten=%d,outlen=%d,st=%#x", ln, ol, st)
					if !r.Want(id) {
						continue
					}
					d := &c15dev{repBytes: repA, status: st, outLen: ol, quote: quote, setLength: &ln}
					var got []byte
					var err error
					func() { defer world.Recover(&err); got, err = client.GetRawQuote(d, rds[1]) }()
					wantOK := st == 0 && ol > 0 && int(ol) <= bufSize
					out := verdict(err)
					switch {
					case world.IsPanic(err):
						r.Violate("device:panic:"+crashSite(err), id, "GetRawQuote crashes: "+errStr(err), nil)
						out = "panic"
					case wantOK && (err != nil || !bytes.Equal(got, d.written[:ol])):
						r.Violate("device:length-rewritten:valid-exchange-refused", id, "a valid exchange (status 0, OutLen within the buffer) does not return the first OutLen bytes: "+errStr(err), nil)
						out = "refused!"
					case !wantOK && err == nil:
						r.Violate("device:length-rewritten:invalid-exchange-accepted", id, "an exchange with a bad status / OutLen is reported as success", nil)
						out = "accept!"
					}
					r.Eval(id, true, "device-length:"+out)
				}
			}
		}
	}

	// a device that returns from the quote request with the status still "in flight" and completes the buffer a moment
	// later (from its own thread): what counts is the status when the request returned — an error, whatever happens to
	// the buffer afterwards
	for _, lateMs := range []int{1, 3, 6} {
		id := fmt.Sprintf("device/in-flight-at-return,completed-%dms-later", lateMs)
		if !r.Want(id) {
			continue
		}
		d := &c15lateDev{c15dev: c15dev{repBytes: repA, status: 0xffffffffffffffff, outLen: 0, content: 1, quote: quote}, after: time.Duration(lateMs) * time.Millisecond}
		var got []byte
		var err error
		func() { defer world.Recover(&err); got, err = client.GetRawQuote(d, rds[1]) }()
		d.wait()
		out := verdict(err)
		if err == nil {
			r.Violate("device:in-flight-accepted-after-late-completion", id, fmt.Sprintf("the quote request returned with the in-flight status, yet GetRawQuote reports success (%d bytes)", len(got)), nil)
			out = "accept!"
		}
		r.Eval(id, true, "device-late:"+out)
	}

	// two-call histories: what the first caller got must not change when a later request is made
	{
		quoteB := append([]byte(nil), quote...)
		for i := 100; i < 200; i++ {
			quoteB[i] ^= 0xff
		}
		seconds := []struct {
			name string
			dev  func() *c15dev
		}{
			{"success-other-quote", func() *c15dev { return &c15dev{repBytes: repB, outLen: uint32(len(quoteB)), quote: quoteB} }},
			{"success-shorter-quote", func() *c15dev { return &c15dev{repBytes: repB, outLen: 700, quote: quoteB} }},
			{"report-error", func() *c15dev { return &c15dev{repErr: errors.New("EIO")} }},
			{"quote-error", func() *c15dev { return &c15dev{repBytes: repB, qErr: errors.New("EBUSY")} }},
			{"status-error", func() *c15dev { return &c15dev{repBytes: repB, status: 0x8000000000000000, outLen: 10, content: 2} }},
			{"outlen-zero", func() *c15dev { return &c15dev{repBytes: repB, outLen: 0, content: 1} }},
		}
		for _, sc := range seconds {
			id := "device/history/first-success-then-" + sc.name
			if !r.Want(id) {
				continue
			}
			d1 := &c15dev{repBytes: repA, outLen: uint32(len(quote)), quote: quote}
			var first []byte
			var err1 error
			func() { defer world.Recover(&err1); first, err1 = client.GetRawQuote(d1, rds[1]) }()
			keep := append([]byte(nil), first...)
			var err2 error
			func() { defer world.Recover(&err2); _, err2 = client.GetRawQuote(sc.dev(), rds[2]) }()
			out := "retained"
			switch {
			case err1 != nil:
				r.Violate("device:history:first-call-failed", id, "a successful device exchange yields an error: "+errStr(err1), nil)
				out = "first-failed"
			case !bytes.Equal(first, keep) || !bytes.Equal(first, quote):
				r.Violate("device:history:earlier-result-changed", id, "the bytes returned to the first caller changed when a later request was made ("+sc.name+")", nil)
				out = "changed"
			}
			r.Eval(id, true, "device-history:"+out)
		}
	}

	// devices that complete both requests with result 0 but do not store OutLen and / or Status, with the buffer left
	// as it came in (the TD report), zeroed, or holding a quote: what was not written is not device data — whatever
	// comes back must not be the staged TD report, and a success must be the first OutLen bytes the DEVICE wrote
	for _, kl := range []bool{true, false} {
		for _, ks := range []bool{true, false} {
			for _, content := range []int{2, 1, 0} {
				for _, st := range []uint64{0, 0x8000000000000000} {
					if !kl && !ks {
						continue
					}
					id := fmt.Sprintf("device/fields-not-stored/outlen-kept=%v,status-kept=%v,content%d,device-status=%#x", kl, ks, content, st)
					if !r.Want(id) {
						continue
					}
					d := &c15dev{repBytes: repA, outLen: uint32(len(quote)), status: st, content: content, quote: quote, keepOutLen: kl, keepStatus: ks}
					var got []byte
					var err error
					func() { defer world.Recover(&err); got, err = client.GetRawQuote(d, rds[1]) }()
					out := "error"
					switch {
					case world.IsPanic(err):
						r.Violate("device:fields-not-stored:panic:"+crashSite(err), id, "GetRawQuote crashes: "+errStr(err), nil)
						out = "panic"
					case err == nil && kl && len(got) >= 64 && bytes.Equal(got[:64], repA[:64]):
						// (when the device itself stores a fitting OutLen over an untouched buffer the library cannot tell: that
						// case is part of the main product above and returns the buffer bytes)
						r.Violate("device:fields-not-stored:td-report-in-place-of-a-quote", id, fmt.Sprintf("the TD report staged for the request comes back as the quote (%d bytes, no error; the library had put OutLen=%d in the header it sent)", len(got), d.sentOutLen), nil)
						out = "td-report!"
					case err == nil && kl && d.sentOutLen == 0:
						r.Violate("device:fields-not-stored:zero-outlen-accepted", id, "OutLen was sent as 0 and never stored by the device, yet the call succeeds", nil)
						out = "accepted!"
					case err == nil:
						out = fmt.Sprintf("ok(%d)", len(got))
					}
					r.Eval(id, true, "fields-not-stored:"+out)
				}
			}
		}
	}
	// GetQuote == QuoteToProto(GetRawQuote) on the device path
	for _, ol := range []uint32{uint32(len(quote)), uint32(len(quote) - 1), 0, uint32(bufSize)} {
		id := fmt.Sprintf("device/getquote/outlen=%d", ol)
		if !r.Want(id) {
			continue
		}
		mk := func() *c15dev { return &c15dev{repBytes: repA, outLen: ol, quote: quote} }
		var q any
		var err, rerr error
		var raw []byte
		func() { defer world.Recover(&err); q, err = client.GetQuote(mk(), rds[1]) }()
		func() { defer world.Recover(&rerr); raw, rerr = client.GetRawQuote(mk(), rds[1]) }()
		c15Parsed(r, id, q, err, raw, rerr)
	}

	// provider behaviours
	dir, _ := os.MkdirTemp("", "verif-c15")
	defer os.RemoveAll(dir)
	regular := filepath.Join(dir, "regular-file")
	os.WriteFile(regular, []byte("x"), 0o600)
	missing := filepath.Join(dir, "does-not-exist")
	provBytes := []struct {
		name string
		b    []byte
	}{{"nil", nil}, {"empty", []byte{}}, {"quote", quote}, {"garbage", world.Fill("garbage", 100)},
		// a provider is not bound by the device's 16 KiB buffer
		{"quote+12000-extra-bytes", append(append([]byte{}, quote...), world.Fill("c15-extra", 12000)...)},
		{"quote+60000-extra-bytes", append(append([]byte{}, quote...), world.Fill("c15-extra2", 60000)...)},
		{"quote+zero-padding", append(append([]byte{}, quote...), make([]byte, 512)...)}}
	// errors of the kinds a report file system produces: whatever the error is, it is the provider's to return
	provErrs := []error{nil, errors.New("provider failure"), syscall.ENOENT, fs.ErrNotExist, &fs.PathError{Op: "open", Path: "/sys/kernel/config/tsm/report/x/outblob", Err: syscall.ENOENT},
		fmt.Errorf("reading report: %w", fs.ErrNotExist), syscall.EBUSY, &fs.PathError{Op: "read", Path: "outblob", Err: syscall.EACCES}, fs.ErrPermission, syscall.ENXIO, syscall.ENODEV, io.EOF, io.ErrUnexpectedEOF,
		context.DeadlineExceeded, os.ErrDeadlineExceeded, fs.ErrClosed}
	provErrNames := []string{"nil", "plain", "ENOENT", "fs.ErrNotExist", "PathError(ENOENT)", "wrapped(fs.ErrNotExist)", "EBUSY", "PathError(EACCES)", "fs.ErrPermission", "ENXIO", "ENODEV", "io.EOF", "io.ErrUnexpectedEOF",
		"context.DeadlineExceeded", "os.ErrDeadlineExceeded", "fs.ErrClosed"}
	for _, sup := range []bool{true, false} {
		for _, pbts := range provBytes {
			for pi, perr := range provErrs {
				for _, path := range []string{missing, regular} {
					if sup && path == regular {
						continue
					}
					id := fmt.Sprintf("provider/supported=%v,bytes=%s,err=%v,path=%s", sup, pbts.name, perr != nil, filepath.Base(path))
					if pi >= 2 {
						id = fmt.Sprintf("provider/supported=%v,bytes=%s,err=%s,path=%s", sup, pbts.name, provErrNames[pi], filepath.Base(path))
					}
					if !r.Want(id) {
						continue
					}
					flag.Set("tdx_guest_device_path", path)
					p := &c15prov{bytes: pbts.b, err: perr}
					if !sup {
						p.supported = errors.New("configfs not supported")
					}
					var got []byte
					var err error
					func() { defer world.Recover(&err); got, err = client.GetRawQuote(p, rds[1]) }()
					out := verdict(err)
					switch {
					case world.IsPanic(err):
						r.Violate("provider:panic:"+crashSite(err), id, "GetRawQuote crashes: "+errStr(err), nil)
					case sup && (p.calls != 1 || p.got != rds[1] || !bytes.Equal(got, pbts.b) || err != perr):
						r.Violate("provider:not-verbatim", id, fmt.Sprintf("provider result not returned verbatim (calls=%d, bytes equal=%v, err=%v)", p.calls, bytes.Equal(got, pbts.b), err), nil)
						out = "not-verbatim"
					case !sup && (p.calls != 0 || err == nil):
						r.Violate("provider:fallback", id, fmt.Sprintf("unsupported provider: expected the device path to be tried and fail (provider calls=%d, err=%v)", p.calls, err), nil)
						out = "bad-fallback"
					}
					if !sup && err != nil && !world.IsPanic(err) {
						out += "/" + classify(err.Error())
					}
					r.Eval(id, true, "provider:"+out)
					// parsed form equals parsing the raw form
					if sup {
						p2 := &c15prov{bytes: pbts.b, err: perr}
						var q any
						var qerr error
						func() { defer world.Recover(&qerr); q, qerr = client.GetQuote(p2, rds[1]) }()
						c15Parsed(r, id+"/getquote", q, qerr, got, err)
					}
				}
			}
		}
	}
	flag.Set("tdx_guest_device_path", "default")
	// the two fallback errors must be distinguishable (shows the device path was really tried)
	r.Set("fallback_note", "nonexistent path and regular file give different errors iff the device path is tried; see provider:* outcomes")
	// unsupported provider type
	var err error
	func() { defer world.Recover(&err); _, err = client.GetRawQuote("not a provider", rds[0]) }()
	if err == nil || world.IsPanic(err) {
		r.Violate("provider:unsupported-type", "provider/unsupported-type", "GetRawQuote with an unsupported provider type did not return an error", nil)
	}
	r.Eval("provider/unsupported-type", true, "provider-type:"+verdict(err))
}

func outLenClass(v uint32, q, buf int) string {
	switch {
	case v == 0:
		return "0"
	case int64(v) > int64(buf):
		return ">buffer"
	case int(v) == buf:
		return "buffer"
	case int(v) == q:
		return "exact"
	}
	return "other"
}

func classify(s string) string {
	switch {
	case bytes.Contains([]byte(s), []byte("neither TDX device")):
		return "cannot-open"
	case bytes.Contains([]byte(s), []byte("ioctl")):
		return "ioctl-failed"
	}
	return "other"
}

// c15Parsed checks GetQuote against QuoteToProto(GetRawQuote).
func c15Parsed(r *mc.Run, id string, q any, qerr error, raw []byte, rerr error) {
	out := "agree"
	if world.IsPanic(qerr) {
		r.Violate("getquote:panic:"+crashSite(qerr), id, "GetQuote crashes: "+errStr(qerr), nil)
		r.Eval(id, true, "getquote:panic")
		return
	}
	var want *pb.QuoteV4
	var werr error = rerr
	if rerr == nil {
		want, werr = safeToProto(raw)
	}
	switch {
	case (werr == nil) != (qerr == nil):
		r.Violate("getquote:differs", id, fmt.Sprintf("GetQuote (%v) disagrees with parsing GetRawQuote (%v)", qerr, werr), nil)
		out = "differs"
	case werr == nil:
		qq, ok := q.(*pb.QuoteV4)
		if !ok || !proto.Equal(qq, want) {
			r.Violate("getquote:differs", id, "GetQuote returns a message different from parsing the raw quote", nil)
			out = "differs"
		}
	}
	r.Eval(id, true, "getquote:"+out)
}

// c15lateDev answers the quote request with the in-flight status and, after a delay, writes a completed quote into
// the same buffer from another goroutine (as an asynchronous VMM would).
type c15lateDev struct {
	c15dev
	after time.Duration
	done  chan struct{}
}

func (d *c15lateDev) Ioctl(cmd uintptr, arg any) (uintptr, error) {
	res, err := d.c15dev.Ioctl(cmd, arg)
	if a, ok := arg.(*labi.TdxQuoteReq); ok {
		if h, ok := a.Buffer.(*labi.TdxQuoteHdr); ok {
			d.done = make(chan struct{})
			go func() {
				defer close(d.done)
				time.Sleep(d.after)
				copy(h.Data[:], d.quote)
				atomic.StoreUint32(&h.OutLen, uint32(len(d.quote)))
				atomic.StoreUint64(&h.Status, 0)
			}()
		}
	}
	return res, err
}

func (d *c15lateDev) wait() {
	if d.done != nil {
		<-d.done
	}
}
