package checks

import (
	"bytes"
	"encoding/base64"
	"encoding/binary"
	"fmt"
	"strings"

	ccpb "github.com/google/go-tdx-guest/proto/checkconfig"
	"github.com/google/go-tdx-guest/validate"
	"google.golang.org/protobuf/proto"

	"verifharness/mc"
	"verifharness/ref"
	"verifharness/world"
)

func init() {
	mc.Register(&mc.Check{ID: "C14", Category: "exploration",
		Rule:   "cases: every policy message from the product/pairs of per-field states (each of the 11 byte-string fields absent/empty/right size/one short/one long and all pairs of such deviations; SVN minima at 0,1,65535,65536,2^32-1; RTMR lists of length 0..5 over empty/full/short entries; allowed-MR_TD lists of length 0..3; sub-policies absent/empty; nil policy), each converted and, when it converts, evaluated on 259 quotes (satisfying, missing exactly one field, SVN just below each minimum, every ordered pair of TEE TCB SVN components one below / one above). Non-trivial: a policy with at least one field set; distinct by id",
		Assume: []string{"the reference reads the policy message literally with the same semantics as C08 (harness/ref/policy.go)"},
		Run:    runC14})
}

func polOfMsg(p *ccpb.Policy) ref.Policy {
	h, t := p.GetHeaderPolicy(), p.GetTdQuoteBodyPolicy()
	return ref.Policy{QeVendorID: h.GetQeVendorId(), MinQeSvn: h.GetMinimumQeSvn(), MinPceSvn: h.GetMinimumPceSvn(),
		MinTeeTcbSvn: t.GetMinimumTeeTcbSvn(), MrSeam: t.GetMrSeam(), TdAttributes: t.GetTdAttributes(), Xfam: t.GetXfam(), MrTd: t.GetMrTd(),
		MrConfigID: t.GetMrConfigId(), MrOwner: t.GetMrOwner(), MrOwnerConfig: t.GetMrOwnerConfig(), Rtmrs: t.GetRtmrs(), ReportData: t.GetReportData(), AnyMrTd: t.GetAnyMrTd()}
}

type polField struct {
	name     string
	off, len int
	set      func(p *ccpb.Policy, v []byte)
}

func hp(p *ccpb.Policy) *ccpb.HeaderPolicy {
	if p.HeaderPolicy == nil {
		p.HeaderPolicy = &ccpb.HeaderPolicy{}
	}
	return p.HeaderPolicy
}
func tp(p *ccpb.Policy) *ccpb.TDQuoteBodyPolicy {
	if p.TdQuoteBodyPolicy == nil {
		p.TdQuoteBodyPolicy = &ccpb.TDQuoteBodyPolicy{}
	}
	return p.TdQuoteBodyPolicy
}

var polFields = []polField{
	{"qe_vendor_id", 12, 16, func(p *ccpb.Policy, v []byte) { hp(p).QeVendorId = v }},
	{"minimum_tee_tcb_svn", 48, 16, func(p *ccpb.Policy, v []byte) { tp(p).MinimumTeeTcbSvn = v }},
	{"mr_seam", 48 + 16, 48, func(p *ccpb.Policy, v []byte) { tp(p).MrSeam = v }},
	{"td_attributes", 48 + 120, 8, func(p *ccpb.Policy, v []byte) { tp(p).TdAttributes = v }},
	{"xfam", 48 + 128, 8, func(p *ccpb.Policy, v []byte) { tp(p).Xfam = v }},
	{"mr_td", 48 + 136, 48, func(p *ccpb.Policy, v []byte) { tp(p).MrTd = v }},
	{"mr_config_id", 48 + 184, 48, func(p *ccpb.Policy, v []byte) { tp(p).MrConfigId = v }},
	{"mr_owner", 48 + 232, 48, func(p *ccpb.Policy, v []byte) { tp(p).MrOwner = v }},
	{"mr_owner_config", 48 + 280, 48, func(p *ccpb.Policy, v []byte) { tp(p).MrOwnerConfig = v }},
	{"report_data", 48 + 520, 64, func(p *ccpb.Policy, v []byte) { tp(p).ReportData = v }},
}

func safePolicyToOptions(p *ccpb.Policy) (o *validate.Options, err error) {
	defer world.Recover(&err)
	return validate.PolicyToOptions(p)
}

func runC14(r *mc.Run) {
	base := c01Baselines()[0]
	raw0 := append([]byte(nil), base.raw...)
	// a baseline whose SVNs are non-trivial
	binary.LittleEndian.PutUint16(raw0[8:], 0x0102)
	binary.LittleEndian.PutUint16(raw0[10:], 0x0201)
	for i := 0; i < 16; i++ {
		raw0[48+i] = byte(0x10 + i)
	}
	val := func(f polField) []byte { return append([]byte(nil), raw0[f.off:f.off+f.len]...) }
	// quotes on which every converted policy is evaluated
	type qv struct {
		name string
		raw  []byte
	}
	quotes := []qv{{"satisfying", raw0}}
	for _, f := range polFields {
		m := append([]byte(nil), raw0...)
		if f.name == "minimum_tee_tcb_svn" {
			m[f.off+7]--
		} else {
			m[f.off+f.len-1] ^= 0x10
		}
		quotes = append(quotes, qv{"miss-" + f.name, m})
	}
	for i := 0; i < 4; i++ {
		m := append([]byte(nil), raw0...)
		m[48+328+48*i+9] ^= 2
		quotes = append(quotes, qv{fmt.Sprintf("miss-rtmr%d", i), m})
	}
	{
		m := append([]byte(nil), raw0...)
		binary.LittleEndian.PutUint16(m[8:], 0x0101)
		quotes = append(quotes, qv{"pce-below", m})
		m2 := append([]byte(nil), raw0...)
		binary.LittleEndian.PutUint16(m2[10:], 0x0200)
		quotes = append(quotes, qv{"qe-below", m2})
		for _, i := range []int{0, 15} {
			m3 := append([]byte(nil), raw0...)
			m3[48+i]--
			quotes = append(quotes, qv{fmt.Sprintf("teetcb%d-below", i), m3})
		}
		// TEE_TCB_SVN is a vector of independent components: one component below the minimum while
		// another one is above it, for every ordered pair of positions
		for i := 0; i < 16; i++ {
			for j := 0; j < 16; j++ {
				if i == j {
					continue
				}
				m4 := append([]byte(nil), raw0...)
				m4[48+i]--
				m4[48+j] += 0x40
				quotes = append(quotes, qv{fmt.Sprintf("teetcb%d-below,%d-above", i, j), m4})
			}
		}
	}

	type pcase struct {
		id string
		p  *ccpb.Policy
	}
	var cases []pcase
	add := func(id string, p *ccpb.Policy) { cases = append(cases, pcase{id, p}) }
	state := func(f polField, k int) []byte {
		v := val(f)
		switch k {
		case 0:
			return nil
		case 1:
			return []byte{}
		case 2:
			return v
		case 3:
			return v[:len(v)-1]
		case 4:
			return append(v, 0)
		case 5:
			return v[:1]
		default:
			v[0] ^= 1
			return v
		}
	}
	sn := []string{"absent", "empty", "right", "short", "long", "one-byte", "different"}
	add("nil-policy", nil)
	add("empty-policy", &ccpb.Policy{})
	add("only-header", &ccpb.Policy{HeaderPolicy: &ccpb.HeaderPolicy{}})
	add("only-body", &ccpb.Policy{TdQuoteBodyPolicy: &ccpb.TDQuoteBodyPolicy{}})
	for i, a := range polFields {
		for ka := 1; ka < len(sn); ka++ {
			p := &ccpb.Policy{}
			a.set(p, state(a, ka))
			add(fmt.Sprintf("field/%s=%s", a.name, sn[ka]), p)
			for _, b := range polFields[i+1:] {
				for kb := 1; kb < len(sn); kb++ {
					p2 := &ccpb.Policy{}
					a.set(p2, state(a, ka))
					b.set(p2, state(b, kb))
					add(fmt.Sprintf("field/%s=%s,%s=%s", a.name, sn[ka], b.name, sn[kb]), p2)
				}
			}
		}
	}
	if r.Thorough() {
		tstates := []int{2, 3, 6} // right, short, different
		for i := range polFields {
			for j := i + 1; j < len(polFields); j++ {
				for k := j + 1; k < len(polFields); k++ {
					for _, si := range tstates {
						for _, sj := range tstates {
							for _, sk := range tstates {
								p := &ccpb.Policy{}
								polFields[i].set(p, state(polFields[i], si))
								polFields[j].set(p, state(polFields[j], sj))
								polFields[k].set(p, state(polFields[k], sk))
								add(fmt.Sprintf("field3/%s=%s,%s=%s,%s=%s", polFields[i].name, sn[si], polFields[j].name, sn[sj], polFields[k].name, sn[sk]), p)
							}
						}
					}
				}
			}
		}
	}
	// all fields right / all fields right with one wrong length
	full := func() *ccpb.Policy {
		p := &ccpb.Policy{}
		for _, f := range polFields {
			f.set(p, val(f))
		}
		tp(p).Rtmrs = [][]byte{raw0[48+328 : 48+376], raw0[48+376 : 48+424], raw0[48+424 : 48+472], raw0[48+472 : 48+520]}
		tp(p).AnyMrTd = [][]byte{world.Fill("other-mrtd", 48), raw0[48+136 : 48+184]}
		hp(p).MinimumQeSvn = 0x0201
		hp(p).MinimumPceSvn = 0x0102
		return p
	}
	add("full", full())
	for _, f := range polFields {
		for _, k := range []int{3, 4, 5} {
			p := full()
			f.set(p, state(f, k))
			add(fmt.Sprintf("full/%s=%s", f.name, sn[k]), p)
		}
	}
	// every length from 0 to four times the field size (+1), contents = the right value repeated: only the empty
	// and the exact length may convert (a check that is right at n-1, n, n+1 can still be wrong at 2n)
	rep := func(v []byte, n int) []byte {
		out := make([]byte, n)
		for i := range out {
			out[i] = v[i%len(v)]
		}
		return out
	}
	for _, f := range polFields {
		for n := 0; n <= 4*f.len+1; n++ {
			p := &ccpb.Policy{}
			f.set(p, rep(val(f), n))
			add(fmt.Sprintf("length/%s=%d", f.name, n), p)
		}
		for _, n := range c14FarLengths(f.len) {
			p := &ccpb.Policy{}
			f.set(p, rep(val(f), n))
			add(fmt.Sprintf("length/%s=%d", f.name, n), p)
		}
		// the value written as TEXT (hex digits, either case; base64): bytes are bytes, a text of them is a wrongly
		// sized other value
		for tn, tv := range map[string][]byte{"hex-text": []byte(hexs(val(f))), "HEX-TEXT": []byte(strings.ToUpper(hexs(val(f)))), "hex-text-of-zeros": bytes.Repeat([]byte{'0'}, 2*f.len),
			"base64-text": []byte(base64.StdEncoding.EncodeToString(val(f))), "0x-hex-text": []byte("0x" + hexs(val(f)))} {
			p := &ccpb.Policy{}
			f.set(p, tv)
			add(fmt.Sprintf("length/%s=%s(%d)", f.name, tn, len(tv)), p)
		}
	}
	for pos := 0; pos < 4; pos++ {
		for n := 0; n <= 4*48+1; n++ {
			p := &ccpb.Policy{}
			for i := 0; i < 4; i++ {
				tp(p).Rtmrs = append(tp(p).Rtmrs, append([]byte(nil), raw0[48+328+48*i:48+376+48*i]...))
			}
			tp(p).Rtmrs[pos] = rep(raw0[48+328+48*pos:48+376+48*pos], n)
			if n == 0 {
				tp(p).Rtmrs[pos] = []byte{}
			}
			add(fmt.Sprintf("length/rtmrs[%d]=%d", pos, n), p)
		}
		for _, n := range c14FarLengths(48) {
			p := &ccpb.Policy{}
			for i := 0; i < 4; i++ {
				tp(p).Rtmrs = append(tp(p).Rtmrs, append([]byte(nil), raw0[48+328+48*i:48+376+48*i]...))
			}
			tp(p).Rtmrs[pos] = rep(raw0[48+328+48*pos:48+376+48*pos], n)
			add(fmt.Sprintf("length/rtmrs[%d]=%d", pos, n), p)
		}
	}
	for pos := 0; pos < 2; pos++ {
		for n := 0; n <= 4*48+1; n++ {
			p := &ccpb.Policy{}
			tp(p).AnyMrTd = [][]byte{append([]byte(nil), raw0[48+136:48+184]...), append([]byte(nil), raw0[48+136:48+184]...)}
			tp(p).AnyMrTd[pos] = rep(raw0[48+136:48+184], n)
			if n == 0 {
				tp(p).AnyMrTd[pos] = []byte{}
			}
			add(fmt.Sprintf("length/any_mr_td[%d]=%d", pos, n), p)
		}
		for _, n := range c14FarLengths(48) {
			p := &ccpb.Policy{}
			tp(p).AnyMrTd = [][]byte{append([]byte(nil), raw0[48+136:48+184]...), append([]byte(nil), raw0[48+136:48+184]...)}
			tp(p).AnyMrTd[pos] = rep(raw0[48+136:48+184], n)
			add(fmt.Sprintf("length/any_mr_td[%d]=%d", pos, n), p)
		}
	}
	// SVN minima
	for _, v := range []uint32{0, 1, 0x0101, 0x0102, 0x0103, 0x0200, 0x0201, 0x0202, 65535, 65536, 65536 + 0x0102, 1<<32 - 1} {
		p := &ccpb.Policy{}
		hp(p).MinimumQeSvn = v
		add(fmt.Sprintf("svn/qe=%d", v), p)
		p2 := &ccpb.Policy{}
		hp(p2).MinimumPceSvn = v
		add(fmt.Sprintf("svn/pce=%d", v), p2)
		p3 := full()
		hp(p3).MinimumQeSvn = v
		add(fmt.Sprintf("svn/full,qe=%d", v), p3)
	}
	// both header minima together (each is its own expectation; pairs whose sum, difference or bytes coincide)
	{
		set := []uint32{0, 1, 2, 0x00ff, 0x0100, 0x0208, 0x0209, 0x0d07, 0x0d08, 0x7fff, 0x8000, 0x8001, 25536, 40000, 0xfffe, 0xffff, 0x10000}
		for _, a := range set {
			for _, b := range set {
				p := &ccpb.Policy{}
				hp(p).MinimumQeSvn, hp(p).MinimumPceSvn = a, b
				add(fmt.Sprintf("nearmiss/svn/min-qe=%#x,min-pce=%#x", a, b), p)
			}
		}
	}
	// pairs of byte fields: one of a wrong length that is a "round" part of its size (a third, a half, two thirds,
	// 16, 32, size-16), the other correct or of the complementary wrong length — lengths that fold to the right size
	// when summed / OR-ed / XOR-ed over a group of fields
	for _, f := range polFields {
		seen := map[int]bool{}
		for _, l := range []int{f.len / 3, f.len / 2, 2 * f.len / 3, 16, 32, f.len - 16, f.len / 4, 3 * f.len / 4} {
			if l <= 0 || l >= f.len || seen[l] {
				continue
			}
			seen[l] = true
			for _, g := range polFields {
				if g.name == f.name {
					continue
				}
				fv := val(f)[:l]
				p1 := &ccpb.Policy{}
				f.set(p1, append([]byte(nil), fv...))
				g.set(p1, val(g))
				add(fmt.Sprintf("lenpair/%s=%d,%s=ok", f.name, l, g.name), p1)
				if g.len == f.len {
					p2 := &ccpb.Policy{}
					f.set(p2, append([]byte(nil), fv...))
					g.set(p2, val(g)[:g.len-l])
					add(fmt.Sprintf("lenpair/%s=%d,%s=%d", f.name, l, g.name, g.len-l), p2)
				}
			}
		}
	}
	// an expectation that spells the quote's value in another byte order (whole value reversed — a register written
	// most significant byte first —, every 2 / 4 / 8 bytes reversed, halves exchanged): the message means those bytes
	for _, f := range polFields {
		v0 := val(f)
		rev := func(x []byte) {
			for i, j := 0, len(x)-1; i < j; i, j = i+1, j-1 {
				x[i], x[j] = x[j], x[i]
			}
		}
		for _, mode := range []string{"reversed", "each-2-reversed", "each-4-reversed", "each-8-reversed", "halves-exchanged"} {
			v := append([]byte(nil), v0...)
			switch mode {
			case "reversed":
				rev(v)
			case "halves-exchanged":
				h := len(v) / 2
				copy(v, append(append([]byte{}, v0[h:]...), v0[:h]...))
			default:
				n := map[string]int{"each-2-reversed": 2, "each-4-reversed": 4, "each-8-reversed": 8}[mode]
				for o := 0; o+n <= len(v); o += n {
					rev(v[o : o+n])
				}
			}
			if bytes.Equal(v, v0) {
				continue
			}
			p := &ccpb.Policy{}
			f.set(p, v)
			add("reencoded/"+f.name+"/"+mode, p)
		}
	}
	// RTMR lists 0..5 over {empty, full, short, different}
	rk := []string{"em", "fu", "sh", "df"}
	for n := 0; n <= 5; n++ {
		total := 1
		for k := 0; k < n; k++ {
			total *= 4
		}
		for code := 0; code < total; code++ {
			p := &ccpb.Policy{}
			id := fmt.Sprintf("rtmrs/%d:", n)
			c := code
			for i := 0; i < n; i++ {
				v := append([]byte(nil), raw0[48+328+48*(i%4):48+376+48*(i%4)]...)
				switch c % 4 {
				case 0:
					v = []byte{}
				case 2:
					v = v[:47]
				case 3:
					v[3] ^= 8
				}
				tp(p).Rtmrs = append(tp(p).Rtmrs, v)
				id += rk[c%4]
				c /= 4
			}
			add(id, p)
			if n == 4 {
				for fk, fv := range map[string][]byte{"eq": raw0[48+232 : 48+280], "df": world.Fill("c14-other-owner", 48)} {
					p2 := proto.Clone(p).(*ccpb.Policy)
					tp(p2).MrOwner = append([]byte(nil), fv...)
					add(id+"+mr_owner="+fk, p2)
				}
			}
		}
	}
	// RTMR lists whose entries are cut differently but add up to the registers' 4 x 48 bytes (and some that do not):
	// four entries of 48 bytes (or empty) is what the field means
	{
		all := append([]byte(nil), raw0[48+328:48+328+192]...)
		for _, cut := range [][]int{{192}, {96, 96}, {48, 144}, {144, 48}, {48, 48, 96}, {96, 48, 48}, {48, 96, 48}, {96, 0, 96}, {64, 64, 64}, {24, 24, 24, 24, 24, 24, 24, 24},
			{0, 0, 0, 192}, {192, 0, 0, 0}, {47, 49, 48, 48}, {96, 96, 0, 0}, {48, 48, 48, 24, 24}, {1, 191}, {191, 1}} {
			p := &ccpb.Policy{}
			off := 0
			for _, n := range cut {
				e := make([]byte, n)
				if off+n <= len(all) {
					copy(e, all[off:off+n])
				}
				off += n
				tp(p).Rtmrs = append(tp(p).Rtmrs, e)
			}
			add(fmt.Sprintf("rtmrs-cut/%v", cut), p)
		}
	}
	ak := []string{"eq", "df", "em", "sh", "lo"}
	for n := 0; n <= 3; n++ {
		total := 1
		for k := 0; k < n; k++ {
			total *= 5
		}
		for code := 0; code < total; code++ {
			p := &ccpb.Policy{}
			id := fmt.Sprintf("anymrtd/%d:", n)
			c := code
			for i := 0; i < n; i++ {
				v := append([]byte(nil), raw0[48+136:48+184]...)
				switch c % 5 {
				case 1:
					v[0] ^= 1
				case 2:
					v = []byte{}
				case 3:
					v = v[:47]
				case 4:
					v = append(v, 1)
				}
				tp(p).AnyMrTd = append(tp(p).AnyMrTd, v)
				id += ak[c%5]
				c /= 5
			}
			add(id, p)
			// together with the exact mr_td expectation (equal / different) and with a header field
			for mk, mv := range map[string][]byte{"eq": raw0[48+136 : 48+184], "df": world.Fill("c14-other-mrtd", 48)} {
				p2 := proto.Clone(p).(*ccpb.Policy)
				tp(p2).MrTd = append([]byte(nil), mv...)
				add(id+"+mr_td="+mk, p2)
			}
			p3 := proto.Clone(p).(*ccpb.Policy)
			hp(p3).QeVendorId = append([]byte(nil), raw0[12:28]...)
			add(id+"+qe_vendor_id=eq", p3)
		}
	}

	// near-miss entries of the allowed-MR_TD list and near-miss values of the byte fields: the same bit flipped in
	// two bytes, and two 8-byte groups exchanged (differences that cancel in a folded comparison)
	{
		mr := raw0[48+136 : 48+184]
		nearMiss := func(v []byte, visit func(name string, w []byte)) {
			for _, bit := range []uint{0, 7} {
				for a := 0; a < len(v); a++ {
					for b := a + 1; b < len(v); b++ {
						w := append([]byte(nil), v...)
						w[a] ^= 1 << bit
						w[b] ^= 1 << bit
						visit(fmt.Sprintf("bit%d@%d,%d", bit, a, b), w)
					}
				}
			}
			for a := 0; a+8 <= len(v); a += 8 {
				for b := a + 8; b+8 <= len(v); b += 8 {
					w := append([]byte(nil), v...)
					copy(w[a:a+8], v[b:b+8])
					copy(w[b:b+8], v[a:a+8])
					visit(fmt.Sprintf("swap8@%d,%d", a, b), w)
				}
			}
		}
		nearMiss(mr, func(name string, w []byte) {
			p := &ccpb.Policy{}
			tp(p).AnyMrTd = [][]byte{w}
			add("nearmiss/any_mr_td/"+name, p)
		})
		// long lists (counts around thresholds an implementation might introduce), the member at every / selected positions
		for _, n := range []int{8, 9, 16, 17, 33, 64, 65, 129, 256, 257} {
			poss := []int{-1, 0, 1, n / 2, n - 2, n - 1}
			if n <= 17 {
				poss = []int{-1}
				for q := 0; q < n; q++ {
					poss = append(poss, q)
				}
			}
			for _, q := range poss {
				for _, order := range []string{"ascending", "descending", "hashed"} {
					p := &ccpb.Policy{}
					for i := 0; i < n; i++ {
						var e []byte
						switch order {
						case "ascending":
							e = bytes.Repeat([]byte{byte(i)}, 48)
							e[0] = byte(i >> 8)
						case "descending":
							e = bytes.Repeat([]byte{byte(255 - i)}, 48)
							e[0] = byte(255 - i>>8)
						default:
							e = world.Fill(fmt.Sprintf("c14-long-%d", i), 48)
						}
						if i == q {
							e = append([]byte(nil), mr...)
						}
						tp(p).AnyMrTd = append(tp(p).AnyMrTd, e)
					}
					add(fmt.Sprintf("nearmiss/any_mr_td/long-n=%d,member@%d,%s", n, q, order), p)
				}
			}
		}
		// the quote's MR_TD straddling two neighbouring entries (a search over the concatenated list finds it)
		for k := 1; k < 48; k++ {
			a := append(append([]byte{}, world.Fill("c14-straddle-a", k)...), mr[:48-k]...)
			b := append(append([]byte{}, mr[48-k:]...), world.Fill("c14-straddle-b", 48-k)...)
			p := &ccpb.Policy{}
			tp(p).AnyMrTd = [][]byte{a, b}
			add(fmt.Sprintf("nearmiss/any_mr_td/straddle@%d", k), p)
			p2 := &ccpb.Policy{}
			tp(p2).AnyMrTd = [][]byte{world.Fill("c14-other", 48), a, b, world.Fill("c14-other2", 48)}
			add(fmt.Sprintf("nearmiss/any_mr_td/straddle-inside-list@%d", k), p2)
		}
		for _, f := range polFields {
			if f.name == "minimum_tee_tcb_svn" {
				continue
			}
			f := f
			nearMiss(val(f), func(name string, w []byte) {
				if !r.Thorough() && f.len > 16 && !strings.HasPrefix(name, "swap8") && !strings.HasPrefix(name, "bit7@") {
					return
				}
				p := &ccpb.Policy{}
				f.set(p, w)
				add("nearmiss/"+f.name+"/"+name, p)
			})
		}
	}

	done := r.Parallel(len(cases), func(i int) {
		c := cases[i]
		if !r.Want(c.id) {
			return
		}
		var pm *ccpb.Policy
		if c.p != nil {
			pm = proto.Clone(c.p).(*ccpb.Policy)
		}
		pol := polOfMsg(c.p)
		opts, err := safePolicyToOptions(pm)
		mustFail := pol.MinQeSvn > 65535 || pol.MinPceSvn > 65535 || pol.WrongLength()
		out := "converts"
		switch {
		case world.IsPanic(err):
			r.Violate("convert:panic:"+crashSite(err), c.id, "PolicyToOptions crashes: "+errStr(err), nil)
			out = "panic"
		case err != nil:
			out = "fails"
			if !mustFail && len(pol.Rtmrs) == 0 || (!mustFail && (len(pol.Rtmrs) == 4)) {
				// A policy whose every byte string is empty or correctly sized and whose SVNs fit describes a
				// meaningful validation; refusing it is not forbidden by the statement ("either fails or ..."),
				// so this is recorded, not reported.
				out = "fails-wellformed"
			}
		case mustFail:
			r.Violate("convert:accepts-malformed:"+kindOf(c.id)+":"+firstBad(pol), c.id,
				"PolicyToOptions accepts a policy with an SVN minimum above 16 bits or a wrongly sized byte string ("+firstBad(pol)+")", map[string]any{"policy": fmt.Sprintf("%v", c.p)})
			out = "converts!"
		}
		if err == nil && opts != nil {
			for qi, q := range quotes {
				if qi > 0 && strings.HasPrefix(c.id, "nearmiss/") && !strings.HasPrefix(q.name, "miss-") {
					continue // near-miss values are about the field's own comparison: the satisfying quote and the one-field misses
				}
				id := c.id + "@" + q.name
				verr := safeValidateRaw(q.raw, opts)
				rp, _ := ref.ParseQuote(q.raw)
				want := pol.Judge(rp)
				got := verdict(verr)
				switch {
				case world.IsPanic(verr):
					r.Violate("validate-after-convert:panic:"+crashSite(verr), id, "a policy that converted successfully crashes validation: "+errStr(verr), map[string]any{"policy": fmt.Sprintf("%v", c.p)})
				case want == ref.MustReject && verr == nil:
					r.Violate("meaning:partly-ignored:"+q.name, id, "converted policy accepts a quote the message literally excludes", map[string]any{"policy": fmt.Sprintf("%v", c.p), "raw_quote_hex": hexs(q.raw)})
					got = "accept!"
				case want == ref.MustAccept && verr != nil:
					r.Violate("meaning:over-strict:"+q.name, id, "converted policy rejects a quote the message literally admits: "+errStr(verr), map[string]any{"policy": fmt.Sprintf("%v", c.p), "raw_quote_hex": hexs(q.raw)})
					got = "reject!"
				}
				r.Eval(id, true, kindOf(c.id)+":"+out+":"+want.String()+"/"+got)
			}
		} else {
			r.Eval(c.id, true, kindOf(c.id)+":"+out)
		}
	})
	r.SectionDone(mc.Section{Name: "policies", Evaluations: int64(done), Exhaustive: done == len(cases),
		Note: fmt.Sprintf("%d policies x %d quotes", len(cases), len(quotes))})
	c14SharedTables(r, raw0, quotes[0].raw, func(name string) []byte {
		for _, q := range quotes {
			if q.name == name {
				return q.raw
			}
		}
		return nil
	})
}

// c14SharedTables: policy messages built in Go whose lists are windows of ONE table ([][]byte) and whose byte fields
// are windows of ONE buffer, so that every list / field has spare capacity with live data of a neighbour behind its
// length. Converting (and validating with the result) must leave the message and the neighbours as they were and
// mean what the message literally says.
func c14SharedTables(r *mc.Run, raw0, satisfying []byte, quote func(string) []byte) {
	mr := raw0[48+136 : 48+184]
	rt := func(i int) []byte { return append([]byte(nil), raw0[48+328+48*i:48+376+48*i]...) }
	n := 0
	for k := 0; k <= 3; k++ { // entries of any_mr_td in front of the four RTMR expectations
		for order := 0; order < 2; order++ { // 0: any_mr_td first in the table, 1: rtmrs first
			for mrtd := 0; mrtd < 3; mrtd++ { // mr_td unset / equal / different
				for missq := 0; missq < 3; missq++ { // judged on: satisfying quote / quote missing rtmr0 / rtmr3
					id := fmt.Sprintf("shared-table/any_mr_td=%d,order=%d,mr_td=%d,quote=%d", k, order, mrtd, missq)
					if !r.Want(id) {
						continue
					}
					n++
					var table [][]byte
					anyL := [][]byte{}
					for i := 0; i < k; i++ {
						e := append([]byte(nil), mr...)
						if i > 0 {
							e[i] ^= 0x55
						}
						anyL = append(anyL, e)
					}
					rts := [][]byte{rt(0), rt(1), rt(2), rt(3)}
					p := &ccpb.Policy{TdQuoteBodyPolicy: &ccpb.TDQuoteBodyPolicy{}}
					if order == 0 {
						table = append(append(table, anyL...), rts...)
						table = append(table, world.Fill("c14-sentinel", 48))
						p.TdQuoteBodyPolicy.AnyMrTd, p.TdQuoteBodyPolicy.Rtmrs = table[:k], table[k:k+4]
					} else {
						table = append(append(table, rts...), anyL...)
						table = append(table, world.Fill("c14-sentinel", 48))
						p.TdQuoteBodyPolicy.Rtmrs, p.TdQuoteBodyPolicy.AnyMrTd = table[:4], table[4:4+k]
					}
					switch mrtd {
					case 1:
						p.TdQuoteBodyPolicy.MrTd = append([]byte(nil), mr...)
					case 2:
						p.TdQuoteBodyPolicy.MrTd = world.Fill("c14-other-mrtd", 48)
					}
					before := proto.Clone(p).(*ccpb.Policy)
					var snap [][]byte
					for _, e := range table {
						snap = append(snap, append([]byte(nil), e...))
					}
					pol := polOfMsg(before)
					opts, err := safePolicyToOptions(p)
					altered := ""
					same := func(when string) bool {
						ok := proto.Equal(before, p) && len(table) == len(snap)
						for i := range snap {
							ok = ok && i < len(table) && table[i] != nil && bytes.Equal(table[i], snap[i])
						}
						if !ok {
							altered = "+message-altered-by-" + when // recorded; the statement judges the verdict, below
						}
						return ok
					}
					out := "converts"
					switch {
					case world.IsPanic(err):
						r.Violate("shared-table:panic:"+crashSite(err), id, "PolicyToOptions crashes: "+errStr(err), nil)
						out = "panic"
					case err != nil:
						out = "fails"
						same("conversion")
					default:
						okc := same("conversion")
						q := satisfying
						if missq == 1 {
							q = quote("miss-rtmr0")
						} else if missq == 2 {
							q = quote("miss-rtmr3")
						}
						verr := safeValidateRaw(q, opts)
						rp, _ := ref.ParseQuote(q)
						want := pol.Judge(rp)
						switch {
						case world.IsPanic(verr):
							r.Violate("shared-table:validate-panic:"+crashSite(verr), id, "validation crashes: "+errStr(verr), nil)
						case want == ref.MustReject && verr == nil:
							r.Violate("shared-table:meaning:partly-ignored", id, "converted policy accepts a quote the message literally excludes", map[string]any{"policy": fmt.Sprintf("%v", before), "raw_quote_hex": hexs(q)})
						case want == ref.MustAccept && verr != nil:
							r.Violate("shared-table:meaning:over-strict", id, "converted policy rejects a quote the message literally admits: "+errStr(verr), map[string]any{"policy": fmt.Sprintf("%v", before), "raw_quote_hex": hexs(q)})
						}
						if okc {
							same("validation")
						}
						out += ":" + want.String() + "/" + verdict(verr)
					}
					r.Eval(id, true, "shared-table:"+out+altered)
				}
			}
		}
	}
	// byte fields as windows of one buffer: field i occupies buf[o_i : o_i+len_i] with capacity up to the buffer's end
	for variant := 0; variant < 3; variant++ { // all equal / one differing field in the middle / last field differing
		id := fmt.Sprintf("shared-buffer/variant=%d", variant)
		if !r.Want(id) {
			continue
		}
		n++
		var buf []byte
		type win struct{ off, n int }
		var wins []win
		for _, f := range polFields {
			wins = append(wins, win{len(buf), f.len})
			buf = append(buf, raw0[f.off:f.off+f.len]...)
		}
		buf = append(buf, world.Fill("c14-sentinel", 64)...)
		p := &ccpb.Policy{}
		for i, f := range polFields {
			f.set(p, buf[wins[i].off:wins[i].off+wins[i].n])
		}
		switch variant {
		case 1:
			buf[wins[len(wins)/2].off+1] ^= 4
		case 2:
			buf[wins[len(wins)-1].off] ^= 4
		}
		before := proto.Clone(p).(*ccpb.Policy)
		snap := append([]byte(nil), buf...)
		pol := polOfMsg(before)
		opts, err := safePolicyToOptions(p)
		out := "fails"
		if world.IsPanic(err) {
			r.Violate("shared-buffer:panic:"+crashSite(err), id, "PolicyToOptions crashes: "+errStr(err), nil)
		} else if err == nil {
			verr := safeValidateRaw(satisfying, opts)
			rp, _ := ref.ParseQuote(satisfying)
			want := pol.Judge(rp)
			if want == ref.MustReject && verr == nil {
				r.Violate("shared-buffer:meaning:partly-ignored", id, "converted policy accepts a quote the message literally excludes", map[string]any{"policy": fmt.Sprintf("%v", before)})
			} else if want == ref.MustAccept && verr != nil && !world.IsPanic(verr) {
				r.Violate("shared-buffer:meaning:over-strict", id, "converted policy rejects a quote the message literally admits: "+errStr(verr), map[string]any{"policy": fmt.Sprintf("%v", before)})
			}
			out = "converts:" + want.String() + "/" + verdict(verr)
		}
		if !bytes.Equal(buf, snap) || !proto.Equal(before, p) {
			out += "+message-altered" // recorded; the statement judges the verdict
		}
		r.Eval(id, true, "shared-buffer:"+out)
	}
	r.SectionDone(mc.Section{Name: "shared-tables", Evaluations: int64(n), Exhaustive: true})
}

func firstBad(p ref.Policy) string {
	bad := func(b []byte, n int) bool { return len(b) != 0 && len(b) != n }
	switch {
	case p.MinQeSvn > 65535:
		return "minimum_qe_svn"
	case p.MinPceSvn > 65535:
		return "minimum_pce_svn"
	case bad(p.MinTeeTcbSvn, 16):
		return "minimum_tee_tcb_svn"
	case bad(p.QeVendorID, 16):
		return "qe_vendor_id"
	case bad(p.MrSeam, 48):
		return "mr_seam"
	case bad(p.TdAttributes, 8):
		return "td_attributes"
	case bad(p.Xfam, 8):
		return "xfam"
	case bad(p.MrTd, 48):
		return "mr_td"
	case bad(p.MrConfigID, 48):
		return "mr_config_id"
	case bad(p.MrOwner, 48):
		return "mr_owner"
	case bad(p.MrOwnerConfig, 48):
		return "mr_owner_config"
	case bad(p.ReportData, 64):
		return "report_data"
	}
	for _, e := range p.Rtmrs {
		if bad(e, 48) {
			return "rtmrs"
		}
	}
	return "any_mr_td"
}

// c14FarLengths: wrong lengths far from the right one n — around every multiple of 256 up to 1024 (n + 256k is what a
// length kept in one byte takes for n), around 65536 and 65536 + n, and 2^20 + n.
func c14FarLengths(n int) []int {
	var out []int
	for k := 1; k <= 4; k++ {
		out = append(out, 256*k-1, 256*k, 256*k+1, 256*k+n-1, 256*k+n, 256*k+n+1)
	}
	return append(out, 65535, 65536, 65536+n-1, 65536+n, 65536+n+1, 1<<20+n)
}
