package checks

import (
	"bytes"
	"context"
	"encoding/binary"
	"errors"
	"fmt"
	"io"
	"io/fs"
	"net"
	"net/url"
	"os"
	"os/exec"
	"path/filepath"
	"sort"
	"strings"
	"syscall"
	"time"

	ccpb "github.com/google/go-tdx-guest/proto/checkconfig"
	"github.com/google/go-tdx-guest/verify"
	"github.com/google/go-tdx-guest/verify/trust"
	"google.golang.org/protobuf/encoding/prototext"
	"google.golang.org/protobuf/proto"

	"verifharness/mc"
	"verifharness/world"
)

func init() {
	mc.Register(&mc.Check{ID: "C19", Category: "fault_enumeration",
		Rule:   "the tools/check binary built from the current tree, one process per case; Engine A over: for each of 14 policy fields (config in {absent, matching, mismatching, malformed}) x (flag in {absent, matching, mismatching, malformed}); config shape {none, empty, policy{}, only header, only body, root_of_trust{} only, unparsable, missing file} x encoding {binary, textproto}; check_crl / get_collateral config {unset,true,false} x flag {unset,true,false,garbage}; input {bin valid, proto, textproto, unknown format, forged, truncated, size-corrupted, partial message, garbage proto, empty, missing}; trusted roots flag {T, unset, foreign, missing, directory, non-PEM} x config bundles {none, path T, inline T, path foreign, inline foreign}; local test getter on/off (the sandbox has no network: every fetch fails deterministically). Plus, in-process, the getter failing at each fetch point must surface trust.AttestationRecreationErr / verify.CRLUnavailableErr to errors.As. Non-trivial: >=1 deviation; distinct by decision vector",
		Assume: []string{"flags parsed by Go's flag package itself (-timeout, -verbosity, ...) are kept well-formed", "no network in the sandbox: a real fetch fails within the 20 ms timeout passed to the tool", "the harness PKI is valid from 2020 to 2049 so that the tool's use of the real clock does not matter"},
		Run:    runC19})
}

type c19field struct {
	name    string
	off     int // absolute offset in the quote
	size    int
	svn     bool
	cfgOnly bool
	rtmr    bool
	set     func(p *ccpb.Policy, v []byte, n uint32)
}

func c19Fields() []c19field {
	b := func(name string, off, size int, set func(p *ccpb.Policy, v []byte)) c19field {
		return c19field{name: name, off: off, size: size, set: func(p *ccpb.Policy, v []byte, _ uint32) { set(p, v) }}
	}
	return []c19field{
		b("qe_vendor_id", 12, 16, func(p *ccpb.Policy, v []byte) { hp(p).QeVendorId = v }),
		b("mr_seam", 48+16, 48, func(p *ccpb.Policy, v []byte) { tp(p).MrSeam = v }),
		b("td_attributes", 48+120, 8, func(p *ccpb.Policy, v []byte) { tp(p).TdAttributes = v }),
		b("xfam", 48+128, 8, func(p *ccpb.Policy, v []byte) { tp(p).Xfam = v }),
		b("mr_td", 48+136, 48, func(p *ccpb.Policy, v []byte) { tp(p).MrTd = v }),
		b("mr_config_id", 48+184, 48, func(p *ccpb.Policy, v []byte) { tp(p).MrConfigId = v }),
		b("mr_owner", 48+232, 48, func(p *ccpb.Policy, v []byte) { tp(p).MrOwner = v }),
		b("mr_owner_config", 48+280, 48, func(p *ccpb.Policy, v []byte) { tp(p).MrOwnerConfig = v }),
		b("report_data", 48+520, 64, func(p *ccpb.Policy, v []byte) { tp(p).ReportData = v }),
		b("minimum_tee_tcb_svn", 48, 16, func(p *ccpb.Policy, v []byte) { tp(p).MinimumTeeTcbSvn = v }),
		{name: "minimum_qe_svn", off: 10, size: 2, svn: true, set: func(p *ccpb.Policy, _ []byte, n uint32) { hp(p).MinimumQeSvn = n }},
		{name: "minimum_pce_svn", off: 8, size: 2, svn: true, set: func(p *ccpb.Policy, _ []byte, n uint32) { hp(p).MinimumPceSvn = n }},
		{name: "rtmrs", off: 48 + 328, size: 192, rtmr: true},
		{name: "any_mr_td", off: 48 + 136, size: 48, cfgOnly: true},
	}
}

func runC19(r *mc.Run) {
	dir, err := os.MkdirTemp("", "verif-c19")
	if err != nil {
		r.HarnessError("C19: %v", err)
		return
	}
	defer os.RemoveAll(dir)
	bin := filepath.Join(dir, "check")
	cmd := exec.Command("go", "build", "-buildvcs=false", "-o", bin, "github.com/google/go-tdx-guest/tools/check")
	cmd.Dir = repoRoot()
	cmd.Env = append(os.Environ(), "GOFLAGS=-mod=mod", "GOPROXY=off", "GOSUMDB=off", "GOTOOLCHAIN=local")
	if out, err := cmd.CombinedOutput(); err != nil {
		r.HarnessError("C19: cannot build tools/check from the current tree: %v\n%s", err, out)
		return
	}
	// a PKI that is valid at the real current time (the tool has no time flag)
	nb, na := time.Date(2020, 1, 1, 0, 0, 0, 0, time.UTC), time.Date(2049, 1, 1, 0, 0, 0, 0, time.UTC)
	mkPKI := func(name string) *world.PKI {
		p := &world.PKI{Name: name, RootKey: world.NewKey(name + "/root"), InterKey: world.NewKey(name + "/inter"), LeafKey: world.NewKey(name + "/leaf"), TcbKey: world.NewKey(name + "/tcb")}
		p.Root = world.MakeCert(world.CertSpec{CN: world.CNRoot, IsCA: true, Key: p.RootKey, MaxPathLen: 1, NotBefore: nb, NotAfter: na}, nil, p.RootKey)
		p.Inter = world.MakeCert(world.CertSpec{CN: world.CNPlatform, IsCA: true, Key: p.InterKey, MaxPathLen: -1, NotBefore: nb, NotAfter: na}, p.Root, p.RootKey)
		p.Leaf = world.MakeCert(world.CertSpec{CN: world.CNLeaf, Key: p.LeafKey, SGXExt: world.SGXExtension(world.DefaultPlatform()), NotBefore: nb, NotAfter: na}, p.Inter, p.InterKey)
		return p
	}
	T, F := mkPKI("C19T"), mkPKI("C19F")
	spec := world.QuoteSpec{PKI: T, QeSvn: 0x0203, PceSvn: 0x0104, FillLabel: "c19"}
	parts := spec.Parts()
	for i := 0; i < 16; i++ {
		parts.Body[i] = byte(0x20 + i)
	}
	parts.SignBody(world.NewKey("att"))
	raw, reg := parts.Bytes()
	wf := func(name string, b []byte) string {
		p := filepath.Join(dir, name)
		os.WriteFile(p, b, 0o600)
		return p
	}
	qmsg, perr := safeToProto(raw)
	if perr != nil {
		r.HarnessError("C19: baseline quote does not parse: %v", perr)
		return
	}
	forged := append([]byte(nil), raw...)
	forged[300] ^= 1
	sizeBad := append([]byte(nil), raw...)
	binary.LittleEndian.PutUint32(sizeBad[reg.SigDataSize[0]:], 10)
	pbBytes, _ := proto.Marshal(qmsg)
	txtBytes, _ := prototext.Marshal(qmsg)
	partial := proto.Clone(qmsg)
	partial.ProtoReflect().Clear(partial.ProtoReflect().Descriptor().Fields().ByName("td_quote_body"))
	partialBytes, _ := proto.Marshal(partial)
	// genuine quotes (signed by T's platform) whose TD carries a bit no TD may have: whatever the policy says —
	// also when it says nothing — they do not satisfy it
	badBits := func(off int, bit uint) []byte {
		p2 := parts.Clone()
		p2.Body[off+int(bit/8)] ^= 1 << (bit % 8)
		p2.SignBody(world.NewKey("att"))
		b, _ := p2.Bytes()
		return b
	}
	xfamBad, tdAttrBad, xfamLow := badBits(128, 3), badBits(120, 1), badBits(128, 0)
	xfamBadMsg, _ := safeToProto(xfamBad)
	xfamBadPb, _ := proto.Marshal(xfamBadMsg)
	inputs := []struct {
		name  string
		args  []string
		codes []int // exit codes whose condition holds for this input alone (nil: fine)
	}{
		{"bin-valid", []string{"-in", wf("quote.bin", raw)}, nil},
		{"proto-valid", []string{"-in", wf("quote.pb", pbBytes), "-inform", "proto"}, nil},
		{"textproto-valid", []string{"-in", wf("quote.textproto", txtBytes), "-inform", "textproto"}, nil},
		{"unknown-inform", []string{"-in", filepath.Join(dir, "quote.bin"), "-inform", "yaml"}, []int{1}},
		{"bin-forged", []string{"-in", wf("forged.bin", forged)}, []int{2}},
		{"bin-truncated", []string{"-in", wf("trunc.bin", raw[:900])}, []int{1, 2}},
		{"bin-size-corrupted", []string{"-in", wf("size.bin", sizeBad)}, []int{1, 2}},
		{"proto-partial-message", []string{"-in", wf("partial.pb", partialBytes), "-inform", "proto"}, []int{1, 2}},
		{"proto-garbage", []string{"-in", wf("garbage.pb", world.Fill("garbage-pb", 300)), "-inform", "proto"}, []int{1, 2}},
		{"bin-as-proto", []string{"-in", filepath.Join(dir, "quote.bin"), "-inform", "proto"}, []int{1, 2}},
		{"empty-file", []string{"-in", wf("empty.bin", nil)}, []int{1, 2}},
		{"missing-file", []string{"-in", filepath.Join(dir, "no-such-quote.bin")}, []int{1}},
		{"bin-genuine-xfam-forbidden-bit3", []string{"-in", wf("xfam3.bin", xfamBad)}, []int{4}},
		{"bin-genuine-tdattributes-forbidden-bit1", []string{"-in", wf("tdattr1.bin", tdAttrBad)}, []int{4}},
		{"bin-genuine-xfam-required-bit0-clear", []string{"-in", wf("xfam0.bin", xfamLow)}, []int{4}},
		{"proto-genuine-xfam-forbidden-bit3", []string{"-in", wf("xfam3.pb", xfamBadPb), "-inform", "proto"}, []int{4}},
		// the quote on standard input ("-" and the flag's default)
		{"stdin-bin-valid", []string{"-in", "-"}, nil},
		{"stdin-default-bin-valid", nil, nil},
		{"stdin-proto-valid", []string{"-in=-", "-inform=proto"}, nil},
		{"stdin-bin-forged", []string{"-in", "-"}, []int{2}},
		{"stdin-empty", []string{"-in", "-"}, []int{1, 2}},
	}
	stdinFor := map[string][]byte{"stdin-bin-valid": raw, "stdin-default-bin-valid": raw, "stdin-proto-valid": pbBytes, "stdin-bin-forged": forged, "stdin-empty": {}}
	tPem, fPem := wf("T.pem", world.PEM(T.Root)), wf("F.pem", world.PEM(F.Root))
	notPem := wf("notpem.txt", []byte("hello"))
	os.Mkdir(filepath.Join(dir, "adir"), 0o755)
	// bundles with the same file name in different directories
	os.MkdirAll(filepath.Join(dir, "vendor-a"), 0o755)
	os.MkdirAll(filepath.Join(dir, "vendor-b"), 0o755)
	sameF, sameT, sameBad := filepath.Join(dir, "vendor-a", "root.pem"), filepath.Join(dir, "vendor-b", "root.pem"), filepath.Join(dir, "adir", "root.pem")
	os.WriteFile(sameF, world.PEM(F.Root), 0o600)
	os.WriteFile(sameT, world.PEM(T.Root), 0o600)
	os.WriteFile(sameBad, []byte("hello"), 0o600)
	rootFlags := []struct {
		name   string
		arg    string
		trusts bool
		bad    bool
	}{{"T", tPem, true, false}, {"unset", "", false, false}, {"F", fPem, false, false}, {"missing", filepath.Join(dir, "nope.pem"), false, true},
		{"directory", filepath.Join(dir, "adir"), false, true}, {"not-pem", notPem, false, true}, {"T,F", tPem + "," + fPem, true, false},
		{"F,T", fPem + "," + tPem, true, false}, {"T,T", tPem + "," + tPem, true, false},
		{"same-name:F,T", sameF + "," + sameT, true, false}, {"same-name:T,not-pem", sameT + "," + sameBad, false, true},
		{"T,not-pem", tPem + "," + notPem, false, true}, {"T,missing", tPem + "," + filepath.Join(dir, "nope.pem"), false, true}}
	rootCfgs := []struct {
		name   string
		apply  func(rot *ccpb.RootOfTrust)
		trusts bool
		pathsT bool
	}{{"none", nil, false, false},
		{"path-T", func(rot *ccpb.RootOfTrust) { rot.CabundlePaths = []string{tPem} }, true, true},
		{"inline-T", func(rot *ccpb.RootOfTrust) { rot.Cabundles = []string{string(world.PEM(T.Root))} }, true, false},
		{"path-F", func(rot *ccpb.RootOfTrust) { rot.CabundlePaths = []string{fPem} }, false, false},
		{"inline-F", func(rot *ccpb.RootOfTrust) { rot.Cabundles = []string{string(world.PEM(F.Root))} }, false, false}}
	fields := c19Fields()
	cfgShapes := []string{"auto", "empty-config", "policy{}", "only-header-policy", "only-body-policy", "root_of_trust{}", "unparsable", "missing-config-file"}
	seq := 0
	bound := 2
	if r.Thorough() {
		bound = 3
	}
	// the tool exploration runs twice: over all dimensions within the deviation bound, and as the FULL product of the
	// four network switches (check_crl / get_collateral, config x flag) with every other dimension at its default
	onlySwitches, idPrefix := false, "tool/"
	switchDims := map[string]bool{"cfg.check_crl": true, "flag.check_crl": true, "cfg.get_collateral": true, "flag.get_collateral": true, "flag.timeout": true}
	body := func(c *mc.Ctx) {
		ch := func(name string, n int) int {
			if onlySwitches && !switchDims[name] {
				return 0
			}
			return c.Choose(name, n)
		}
		enc := c.Free("config-encoding", 2)
		var cfgS, flagS, flagMeaning [14]int
		for i, f := range fields {
			nCfg := 4
			if f.name == "minimum_tee_tcb_svn" || f.rtmr {
				nCfg = 5 // state 4: an earlier component below the quote's, a later one above it / an empty RTMR entry before a mismatching one
			}
			cfgS[i] = ch("cfg."+f.name, nCfg)
			if !f.cfgOnly {
				n := nCfg
				if f.svn {
					n = 4 + len(c19SvnSpellings) // further spellings of a number
				}
				if f.rtmr {
					n = 7 // states 5 / 6: a flag that names some registers and leaves the others empty (unchecked) / all empty
				}
				flagS[i] = ch("flag."+f.name, n)
			}
		}
		shape := ch("config-shape", len(cfgShapes))
		crlCfg := ch("cfg.check_crl", 3)
		crlFlag := ch("flag.check_crl", 4)
		gcCfg := ch("cfg.get_collateral", 3)
		gcFlag := ch("flag.get_collateral", 4)
		in := ch("input", len(inputs))
		rf := ch("flag.trusted_roots", len(rootFlags))
		rc := ch("cfg.roots", len(rootCfgs))
		local := ch("test_local_getter", 2)
		// what the tool prints has no bearing on the exit code
		output := ch("output", 6)
		// how a value flag is written has no bearing on its meaning: -name=value, -name value, --name=value
		form := ch("flag-form", 3)
		tmo := ch("flag.timeout", 4)
		id := idPrefix + c.ID()
		if !r.Want(id) {
			return
		}
		allowed := map[int]bool{}
		for _, code := range inputs[in].codes {
			allowed[code] = true
		}
		args := append([]string{}, inputs[in].args...)
		// the retry budget: a short one by default; zero (one attempt, then the failure is reported) in two spellings
		switch tmo {
		case 0:
			args = append(args, "-timeout", "20ms", "-max_retry_delay", "5ms")
		case 1:
			args = append(args, "-timeout=0s", "-max_retry_delay", "5ms")
		case 2:
			args = append(args, "-timeout=0", "-max_retry_delay=0")
		case 3:
			args = append(args, "-timeout=1ns", "-max_retry_delay=1h")
		}
		if local == 1 {
			args = append(args, "-test_local_getter")
		}
		args = append(args, [][]string{nil, {"-quiet"}, {"-verbosity=1"}, {"-quiet=true", "-verbosity=2"}, {"-quiet=false"}, {"-verbosity=-1"}}[output]...)
		// policy fields
		pol := &ccpb.Policy{}
		cfgUsed := false
		for i, f := range fields {
			want := append([]byte(nil), raw[f.off:f.off+f.size]...)
			svnVal := uint32(binary.LittleEndian.Uint16(raw[f.off:]))
			// config side
			cfgState := cfgS[i]
			if cfgState != 0 {
				cfgUsed = true
				switch {
				case f.svn:
					n := map[int]uint32{1: svnVal, 2: svnVal + 1, 3: 70000}[cfgState]
					f.set(pol, nil, n)
				case f.rtmr:
					var rt [][]byte
					for k := 0; k < 4; k++ {
						rt = append(rt, append([]byte(nil), want[48*k:48*k+48]...))
					}
					switch cfgState {
					case 2:
						rt[2][5] ^= 1
					case 3:
						rt = rt[:3]
					case 4:
						rt[0], rt[1] = []byte{}, nil
						rt[3][40] ^= 0x80
						cfgState = 2
					}
					tp(pol).Rtmrs = rt
				case f.cfgOnly:
					v := append([]byte(nil), want...)
					switch cfgState {
					case 2:
						v[0] ^= 1
					case 3:
						v = v[:47]
					}
					tp(pol).AnyMrTd = [][]byte{world.Fill("c19-other-mrtd", 48), v}
				default:
					v := append([]byte(nil), want...)
					switch cfgState {
					case 2:
						v[len(v)-1] ^= 1
						if f.name == "minimum_tee_tcb_svn" {
							v[len(v)-1] = want[len(v)-1] + 1 // a minimum is only missed when it is higher
						}
					case 3:
						v = v[:len(v)-1]
					case 4:
						v[0], v[2], v[15] = want[0]-1, want[2]+1, want[15]-1
						cfgState = 2
					}
					f.set(pol, v, 0)
				}
			}
			// flag side
			flagState := flagS[i]
			if flagState != 0 {
				var val string
				switch {
				case f.svn:
					val = map[int]string{1: fmt.Sprint(svnVal), 2: fmt.Sprint(svnVal + 1), 3: "seven"}[flagState]
					if flagState >= 4 {
						sp := c19SvnSpellings[flagState-4]
						val = sp.text(svnVal)
						flagState = sp.state // what this spelling means: 1 matching, 2 mismatching, 3 malformed
					}
				case f.rtmr:
					var hs []string
					for k := 0; k < 4; k++ {
						hs = append(hs, hexs(want[48*k:48*k+48]))
					}
					switch flagState {
					case 2:
						hs[1] = hexs(world.Fill("c19-other-rtmr", 48))
					case 3:
						hs[3] = "zz"
					case 4:
						hs[0], hs[1], hs[2] = "", "", hexs(world.Fill("c19-other-rtmr", 48))
						flagState = 2
					case 5: // the flag pins two registers and leaves two unchecked: that is the whole expectation, whatever the config lists
						hs[2], hs[3] = "", ""
						flagState = 1
					case 6:
						hs = []string{"", "", "", ""}
						flagState = 1
					}
					val = strings.Join(hs, ",")
				default:
					v := append([]byte(nil), want...)
					switch flagState {
					case 2:
						v[0] ^= 0x80
					case 4:
						v[0], v[2], v[15] = want[0]-1, want[2]+1, want[15]-1
						flagState = 2
					}
					val = hexs(v)
					if flagState == 3 {
						val = hexs(v) + "00" // one byte too long
					}
				}
				args = append(args, "-"+f.name+"="+val)
			}
			// effective verdict of this field
			eff := cfgState
			overridden := false
			flagMeaning[i] = flagState
			if flagState != 0 {
				if cfgState == 3 {
					overridden = true
				}
				eff = flagState
			}
			switch {
			case flagState == 3:
				allowed[1] = true
			case eff == 3:
				allowed[1] = true
			case eff == 2:
				allowed[4] = true
			}
			if overridden && flagState != 3 {
				allowed[-1] = true // marker: exit 1 tolerated (malformed but overridden config field)
			}
		}
		// root of trust / options
		rot := &ccpb.RootOfTrust{}
		if crlCfg != 0 {
			cfgUsed = true
			rot.CheckCrl = crlCfg == 1
		}
		if gcCfg != 0 {
			cfgUsed = true
			rot.GetCollateral = gcCfg == 1
		}
		if rootCfgs[rc].apply != nil {
			cfgUsed = true
			rootCfgs[rc].apply(rot)
		}
		if crlFlag != 0 {
			args = append(args, "-check_crl="+map[int]string{1: "true", 2: "false", 3: "maybe"}[crlFlag])
		}
		if gcFlag != 0 {
			args = append(args, "-get_collateral="+map[int]string{1: "true", 2: "false", 3: "1x"}[gcFlag])
		}
		if rootFlags[rf].arg != "" {
			args = append(args, "-trusted_roots="+rootFlags[rf].arg)
		}
		if crlFlag == 3 || gcFlag == 3 || rootFlags[rf].bad {
			allowed[1] = true
		}
		effBool := func(cfg, flag int) bool {
			switch flag {
			case 1:
				return true
			case 2:
				return false
			}
			return cfg == 1
		}
		effCrl, effGc := effBool(crlCfg, crlFlag), effBool(gcCfg, gcFlag)
		// config file
		var cfgArg string
		cfg := &ccpb.Config{}
		switch cfgShapes[shape] {
		case "auto":
			if cfgUsed {
				cfg.Policy, cfg.RootOfTrust = pol, rot
			}
		case "empty-config":
			cfgUsed = true
			if polHasFields(pol) {
				cfg.Policy = pol
			}
			if rotHasFields(rot) {
				cfg.RootOfTrust = rot
			}
		case "policy{}":
			cfgUsed = true
			cfg.Policy, cfg.RootOfTrust = pol, rot
		case "only-header-policy":
			cfgUsed = true
			hp(pol)
			cfg.Policy, cfg.RootOfTrust = pol, rot
		case "only-body-policy":
			cfgUsed = true
			tp(pol)
			cfg.Policy, cfg.RootOfTrust = pol, rot
		case "root_of_trust{}":
			cfgUsed = true
			cfg.RootOfTrust = rot
			if polHasFields(pol) {
				cfg.Policy = pol
			}
		}
		seq++
		switch cfgShapes[shape] {
		case "unparsable":
			cfgArg = wfSeq(dir, c.ID(), ".bin", []byte{0xff, 0xff, 0xff, 0x07, 0x01})
			allowed[1] = true
		case "missing-config-file":
			cfgArg = filepath.Join(dir, "no-such-config.bin")
			allowed[1] = true
		default:
			if cfgUsed {
				if enc == 1 {
					b, _ := prototext.Marshal(cfg)
					cfgArg = wfSeq(dir, c.ID(), ".textproto", b)
				} else {
					b, _ := proto.Marshal(cfg)
					cfgArg = wfSeq(dir, c.ID(), ".bin", b)
				}
			}
		}
		configInForce := cfgArg != "" && cfgShapes[shape] != "unparsable" && cfgShapes[shape] != "missing-config-file"
		if !configInForce {
			// config values are not in force: recompute what is effective from flags alone
			effCrl, effGc = effBool(0, crlFlag), effBool(0, gcFlag)
			delete(allowed, 4)
			for i := range fields {
				if flagMeaning[i] == 2 {
					allowed[4] = true
				}
			}
			for _, code := range inputs[in].codes {
				allowed[code] = true
			}
		}
		if cfgArg != "" {
			args = append(args, "-config="+cfgArg)
		}
		// trust
		trusted := rootFlags[rf].trusts
		if configInForce {
			if rootFlags[rf].arg == "" && rootCfgs[rc].pathsT {
				trusted = true
			}
			if rootCfgs[rc].name == "inline-T" {
				trusted = true
			}
		}
		if !trusted && !rootFlags[rf].bad {
			allowed[2] = true
		}
		if effCrl && !effGc {
			allowed[1] = true
		}
		if effGc {
			allowed[3] = true
			if local == 1 {
				// the built-in test getter serves Intel's recorded sample collateral (same FMSPC as the
				// harness platform): the download succeeds and verification fails on it instead
				allowed[2] = true
			}
		}
		tolerate1 := allowed[-1]
		delete(allowed, -1)
		if len(allowed) == 0 {
			allowed[0] = true
		}
		// run
		if form != 0 {
			var re []string
			for _, a := range args {
				eq := strings.Index(a, "=")
				name := strings.TrimLeft(a, "-")
				if eq > 0 {
					name = strings.TrimLeft(a[:eq], "-")
				}
				switch {
				case !strings.HasPrefix(a, "-") || eq < 0 || name == "quiet" || name == "test_local_getter":
					re = append(re, a)
				case form == 1:
					re = append(re, a[:eq], a[eq+1:])
				default:
					re = append(re, "-"+a)
				}
			}
			args = re
		}
		code, stderr := runTool(bin, args, stdinFor[inputs[in].name])
		out := fmt.Sprintf("exit%d", code)
		var al []int
		for k := range allowed {
			al = append(al, k)
		}
		sort.Ints(al)
		detail := map[string]any{"args": args, "stderr": tail(stderr, 600), "allowed": al}
		if cfgArg != "" && cfgShapes[shape] != "missing-config-file" {
			if b, e := os.ReadFile(cfgArg); e == nil {
				detail["config_hex"] = hexs(b)
			}
		}
		switch {
		case code < 0 || code > 4 || strings.Contains(stderr, "panic:") || strings.Contains(stderr, "goroutine 1 ["):
			r.Violate("crash:"+crashLine(stderr), id, fmt.Sprintf("the check tool crashes (exit %d): %s", code, crashLine(stderr)), detail)
			out = "crash"
		case allowed[code]:
		case code == 1 && tolerate1:
		case code == 0:
			r.Violate(fmt.Sprintf("exit0-despite:%v", al), id, fmt.Sprintf("exit 0 although a condition for exit %v holds", al), detail)
			out += "!"
		default:
			r.Violate(fmt.Sprintf("exit%d-want:%v", code, al), id, fmt.Sprintf("exit %d, but the conditions that hold call for %v", code, al), detail)
			out += "!"
		}
		if cfgArg != "" && strings.HasPrefix(cfgArg, dir) {
			os.Remove(cfgArg)
		}
		r.Eval(id, c.Deviations() > 0, fmt.Sprintf("want%v:%s", al, out))
	}
	r.Explore("tool-invocations", bound, body)
	onlySwitches, idPrefix = true, "tool-switches/"
	r.Explore("tool-invocations/network-switches-full-product", 5, body)
	onlySwitches, idPrefix = false, "tool/"

	// library half: typed errors for fetch failures
	c19TypedErrors(r)
}

// c19SvnSpellings: other ways to write a minimum on the command line. The tool reads decimal unless the
// value carries a 0x / 0o / 0b prefix; a leading zero does not mean octal and underscores are not digits.
var c19SvnSpellings = []struct {
	name  string
	state int
	text  func(v uint32) string
}{
	{"hex-equal", 1, func(v uint32) string { return fmt.Sprintf("0x%x", v) }},
	{"HEX-equal", 1, func(v uint32) string { return fmt.Sprintf("0X%X", v) }},
	{"octal-prefix-equal", 1, func(v uint32) string { return fmt.Sprintf("0o%o", v) }},
	{"binary-equal", 1, func(v uint32) string { return fmt.Sprintf("0b%b", v) }},
	{"leading-zero-equal", 1, func(v uint32) string { return fmt.Sprintf("0%d", v) }},
	{"leading-zeros-8", 1, func(v uint32) string { return "08" }},
	// decimal 0777 = 777 is above the quote's SVN (515 / 260), read as octal it would be 511: not above 515
	{"leading-zero-above", 2, func(v uint32) string { return "0777" }},
	{"hex-above", 2, func(v uint32) string { return fmt.Sprintf("0x%x", v+1) }},
	{"underscore", 3, func(v uint32) string { s := fmt.Sprint(v); return s[:1] + "_" + s[1:] }},
	{"trailing-garbage", 3, func(v uint32) string { return fmt.Sprint(v) + "x" }},
	{"negative", 3, func(v uint32) string { return "-1" }},
	{"plus-sign", 3, func(v uint32) string { return "+" + fmt.Sprint(v) }},
	{"too-big-for-32-bits", 3, func(v uint32) string { return "4294967296" }},
	{"above-16-bits", 3, func(v uint32) string { return "65536" }},
}

func wfSeq(dir, id, ext string, b []byte) string {
	h := fmt.Sprintf("%x", hashOf(id))
	p := filepath.Join(dir, "cfg-"+h+ext)
	os.WriteFile(p, b, 0o600)
	return p
}

func hashOf(s string) uint64 {
	var h uint64 = 1469598103934665603
	for i := 0; i < len(s); i++ {
		h ^= uint64(s[i])
		h *= 1099511628211
	}
	return h
}

func polHasFields(p *ccpb.Policy) bool { return p.HeaderPolicy != nil || p.TdQuoteBodyPolicy != nil }
func rotHasFields(rot *ccpb.RootOfTrust) bool {
	return rot.CheckCrl || rot.GetCollateral || len(rot.CabundlePaths) > 0 || len(rot.Cabundles) > 0
}

func runTool(bin string, args []string, stdin ...[]byte) (int, string) {
	cmd := exec.Command(bin, args...)
	var stderr bytes.Buffer
	cmd.Stderr = &stderr
	cmd.Stdout = nil
	cmd.Stdin = bytes.NewReader(nil)
	if len(stdin) > 0 {
		cmd.Stdin = bytes.NewReader(stdin[0])
	}
	done := make(chan error, 1)
	if err := cmd.Start(); err != nil {
		return -2, err.Error()
	}
	go func() { done <- cmd.Wait() }()
	select {
	case err := <-done:
		if err == nil {
			return 0, stderr.String()
		}
		var ee *exec.ExitError
		if errors.As(err, &ee) {
			return ee.ExitCode(), stderr.String()
		}
		return -2, err.Error()
	case <-time.After(60 * time.Second):
		cmd.Process.Kill()
		return -3, "watchdog: the tool did not exit within 60 s\n" + stderr.String()
	}
}

func tail(s string, n int) string {
	if len(s) > n {
		return "…" + s[len(s)-n:]
	}
	return s
}

func crashLine(stderr string) string {
	for _, l := range strings.Split(stderr, "\n") {
		if strings.HasPrefix(l, "panic:") {
			return l
		}
	}
	for _, l := range strings.Split(stderr, "\n") {
		if strings.Contains(l, "tools/check/check.go") {
			return strings.TrimSpace(l)
		}
	}
	return "abnormal exit"
}

type failingGetter struct {
	inner  *world.Getter
	failAt string
	err    error // nil: a plain error
}

func (g *failingGetter) Get(u string) (map[string][]string, []byte, error) {
	if strings.Contains(u, g.failAt) {
		if g.err != nil {
			return nil, nil, g.err
		}
		return nil, nil, errors.New("scripted network failure")
	}
	return g.inner.Get(u)
}

// c19FailureKinds: what a failed download looks like to the library — whatever the kind, it is a failed download
var c19FailureKinds = []struct {
	name string
	err  error
}{
	{"plain", nil},
	{"http-client-timeout", &url.Error{Op: "Get", URL: "https://api.trustedservices.intel.com/x", Err: context.DeadlineExceeded}},
	{"wrapped-deadline-exceeded", fmt.Errorf("request failed: %w", context.DeadlineExceeded)},
	{"context-canceled", &url.Error{Op: "Get", URL: "https://api.trustedservices.intel.com/x", Err: context.Canceled}},
	{"os-deadline-exceeded", &net.OpError{Op: "read", Net: "tcp", Err: os.ErrDeadlineExceeded}},
	{"io-eof", io.EOF},
	{"unexpected-eof", io.ErrUnexpectedEOF},
	{"dns", &net.DNSError{Err: "no such host", Name: "api.trustedservices.intel.com", IsNotFound: true}},
	{"connection-refused", &net.OpError{Op: "dial", Net: "tcp", Err: syscall.ECONNREFUSED}},
	{"fs-not-exist", fs.ErrNotExist},
	{"error-with-empty-text", errors.New("")},
}

func c19TypedErrors(r *mc.Run) {
	w := world.Honest("T")
	for _, fp := range []struct {
		name, frag string
		crl        bool
	}{
		{"tcb-info", "/tcb?fmspc=", false}, {"qe-identity", "/qe/identity", false}, {"pck-crl", "pckcrl", true}, {"root-crl", "IntelSGXRootCA", true}} {
		for wi, wrap := range []string{"plain", "retrying"} {
			for _, fk := range c19FailureKinds {
				id := "typed-error/" + fp.name + "/" + wrap
				if fk.err != nil {
					id += "/failure=" + fk.name
				}
				if !r.Want(id) {
					continue
				}
				_ = wi
				var g trust.HTTPSGetter = &failingGetter{inner: w.Getter.Clone(), failAt: fp.frag, err: fk.err}
				if wrap == "retrying" {
					g = &trust.RetryHTTPSGetter{Timeout: 5 * time.Millisecond, MaxRetryDelay: time.Millisecond, Getter: g}
				}
				now := w.Now
				err := world.SafeVerifyRaw(w.Raw(), &verify.Options{GetCollateral: true, CheckRevocations: true, Getter: g, Now: &now, TrustedRoots: w.Roots})
				// the tool does not set the options by hand: it converts its merged root-of-trust message. The same failing
				// fetch must surface the same way through options built by that conversion
				if ro, cerr := verify.RootOfTrustToOptions(&ccpb.RootOfTrust{Cabundles: []string{string(world.PEM(w.PKI.Root))}, GetCollateral: true, CheckCrl: true}); cerr == nil && ro != nil {
					var g2 trust.HTTPSGetter = &failingGetter{inner: w.Getter.Clone(), failAt: fp.frag, err: fk.err}
					if wrap == "retrying" {
						g2 = &trust.RetryHTTPSGetter{Timeout: 5 * time.Millisecond, MaxRetryDelay: time.Millisecond, Getter: g2}
					}
					now2 := w.Now
					ro.Getter, ro.Now = g2, &now2
					err2 := world.SafeVerifyRaw(w.Raw(), ro)
					var a2 *trust.AttestationRecreationErr
					var c2p *verify.CRLUnavailableErr
					var c2v verify.CRLUnavailableErr
					if err2 == nil || !(errors.As(err2, &a2) || errors.As(err2, &c2p) || errors.As(err2, &c2v)) {
						r.Violate("typed-error:via-root-of-trust-conversion:"+fp.name, id, "with options converted from a root-of-trust message (check_crl + get_collateral) a failed "+fp.name+" download gives: "+errStr(err2), nil)
					}
				} else {
					r.Violate("typed-error:conversion-failed", id, "RootOfTrustToOptions refuses an inline bundle with both switches on: "+errStr(cerr), nil)
				}
				var are *trust.AttestationRecreationErr
				var crlP *verify.CRLUnavailableErr
				var crlV verify.CRLUnavailableErr
				typed := errors.As(err, &are) || errors.As(err, &crlP) || errors.As(err, &crlV)
				out := "typed"
				switch {
				case err == nil || world.IsPanic(err):
					r.Violate("typed-error:no-error:"+fp.name, id, "a failing fetch did not produce an error: "+errStr(err), nil)
					out = "no-error"
				case !typed:
					r.Violate("typed-error:not-distinguishable:"+fp.name, id, "the error for a failed "+fp.name+" download exposes neither trust.AttestationRecreationErr nor verify.CRLUnavailableErr to errors.As: "+errStr(err), nil)
					out = "untyped"
				}
				r.Eval(id, true, "typed-error:"+out)
			}
		}
	}
	// a root that names two CRL distribution points: a download failure is reported (exit 3 for the tool) only when
	// NO point delivers the list; one point down or serving an error page while the other delivers is not a failure
	pki := w.PKI
	root2 := world.MakeCert(world.CertSpec{CN: world.CNRoot, IsCA: true, Key: pki.RootKey, MaxPathLen: 1, CRLDP: []string{world.RootCRLURL, c05dp2}}, nil, pki.RootKey)
	good := w.Getter.Responses[world.RootCRLURL]
	answers := []struct {
		name string
		resp world.Response
		ok   bool
	}{{"serves-the-crl", good, true}, {"down", world.Response{Err: errors.New("dial tcp: connection refused")}, false}, {"error-page", world.Response{Body: []byte("<html>503</html>")}, false}}
	for a := range answers {
		for b := range answers {
			id := fmt.Sprintf("typed-error/root-crl-points/first=%s,second=%s", answers[a].name, answers[b].name)
			if !r.Want(id) {
				continue
			}
			g := w.Getter.Clone()
			g.Responses[world.URLQeIdentity] = world.Response{Header: map[string][]string{world.HdrQeIdentity: {world.IssuerChainHeader(pki.Tcb, root2)}}, Body: g.Responses[world.URLQeIdentity].Body}
			g.Responses[world.RootCRLURL], g.Responses[c05dp2] = answers[a].resp, answers[b].resp
			now := w.Now
			err := world.SafeVerifyRaw(w.Raw(), &verify.Options{GetCollateral: true, CheckRevocations: true, Getter: g, Now: &now, TrustedRoots: w.Roots})
			var crlP *verify.CRLUnavailableErr
			var crlV verify.CRLUnavailableErr
			unavailable := errors.As(err, &crlP) || errors.As(err, &crlV)
			out := verdict(err)
			switch {
			case world.IsPanic(err):
			case (answers[a].ok || answers[b].ok) && err != nil:
				r.Violate("typed-error:download-failure-although-a-point-delivers", id, "one distribution point delivers the Root CA CRL but verification reports: "+errStr(err), nil)
				out = "reject!"
			case !answers[a].ok && !answers[b].ok && (err == nil || !unavailable):
				r.Violate("typed-error:no-point-delivers", id, "no distribution point delivers the Root CA CRL but the result is not a CRL-unavailable error: "+errStr(err), nil)
				out = "untyped"
			}
			r.Eval(id, true, "root-crl-points:"+out)
		}
	}
}
