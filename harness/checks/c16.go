package checks

import (
	"bytes"
	"encoding/base64"
	"fmt"
	"os"
	"os/exec"
	"reflect"
	"runtime/debug"
	"strings"
	"sync"
	"unsafe"

	"github.com/google/go-tdx-guest/abi"
	pb "github.com/google/go-tdx-guest/proto/tdx"
	"github.com/google/go-tdx-guest/rtmr"
	"github.com/google/go-tdx-guest/testing/testdata"
	"github.com/google/go-tdx-guest/validate"
	"github.com/google/go-tdx-guest/verify"
	"google.golang.org/protobuf/encoding/prototext"
	"google.golang.org/protobuf/proto"

	"verifharness/mc"
	"verifharness/memwatch"
	"verifharness/shim/vsched"
	"verifharness/world"
)

func init() {
	mc.Register(&mc.Check{ID: "C16", Category: "model_checking",
		Rule:   "(i) write monitor: for every construction mode of the message {parsed from bytes, rebuilt field by field with spare capacity 0/1/4096 behind every field, decoded from protobuf wire, decoded from protobuf text} x every operation {verify.TdxQuote at L0/L1/L2, verify.RawTdxQuote, validate.TdxQuote/RawTdxQuote, abi.QuoteToProto, QuoteToAbiBytes, Header/TdQuoteBody/EnclaveReport serialisers, CheckQuoteV4, ExtractChainFromQuote, GetRtmrsFromTdQuote}: the message, raw input and option byte strings live (same length, capacity and aliasing) in an mmap'ed arena that is read-only during the call; plus the aliasing test (mutate every input byte after parsing; no message slice overlaps the input). (ii) Engine B: every schedule up to the preemption bound of every 2- and 3-subset of {verify(q,o1), validate(q,v), serialise+extract(q), verify(q,o2)} on one shared message, yield points at every function entry of abi/verify/validate/pcs (overlay generated from the current sources): results equal the run-alone baselines, arena unwritten. (iii) a free-running -race pass of the same bodies (not exhaustive; reported separately). A state is a scheduler configuration (program counters at yield points); non-trivial: every schedule with >=1 context switch / every (mode, operation); distinct by id",
		Assume: []string{"the cooperative scheduler only interleaves at function entries of the four instrumented packages; finer-grained races are left to the free-running race-detector pass, which is sampling by nature", "package-level state changes are not flagged by themselves (a correctly synchronised lazy global is legitimate)"},
		Run:    runC16})
}

type c16op struct {
	name string
	run  func(q *pb.QuoteV4, raw []byte, vo *validate.Options, w *world.World) string
}

func res(err error) string {
	if err == nil {
		return "ok"
	}
	return "err:" + errStr(err)
}

func c16Ops() []c16op {
	return []c16op{
		{"verify.TdxQuote/L0", func(q *pb.QuoteV4, _ []byte, _ *validate.Options, w *world.World) string {
			return res(verify.TdxQuote(q, w.Options(world.L0)))
		}},
		{"verify.TdxQuote/L1", func(q *pb.QuoteV4, _ []byte, _ *validate.Options, w *world.World) string {
			return res(verify.TdxQuote(q, w.Options(world.L1)))
		}},
		{"verify.TdxQuote/L2", func(q *pb.QuoteV4, _ []byte, _ *validate.Options, w *world.World) string {
			return res(verify.TdxQuote(q, w.Options(world.L2)))
		}},
		{"verify.RawTdxQuote", func(_ *pb.QuoteV4, raw []byte, _ *validate.Options, w *world.World) string {
			return res(verify.RawTdxQuote(raw, w.Options(world.L0)))
		}},
		{"validate.TdxQuote", func(q *pb.QuoteV4, _ []byte, vo *validate.Options, _ *world.World) string {
			return res(validate.TdxQuote(q, vo))
		}},
		{"validate.RawTdxQuote", func(_ *pb.QuoteV4, raw []byte, vo *validate.Options, _ *world.World) string {
			return res(validate.RawTdxQuote(raw, vo))
		}},
		{"abi.QuoteToProto", func(_ *pb.QuoteV4, raw []byte, _ *validate.Options, _ *world.World) string {
			_, e := abi.QuoteToProto(raw)
			return res(e)
		}},
		{"abi.QuoteToAbiBytes", func(q *pb.QuoteV4, _ []byte, _ *validate.Options, _ *world.World) string {
			b, e := abi.QuoteToAbiBytes(q)
			return fmt.Sprintf("%s/%d", res(e), len(b))
		}},
		{"abi.HeaderToAbiBytes", func(q *pb.QuoteV4, _ []byte, _ *validate.Options, _ *world.World) string {
			_, e := abi.HeaderToAbiBytes(q.GetHeader())
			return res(e)
		}},
		{"abi.TdQuoteBodyToAbiBytes", func(q *pb.QuoteV4, _ []byte, _ *validate.Options, _ *world.World) string {
			_, e := abi.TdQuoteBodyToAbiBytes(q.GetTdQuoteBody())
			return res(e)
		}},
		{"abi.EnclaveReportToAbiBytes", func(q *pb.QuoteV4, _ []byte, _ *validate.Options, _ *world.World) string {
			_, e := abi.EnclaveReportToAbiBytes(q.GetSignedData().GetCertificationData().GetQeReportCertificationData().GetQeReport())
			return res(e)
		}},
		{"abi.CheckQuoteV4", func(q *pb.QuoteV4, _ []byte, _ *validate.Options, _ *world.World) string {
			return res(abi.CheckQuoteV4(q))
		}},
		{"verify.ExtractChainFromQuote", func(q *pb.QuoteV4, _ []byte, _ *validate.Options, _ *world.World) string {
			_, e := verify.ExtractChainFromQuote(q)
			return res(e)
		}},
		{"rtmr.GetRtmrsFromTdQuote", func(q *pb.QuoteV4, _ []byte, _ *validate.Options, _ *world.World) string {
			_, e := rtmr.GetRtmrsFromTdQuote(q)
			return res(e)
		}},
		{"verify.SupportedTcbLevelsFromCollateral", func(q *pb.QuoteV4, _ []byte, _ *validate.Options, w *world.World) string {
			_, _, e := verify.SupportedTcbLevelsFromCollateral(q, w.Options(world.L1))
			return res(e)
		}},
	}
}

// c16Rebuild gives every bytes field its own backing array with `spare` bytes of capacity behind it.
func c16Rebuild(q *pb.QuoteV4, spare int) *pb.QuoteV4 {
	n := proto.Clone(q).(*pb.QuoteV4)
	var walk func(v reflect.Value)
	walk = func(v reflect.Value) {
		switch v.Kind() {
		case reflect.Ptr:
			if !v.IsNil() {
				walk(v.Elem())
			}
		case reflect.Struct:
			for i := 0; i < v.NumField(); i++ {
				if f := v.Field(i); f.CanSet() {
					walk(f)
				}
			}
		case reflect.Slice:
			if v.Type().Elem().Kind() == reflect.Uint8 {
				if v.IsNil() {
					return
				}
				b := make([]byte, v.Len(), v.Len()+spare)
				copy(b, v.Bytes())
				tail := b[len(b):cap(b)]
				for i := range tail {
					tail[i] = 0xEE
				}
				v.SetBytes(b)
				return
			}
			for i := 0; i < v.Len(); i++ {
				walk(v.Index(i))
			}
		}
	}
	walk(reflect.ValueOf(n))
	return n
}

func c16ValidateOpts(raw []byte) *validate.Options {
	o := &validate.Options{}
	for _, f := range optFields {
		f.set(o, append(make([]byte, 0, f.len+32), raw[f.off:f.off+f.len]...))
	}
	o.TdQuoteBodyOptions.MinimumTeeTcbSvn = append(make([]byte, 0, 48), raw[48:64]...)
	for i := 0; i < 4; i++ {
		o.TdQuoteBodyOptions.Rtmrs = append(o.TdQuoteBodyOptions.Rtmrs, append(make([]byte, 0, 64), raw[48+328+48*i:48+376+48*i]...))
	}
	o.TdQuoteBodyOptions.AnyMrTd = [][]byte{append(make([]byte, 0, 64), world.Fill("c16-other", 48)...), append(make([]byte, 0, 64), raw[48+136:48+184]...)}
	return o
}

func runC16(r *mc.Run) {
	w := world.Honest("T")
	// a quote that exercises every region: trailing bytes after the signed data and a NUL after the chain
	w.Spec.Extra = world.Fill("c16-extra", 24)
	w.Spec.NulAfter = true
	w.Parts = w.Spec.Parts()
	raw0 := w.Raw()
	if _, err := safeToProto(raw0); err != nil {
		r.HarnessError("C16: honest quote does not parse: %v", err)
		return
	}
	ops := c16Ops()
	type mode struct {
		name  string
		build func() *pb.QuoteV4
	}
	// quote shapes: the unsigned regions (certificate chain, QE authentication data, trailing bytes) in the
	// unusual forms a parser might be tempted to normalise in place
	type shape struct {
		name string
		raw  []byte
		w    *world.World // the world whose collateral matches this quote (nil: the base world)
	}
	shapes := []shape{{"base", raw0, nil}}
	{
		chainShape := func(name string, f func(c []byte) []byte) {
			p := w.Parts.Clone()
			p.Chain = f(append([]byte(nil), p.Chain...))
			b, _ := p.Bytes()
			shapes = append(shapes, shape{name, b, nil})
		}
		noNul := func(c []byte) []byte { return bytes.TrimRight(c, "\x00") }
		chainShape("chain/interior-nul", func(c []byte) []byte {
			return append(bytes.ReplaceAll(noNul(c), []byte("\n-----BEGIN"), []byte("\n\x00-----BEGIN")), 0)
		})
		chainShape("chain/leading-nul", func(c []byte) []byte { return append([]byte{0}, c...) })
		chainShape("chain/three-trailing-nul", func(c []byte) []byte { return append(noNul(c), 0, 0, 0) })
		chainShape("chain/crlf", func(c []byte) []byte { return bytes.ReplaceAll(c, []byte("\n"), []byte("\r\n")) })
		chainShape("chain/text-between-blocks", func(c []byte) []byte {
			return bytes.ReplaceAll(c, []byte("\n-----BEGIN"), []byte("\nissuer follows\n-----BEGIN"))
		})
		chainShape("chain/other-block-appended", func(c []byte) []byte {
			return append(noNul(c), world.PEMBlock("PUBLIC KEY", []byte{1, 2, 3})...)
		})
		chainShape("chain/whitespace-tail", func(c []byte) []byte { return append(noNul(c), []byte(" \n\t \n")...) })
		chainShape("chain/nul-inside-base64", func(c []byte) []byte {
			c = append([]byte(nil), c...)
			c[len(c)/2] = 0
			return c
		})
		chainShape("chain/empty", func(c []byte) []byte { return nil })
		for _, al := range []int{0, 1000} {
			w2 := world.Honest("T")
			w2.Spec.Auth = world.Fill("c16-auth", al)
			w2.Parts = w2.Spec.Parts()
			shapes = append(shapes, shape{fmt.Sprintf("auth/len%d+no-extra", al), w2.Raw(), nil})
		}
	}
	// quotes that take the rarely used branches of the collateral checks: a TDX module version that selects a module
	// identity (with module SVN differing from the following component), high SVNs, a platform level found at position 2
	for _, v := range []struct {
		name string
		tee  []byte
	}{{"tdx-module-identity", []byte{3, 1, 5, 0, 0, 0, 0, 0, 0, 0, 0, 0, 0, 0, 0, 1}}, {"tdx-module-identity-high", []byte{0x83, 0x0a, 0x85, 7, 6, 5, 4, 3, 2, 1, 0, 0, 0, 0, 0, 0xff}}} {
		w3 := world.Honest("T")
		w3.Spec.TeeTcbSvn = v.tee
		w3.Spec.Extra = world.Fill("c16-extra", 8)
		w3.Parts = w3.Spec.Parts()
		ti := world.DefaultTcbInfo(w3.Plat, v.tee)
		above := world.PlatformLevel(w3.Plat, v.tee, "OutOfDate")
		cs := append([]world.Comp(nil), above.Tcb.Sgx...)
		cs[4].Svn++
		above.Tcb.Sgx = cs
		ti.TcbLevels = append([]world.Level{above, above}, ti.TcbLevels...)
		ti.TdxModuleIdentities = []world.ModuleIdentity{
			{ID: "TDX_7f", Mrsigner: strings.Repeat("00", 48), Attributes: "0000000000000000", AttributesMask: "FFFFFFFFFFFFFFFF", TcbLevels: []world.Level{{Tcb: world.Tcb{Isvsvn: world.IntP(0)}, TcbDate: "2028-01-01T00:00:00Z", TcbStatus: "Revoked"}}},
			{ID: fmt.Sprintf("TDX_%02x", v.tee[1]), Mrsigner: strings.Repeat("00", 48), Attributes: "0000000000000000", AttributesMask: "FFFFFFFFFFFFFFFF",
				TcbLevels: []world.Level{{Tcb: world.Tcb{Isvsvn: world.IntP(int(v.tee[0]) + 1)}, TcbDate: "2029-03-01T00:00:00Z", TcbStatus: "OutOfDate"},
					{Tcb: world.Tcb{Isvsvn: world.IntP(int(v.tee[0]))}, TcbDate: "2029-01-01T00:00:00Z", TcbStatus: "UpToDate"}}}}
		w3.TcbInfo = ti
		w3.Finish()
		if err := w3.Verify(world.L2); err != nil {
			r.HarnessError("C16: the %s world is not accepted: %v", v.name, err)
			return
		}
		shapes = append(shapes, shape{v.name, w3.Raw(), w3})
	}
	// (i) and (i') run twice: with the library's logger at its default level and at verbosity 2 (log output stays
	// discarded) — preparing a log line must not write to the caller's data either
	// collateral whose mask / value fields are wider than the quote's (16-byte TDX module attributes, 32-byte QE
	// attributes, 8-byte MISCSELECT): the verdict is an error, and getting there writes nothing into the quote
	{
		w5 := world.Honest("T")
		w5.Spec.Extra = world.Fill("c16-extra", 8)
		w5.Parts = w5.Spec.Parts()
		w5.TcbInfo = world.DefaultTcbInfo(w5.Plat, w5.Parts.Body[0:16])
		w5.TcbInfo.TdxModule.Attributes = w5.TcbInfo.TdxModule.Attributes + "0000000000000000"
		w5.TcbInfo.TdxModule.AttributesMask = w5.TcbInfo.TdxModule.AttributesMask + "0000000000000000"
		w5.QeID = world.DefaultQeIdentity()
		w5.QeID.Attributes, w5.QeID.AttributesMask = w5.QeID.Attributes+strings.Repeat("00", 16), w5.QeID.AttributesMask+strings.Repeat("00", 16)
		w5.QeID.Miscselect, w5.QeID.MiscselectMask = w5.QeID.Miscselect+"00000000", w5.QeID.MiscselectMask+"00000000"
		w5.Finish()
		shapes = append(shapes, shape{"collateral-with-wider-masks", w5.Raw(), w5})
		w6 := world.Honest("T")
		w6.Spec.Extra = world.Fill("c16-extra", 8)
		w6.Parts = w6.Spec.Parts()
		w6.TcbInfo = world.DefaultTcbInfo(w6.Plat, w6.Parts.Body[0:16])
		w6.TcbInfo.TdxModule.Mrsigner = w6.TcbInfo.TdxModule.Mrsigner + "0000"
		w6.TcbInfo.Fmspc, w6.TcbInfo.PceID = w6.TcbInfo.Fmspc+"00", w6.TcbInfo.PceID+"00"
		w6.QeID = world.DefaultQeIdentity()
		w6.QeID.Mrsigner = w6.QeID.Mrsigner + "00000000"
		w6.Finish()
		shapes = append(shapes, shape{"collateral-with-longer-identifiers", w6.Raw(), w6})
	}
	for _, lvl := range []int{0, 2} {
		world.SetLogLevel(lvl)
		lvlTag := ""
		if lvl != 0 {
			lvlTag = fmt.Sprintf(",log-level=%d", lvl)
		}
		for _, sh := range shapes {
			if lvl != 0 && strings.HasPrefix(sh.name, "chain/") {
				continue
			}
			raw0 := sh.raw
			w := w
			if sh.w != nil {
				w = sh.w
			}
			parsed, err := safeToProto(raw0)
			if err != nil {
				r.HarnessError("C16: quote shape %s does not parse: %v", sh.name, err)
				return
			}
			modes := []mode{
				{"parsed", func() *pb.QuoteV4 { q, _ := safeToProto(raw0); return q }},
				{"rebuilt/spare=0", func() *pb.QuoteV4 { return c16Rebuild(parsed, 0) }},
				{"rebuilt/spare=1", func() *pb.QuoteV4 { return c16Rebuild(parsed, 1) }},
				{"rebuilt/spare=4096", func() *pb.QuoteV4 { return c16Rebuild(parsed, 4096) }},
				// the RTMR list itself (the slice of slices) has room behind its four entries: a caller that keeps a longer
				// register bank and hands its first four entries. The entries behind are the caller's too
				{"rebuilt/rtmrs-list-is-the-head-of-a-longer-bank", func() *pb.QuoteV4 {
					q := c16Rebuild(parsed, 8)
					bank := make([][]byte, 4, 8)
					copy(bank, q.TdQuoteBody.Rtmrs)
					full := bank[:8]
					for k := 4; k < 8; k++ {
						full[k] = bytes.Repeat([]byte{byte(0xb0 + k)}, 48)
					}
					q.TdQuoteBody.Rtmrs = bank
					return q
				}},
				{"proto-wire", func() *pb.QuoteV4 {
					b, _ := proto.Marshal(parsed)
					q := &pb.QuoteV4{}
					proto.Unmarshal(b, q)
					return q
				}},
				{"proto-text", func() *pb.QuoteV4 {
					b, _ := prototext.Marshal(parsed)
					q := &pb.QuoteV4{}
					prototext.Unmarshal(b, q)
					return q
				}},
			}
			// assembled field by field with derived size fields left at their zero value: every non-empty subset of
			// {signed data size, certification data size, QE auth data size, chain size} (base shape; all four elsewhere)
			for mask := 1; mask < 16; mask++ {
				if sh.name != "base" && mask != 15 {
					continue
				}
				mask := mask
				modes = append(modes, mode{fmt.Sprintf("rebuilt/sizes-unset=%04b", mask), func() *pb.QuoteV4 {
					q := c16Rebuild(parsed, 8)
					if mask&1 != 0 {
						q.SignedDataSize = 0
					}
					if cd := q.GetSignedData().GetCertificationData(); cd != nil {
						if mask&2 != 0 {
							cd.Size = 0
						}
						if qc := cd.GetQeReportCertificationData(); qc != nil {
							if a := qc.GetQeAuthData(); a != nil && mask&4 != 0 {
								a.ParsedDataSize = 0
							}
							if ch := qc.GetPckCertificateChainData(); ch != nil && mask&8 != 0 {
								ch.Size = 0
							}
						}
					}
					return q
				}})
			}
			// (i) write monitor
			for _, m := range modes {
				for _, op := range ops {
					id := "write/" + m.name + "/" + op.name
					if sh.name != "base" {
						id = "write/" + sh.name + "/" + m.name + "/" + op.name
					}
					id += lvlTag
					if !r.Want(id) && !r.Want(id+"/unprotected") {
						continue
					}
					for pass := 0; pass < 2; pass++ {
						// pass 0: the arena is read-only and a store traps; pass 1: the arena stays writable and a store
						// shows as changed bytes (fmt swallows a trap raised inside a String / Error method it calls)
						if pass == 1 {
							id += "/unprotected"
						}
						q := m.build()
						raw := append(make([]byte, 0, len(raw0)+512), raw0...)
						vo := c16ValidateOpts(raw0)
						ar, aerr := memwatch.New(1 << 21)
						if aerr != nil {
							r.HarnessError("C16: cannot map the arena: %v", aerr)
							return
						}
						n, rerr := ar.Rehome(q, &raw, vo)
						if rerr != nil {
							r.HarnessError("C16: %v", rerr)
							ar.Free()
							return
						}
						before := ar.Snapshot()
						whole := proto.Clone(q) // the scalar fields of the message are caller-owned memory as well
						// entries of the RTMR list that lie behind its length (the caller's longer bank)
						var behind []string
						if tb := q.GetTdQuoteBody(); tb != nil && cap(tb.Rtmrs) > len(tb.Rtmrs) {
							for _, e := range tb.Rtmrs[len(tb.Rtmrs):cap(tb.Rtmrs)] {
								behind = append(behind, fmt.Sprintf("%p/%d", unsafe.SliceData(e), len(e)))
							}
						}
						var out string
						var fault *memwatch.Fault
						var other any
						if pass == 0 {
							fault, other = ar.Guard(func() { out = op.run(q, raw, vo, w) })
						} else {
							other = ar.GuardOpen(func() { out = op.run(q, raw, vo, w) })
						}
						switch {
						case fault != nil:
							site := faultSite(fault.Stack)
							r.Violate("write:"+op.name+":"+site, id, fmt.Sprintf("%s writes to memory reachable from the quote / raw input / options (%d protected slices, construction %s): store at arena offset faulted in %s", op.name, n, m.name, site),
								map[string]any{"stack": trimStack(fault.Stack)})
							out = "WRITE@" + site
						case other != nil:
							out = "panic"
						case !bytes.Equal(before, ar.Snapshot()):
							r.Violate("write:snapshot:"+op.name, id, op.name+" changed bytes of the caller's quote message / raw input / option byte strings", nil)
							out = "changed"
						case func() bool {
							tb := q.GetTdQuoteBody()
							if tb == nil || len(behind) == 0 || cap(tb.Rtmrs) < len(tb.Rtmrs)+len(behind) {
								return false
							}
							for k, e := range tb.Rtmrs[len(tb.Rtmrs) : len(tb.Rtmrs)+len(behind)] {
								if fmt.Sprintf("%p/%d", unsafe.SliceData(e), len(e)) != behind[k] {
									return true
								}
							}
							return false
						}():
							r.Violate("write:list-entry-behind-length:"+op.name, id, op.name+" replaced an entry of the caller's RTMR bank that lies behind the four entries the message lists", nil)
							out = "changed-list"
						case !proto.Equal(q, whole):
							r.Violate("write:message-field:"+op.name, id, op.name+" changed a (non-bytes) field of the caller's quote message: "+firstDiff(q, whole.(*pb.QuoteV4)), nil)
							out = "changed-field"
						}
						ar.Free()
						r.Eval(id, true, "write:"+firstWord(out))
					}
				}
			}
		}
		// (i') option shapes: validation must leave the caller's options value as it found it — the byte strings (page
		// protection) and the lists that hold them (comparison with a deep copy), for lists with empty / nil entries too
		{
			type voShape struct {
				name string
				mk   func() *validate.Options
			}
			regs := func(i int) []byte { return append(make([]byte, 0, 64), raw0[48+328+48*i:48+376+48*i]...) }
			voShapes := []voShape{
				{"rtmrs-with-empty-entries", func() *validate.Options {
					o := &validate.Options{}
					o.TdQuoteBodyOptions.Rtmrs = [][]byte{regs(0), {}, nil, regs(3)}
					return o
				}},
				{"rtmrs-all-empty", func() *validate.Options {
					o := &validate.Options{}
					o.TdQuoteBodyOptions.Rtmrs = [][]byte{{}, {}, {}, {}}
					return o
				}},
				{"rtmrs-list-with-spare-capacity", func() *validate.Options {
					o := &validate.Options{}
					o.TdQuoteBodyOptions.Rtmrs = append(make([][]byte, 0, 9), regs(0), nil, regs(2), nil)
					return o
				}},
				{"anymrtd-with-empty-and-spare", func() *validate.Options {
					o := &validate.Options{}
					o.TdQuoteBodyOptions.AnyMrTd = append(make([][]byte, 0, 5), []byte{}, append(make([]byte, 0, 64), raw0[48+136:48+184]...), nil)
					return o
				}},
				{"anymrtd-12-entries-unsorted", func() *validate.Options {
					o := &validate.Options{}
					for i := 0; i < 12; i++ {
						e := world.Fill(fmt.Sprintf("c16-allowed-%d", (i*7)%12), 48)
						if i == 9 {
							e = append([]byte(nil), raw0[48+136:48+184]...)
						}
						o.TdQuoteBodyOptions.AnyMrTd = append(o.TdQuoteBodyOptions.AnyMrTd, e)
					}
					return o
				}},
				{"anymrtd-40-entries-descending+rtmrs-descending", func() *validate.Options {
					o := &validate.Options{}
					for i := 0; i < 40; i++ {
						e := bytes.Repeat([]byte{byte(0xf0 - 3*i)}, 48)
						o.TdQuoteBodyOptions.AnyMrTd = append(o.TdQuoteBodyOptions.AnyMrTd, e)
					}
					o.TdQuoteBodyOptions.AnyMrTd = append(o.TdQuoteBodyOptions.AnyMrTd, append([]byte(nil), raw0[48+136:48+184]...))
					o.TdQuoteBodyOptions.Rtmrs = [][]byte{regs(0), regs(1), regs(2), regs(3)}
					return o
				}},
				{"anymrtd-wrong-length-entries-among-good-ones", func() *validate.Options {
					o := &validate.Options{}
					mr := append([]byte(nil), raw0[48+136:48+184]...)
					o.TdQuoteBodyOptions.AnyMrTd = [][]byte{world.Fill("c16-a", 48), world.Fill("c16-short", 32), world.Fill("c16-c", 48), mr, world.Fill("c16-long", 64), world.Fill("c16-d", 48)}
					return o
				}},
				{"anymrtd-wrong-length-entry-first", func() *validate.Options {
					o := &validate.Options{}
					o.TdQuoteBodyOptions.AnyMrTd = [][]byte{world.Fill("c16-short", 47), world.Fill("c16-c", 48), append([]byte(nil), raw0[48+136:48+184]...), {}}
					return o
				}},
				{"rtmrs-wrong-length-entries", func() *validate.Options {
					o := &validate.Options{}
					o.TdQuoteBodyOptions.Rtmrs = [][]byte{regs(0)[:47], regs(1), append(regs(2), 0), regs(3)}
					return o
				}},
				{"rtmrs-three-and-five-entries", func() *validate.Options {
					o := &validate.Options{}
					o.TdQuoteBodyOptions.Rtmrs = [][]byte{regs(0), regs(1), regs(2), regs(3), regs(0)}
					o.TdQuoteBodyOptions.AnyMrTd = [][]byte{nil, nil, world.Fill("c16-e", 48)}
					return o
				}},
				{"everything-empty-non-nil", func() *validate.Options {
					o := &validate.Options{}
					for _, f := range optFields {
						f.set(o, make([]byte, 0, 8))
					}
					o.TdQuoteBodyOptions.MinimumTeeTcbSvn = make([]byte, 0, 16)
					o.TdQuoteBodyOptions.Rtmrs, o.TdQuoteBodyOptions.AnyMrTd = make([][]byte, 0, 4), make([][]byte, 0, 4)
					return o
				}},
			}
			// one option at a time holding a PREFIX of the right value (a half, three quarters, all but 16 bytes of it) in
			// a buffer that continues with the rest of the value and further bytes: room to "complete" it in place
			for _, f := range optFields {
				for _, k := range []int{f.len / 2, 3 * f.len / 4, f.len - 16} {
					if k <= 0 || k >= f.len {
						continue
					}
					f, k := f, k
					voShapes = append(voShapes, voShape{fmt.Sprintf("%s-prefix-of-%d-bytes-with-room-behind", f.name, k), func() *validate.Options {
						o := &validate.Options{}
						buf := make([]byte, 0, f.len+32)
						buf = append(buf, raw0[f.off:f.off+f.len]...)
						buf = append(buf, bytes.Repeat([]byte{0xa5}, 32)...)
						f.set(o, buf[:k])
						return o
					}})
				}
			}
			// one option at a time holding the right value in ANOTHER byte order (GUID mixed-endian, reversed): a mismatch
			// to be reported, never something to put right in the caller's bytes
			for _, f := range optFields {
				for _, mode := range []string{"guid-mixed-endian", "reversed"} {
					f, mode := f, mode
					voShapes = append(voShapes, voShape{fmt.Sprintf("%s-in-%s-order", f.name, mode), func() *validate.Options {
						o := &validate.Options{}
						v := append(make([]byte, 0, f.len+16), raw0[f.off:f.off+f.len]...)
						rev := func(x []byte) {
							for i, j := 0, len(x)-1; i < j; i, j = i+1, j-1 {
								x[i], x[j] = x[j], x[i]
							}
						}
						if mode == "reversed" {
							rev(v)
						} else if len(v) >= 8 {
							rev(v[0:4])
							rev(v[4:6])
							rev(v[6:8])
						}
						f.set(o, v)
						return o
					}})
				}
			}
			copyOpts := func(o *validate.Options) *validate.Options {
				cb := func(b []byte) []byte {
					if b == nil {
						return nil
					}
					return append([]byte{}, b...)
				}
				cl := func(l [][]byte) [][]byte {
					if l == nil {
						return nil
					}
					out := make([][]byte, len(l))
					for i := range l {
						out[i] = cb(l[i])
					}
					return out
				}
				c := *o
				c.HeaderOptions.QeVendorID = cb(o.HeaderOptions.QeVendorID)
				t, s := &c.TdQuoteBodyOptions, &o.TdQuoteBodyOptions
				t.MinimumTeeTcbSvn, t.MrSeam, t.TdAttributes, t.Xfam, t.MrTd = cb(s.MinimumTeeTcbSvn), cb(s.MrSeam), cb(s.TdAttributes), cb(s.Xfam), cb(s.MrTd)
				t.MrConfigID, t.MrOwner, t.MrOwnerConfig, t.ReportData = cb(s.MrConfigID), cb(s.MrOwner), cb(s.MrOwnerConfig), cb(s.ReportData)
				t.Rtmrs, t.AnyMrTd = cl(s.Rtmrs), cl(s.AnyMrTd)
				return &c
			}
			for _, vs := range voShapes {
				for _, opName := range []string{"validate.TdxQuote", "validate.RawTdxQuote"} {
					id := "write/options=" + vs.name + "/" + opName + lvlTag
					if !r.Want(id) {
						continue
					}
					q, _ := safeToProto(raw0)
					raw := append([]byte(nil), raw0...)
					vo := vs.mk()
					before := copyOpts(vo)
					ar, aerr := memwatch.New(1 << 21)
					if aerr != nil {
						r.HarnessError("C16: cannot map the arena: %v", aerr)
						return
					}
					if _, rerr := ar.Rehome(q, &raw, vo); rerr != nil {
						r.HarnessError("C16: %v", rerr)
						ar.Free()
						return
					}
					out := "unchanged"
					fault, _ := ar.Guard(func() {
						if opName == "validate.TdxQuote" {
							validate.TdxQuote(q, vo)
						} else {
							validate.RawTdxQuote(raw, vo)
						}
					})
					switch {
					case fault != nil:
						site := faultSite(fault.Stack)
						r.Violate("write:"+opName+":"+site, id, opName+" writes to memory reachable from the quote / raw input / options: store faulted in "+site, map[string]any{"stack": trimStack(fault.Stack)})
						out = "WRITE@" + site
					case !reflect.DeepEqual(copyOpts(vo), before):
						r.Violate("write:options-value:"+opName, id, fmt.Sprintf("%s changed the caller's options value (option shape %s): %+v became %+v", opName, vs.name, before.TdQuoteBodyOptions, vo.TdQuoteBodyOptions), nil)
						out = "options-changed"
					}
					ar.Free()
					r.Eval(id, true, "write:"+out)
				}
			}
		}
	}
	world.SetLogLevel(0)
	// raw inputs of other shapes: the quote as text (base64 in three alphabets, hex, with a line feed), with bytes in
	// front of or behind it, doubled, with spare capacity: whatever a raw entry point makes of its input, it reads it
	{
		b64 := base64.StdEncoding.EncodeToString(raw0)
		shapes := []struct {
			name string
			b    []byte
		}{{"base64-std", []byte(b64)}, {"base64-std+LF", []byte(b64 + "\n")}, {"base64-url", []byte(base64.URLEncoding.EncodeToString(raw0))}, {"base64-raw-std", []byte(base64.RawStdEncoding.EncodeToString(raw0))},
			{"base64-in-lines-of-76", []byte(func() string {
				var sb strings.Builder
				for i := 0; i < len(b64); i += 76 {
					e := i + 76
					if e > len(b64) {
						e = len(b64)
					}
					sb.WriteString(b64[i:e] + "\r\n")
				}
				return sb.String()
			}())},
			{"hex-text", []byte(hexs(raw0))}, {"hex-text-upper+LF", []byte(strings.ToUpper(hexs(raw0)) + "\n")}, {"0x+hex-text", []byte("0x" + hexs(raw0))},
			{"pem-like", []byte("-----BEGIN TDX QUOTE-----\n" + b64 + "\n-----END TDX QUOTE-----\n")}, {"json-string", []byte(`{"quote":"` + b64 + `"}`)},
			{"quote+4096-zero-bytes", append(append([]byte{}, raw0...), make([]byte, 4096)...)}, {"quote-twice", append(append([]byte{}, raw0...), raw0...)},
			{"binary-with-room-behind", append(make([]byte, 0, len(raw0)+8192), raw0...)}}
		for _, sh := range shapes {
			for _, opName := range []string{"verify.RawTdxQuote", "validate.RawTdxQuote", "abi.QuoteToProto"} {
				id := "write/raw-input=" + sh.name + "/" + opName
				if !r.Want(id) {
					continue
				}
				raw := append(make([]byte, 0, cap(sh.b)), sh.b...)
				keep := append([]byte(nil), raw[:cap(raw)]...)
				vo := c16ValidateOpts(raw0)
				ar, aerr := memwatch.New(1 << 21)
				if aerr != nil {
					r.HarnessError("C16: cannot map the arena: %v", aerr)
					return
				}
				if _, rerr := ar.Rehome(&pb.QuoteV4{}, &raw, vo); rerr != nil {
					r.HarnessError("C16: %v", rerr)
					ar.Free()
					return
				}
				out := "unchanged"
				fault, _ := ar.Guard(func() {
					switch opName {
					case "verify.RawTdxQuote":
						verify.RawTdxQuote(raw, w.Options(world.L0))
					case "validate.RawTdxQuote":
						validate.RawTdxQuote(raw, vo)
					default:
						abi.QuoteToProto(raw)
					}
				})
				switch {
				case fault != nil:
					site := faultSite(fault.Stack)
					r.Violate("write:raw-input:"+opName+":"+site, id, opName+" writes to its raw input ("+sh.name+"): store faulted in "+site, map[string]any{"stack": trimStack(fault.Stack)})
					out = "WRITE@" + site
				case !bytes.Equal(raw[:cap(raw)], keep):
					r.Violate("write:raw-input-changed:"+opName, id, opName+" changed its raw input ("+sh.name+")", nil)
					out = "changed"
				}
				ar.Free()
				r.Eval(id, true, "write-raw:"+out)
			}
		}
	}
	// aliasing: a parsed quote shares no memory with its input
	{
		id := "alias/parsed-vs-input"
		if r.Want(id) {
			in := append([]byte(nil), raw0...)
			q, _ := safeToProto(in)
			snap := proto.Clone(q)
			lo := uintptr(unsafe.Pointer(&in[0]))
			hi := lo + uintptr(cap(in))
			overlap := ""
			var walk func(v reflect.Value, path string)
			walk = func(v reflect.Value, path string) {
				switch v.Kind() {
				case reflect.Ptr:
					if !v.IsNil() {
						walk(v.Elem(), path)
					}
				case reflect.Struct:
					for i := 0; i < v.NumField(); i++ {
						if f := v.Field(i); f.CanSet() {
							walk(f, path+"."+v.Type().Field(i).Name)
						}
					}
				case reflect.Slice:
					if v.Type().Elem().Kind() == reflect.Uint8 {
						if v.Cap() > 0 && v.Pointer() < hi && v.Pointer()+uintptr(v.Cap()) > lo {
							overlap = path
						}
						return
					}
					for i := 0; i < v.Len(); i++ {
						walk(v.Index(i), path)
					}
				}
			}
			walk(reflect.ValueOf(q), "QuoteV4")
			for i := range in {
				in[i] ^= 0xff
			}
			out := "independent"
			if overlap != "" {
				r.Violate("alias:overlap", id, "a field of the parsed quote ("+overlap+") points into the input buffer", nil)
				out = "overlap"
			} else if !proto.Equal(q, snap) {
				r.Violate("alias:changed", id, "overwriting the input buffer after parsing changed the parsed quote", nil)
				out = "changed"
			}
			r.Eval(id, true, "alias:"+out)
		}
	}
	// (ii) schedules
	if strings.Contains(os.Getenv("VERIF_OVERLAY"), "yield") {
		c16Schedules(r, w, raw0)
	} else {
		r.HarnessError("C16 part (ii) must run in the binary built with the yield-point overlay (run.sh does that)")
	}
	// (iii) free-running race pass
	c16RacePass(r)
}

func firstWord(s string) string {
	if i := strings.IndexAny(s, ":/ "); i > 0 && !strings.HasPrefix(s, "WRITE") {
		return s[:i]
	}
	return s
}

func faultSite(stack string) string {
	for _, line := range strings.Split(stack, "\n") {
		if m := frameRe.FindStringSubmatch(line); m != nil {
			return m[1]
		}
	}
	return "outside-library"
}

func trimStack(s string) string {
	if len(s) > 2500 {
		return s[:2500] + "…"
	}
	return s
}

type c16thread struct {
	name string
	fn   func(q *pb.QuoteV4) string
}

func c16Schedules(r *mc.Run, w *world.World, raw0 []byte) {
	vo := c16ValidateOpts(raw0)
	o2roots := world.Pool(world.CachedPKI("F").Root)
	threads := []c16thread{
		{"verify(q,L0)", func(q *pb.QuoteV4) string { return res(verify.TdxQuote(q, w.Options(world.L0))) }},
		{"validate(q)", func(q *pb.QuoteV4) string { return res(validate.TdxQuote(q, vo)) }},
		{"serialise+extract(q)", func(q *pb.QuoteV4) string {
			b, e := abi.QuoteToAbiBytes(q)
			_, e2 := verify.ExtractChainFromQuote(q)
			return fmt.Sprintf("%s/%x/%s", res(e), sha(b), res(e2))
		}},
		{"verify(q,L1,other-roots)", func(q *pb.QuoteV4) string {
			o := w.Options(world.L1)
			o.TrustedRoots = o2roots
			return res(verify.TdxQuote(q, o))
		}},
		{"verify(q,L2)", func(q *pb.QuoteV4) string { return res(verify.TdxQuote(q, w.Options(world.L2))) }},
	}
	newQ := func() (*pb.QuoteV4, *memwatch.Arena) {
		q, _ := safeToProto(raw0)
		ar, err := memwatch.New(1 << 21)
		if err != nil {
			return q, nil
		}
		ar.Rehome(q)
		return q, ar
	}
	// baselines: each thread alone
	base := make([]string, len(threads))
	for i, t := range threads {
		q, ar := newQ()
		base[i] = t.fn(q)
		if ar != nil {
			ar.Free()
		}
	}
	var subsets [][]int
	for a := 0; a < len(threads); a++ {
		for b := a + 1; b < len(threads); b++ {
			subsets = append(subsets, []int{a, b})
		}
	}
	subsets = append(subsets, []int{0, 0}) // the same call twice
	triples := [][]int{{0, 1, 2}, {0, 2, 3}, {0, 1, 4}}
	bound := 1
	if r.Thorough() {
		bound = 2
		for a := 0; a < len(threads); a++ {
			for b := a + 1; b < len(threads); b++ {
				for c := b + 1; c < len(threads); c++ {
					if !(a == 0 && b == 1 && c == 2) && !(a == 0 && b == 2 && c == 3) && !(a == 0 && b == 1 && c == 4) {
						triples = append(triples, []int{a, b, c})
					}
				}
			}
		}
	}
	runSet := func(set []int, bound int) {
		var names []string
		for _, i := range set {
			names = append(names, threads[i].name)
		}
		sname := "sched/" + strings.Join(names, "|")
		r.ExploreSerial(sname, bound, func(c *mc.Ctx) {
			q, ar := newQ()
			if ar == nil {
				r.HarnessError("C16: cannot map the arena")
				return
			}
			defer ar.Free()
			results := make([]string, len(set))
			var fns []func()
			for k, i := range set {
				k, i := k, i
				fns = append(fns, func() {
					debug.SetPanicOnFault(true)
					results[k] = threads[i].fn(q)
				})
			}
			s := &vsched.Sched{MaxSteps: 20000, Choose: func(label string, n int, free bool) int {
				if free {
					return c.Free("switch", n)
				}
				return c.Choose("preempt", n)
			}}
			ar.Protect()
			ok := s.Run(fns)
			ar.Unprotect()
			id := sname + "/" + schedID(c)
			if !r.Want(id) {
				return
			}
			out := "same-as-alone"
			if !ok {
				r.Violate("sched:livelock", id, "the schedule did not finish within the step horizon", nil)
				out = "livelock"
			}
			for k, i := range set {
				if p := s.Panics[k]; p != nil {
					ps := fmt.Sprint(p)
					site := faultSite(ps)
					r.Violate("sched:fault:"+threads[i].name+":"+site, id, threads[i].name+" faults / panics under this schedule in "+site+" (store into the shared quote, or crash)", map[string]any{"panic": trimStack(ps), "schedule": s.Trace})
					out = "fault"
				} else if results[k] != base[i] {
					r.Violate("sched:verdict-differs:"+threads[i].name, id, fmt.Sprintf("%s returns %q under this schedule but %q when run alone", threads[i].name, results[k], base[i]), map[string]any{"schedule": s.Trace})
					out = "differs"
				}
			}
			r.Eval(id, c.Deviations() > 0, "sched:"+out)
		})
	}
	for _, s := range subsets {
		runSet(s, bound)
	}
	for _, s := range triples {
		runSet(s, bound)
	}
}

func schedID(c *mc.Ctx) string {
	var parts []string
	for i, p := range c.Trace() {
		if p.Choice != 0 {
			parts = append(parts, fmt.Sprintf("%d:%d", i, p.Choice))
		}
	}
	if len(parts) == 0 {
		return "no-switch"
	}
	return strings.Join(parts, ",")
}

func sha(b []byte) []byte {
	h := hashOf(string(b))
	return []byte{byte(h), byte(h >> 8), byte(h >> 16), byte(h >> 24)}
}

// RaceBodies is run by the -race build (free-running, no scheduler): the same
// operations, concurrently, on shared messages that live on the ordinary Go heap.
func RaceBodies(reps int) {
	w := world.Honest("T")
	w.Spec.Extra = world.Fill("c16-extra", 24)
	w.Spec.NulAfter = true
	w.Parts = w.Spec.Parts()
	raw0 := w.Raw()
	vo := c16ValidateOpts(raw0)
	parsed, _ := safeToProto(raw0)
	builds := []func() *pb.QuoteV4{
		func() *pb.QuoteV4 { q, _ := safeToProto(raw0); return q },
		func() *pb.QuoteV4 { return c16Rebuild(parsed, 4096) },
		func() *pb.QuoteV4 { return c16Rebuild(parsed, 0) },
	}
	// calls that reach package-level state built on first use (embedded root, default options, the genuine sample
	// under no pool at all): nothing of that kind has run in this process before the first concurrent round
	sample := append([]byte(nil), testdata.RawQuote...)
	sampleAt := world.TimeSetAt(intelRefTime)
	nilRoots := func() *verify.Options { n := sampleAt; return &verify.Options{Now: &n} }
	for rep := 0; rep < reps; rep++ {
		for _, b := range builds {
			q := b()
			raw := append([]byte(nil), raw0...)
			var wg sync.WaitGroup
			bodies := []func(){
				func() { verify.RawTdxQuote(sample, nilRoots()) },
				func() { verify.RawTdxQuote(sample, nilRoots()) },
				func() { verify.TdxQuote(q, nilRoots()) },
				func() {
					o := verify.DefaultOptions()
					n := sampleAt
					o.Now = &n
					o.Getter = w.Getter.Clone()
					verify.TdxQuote(q, o)
				},
				func() { verify.TdxQuote(q, w.Options(world.L0)) },
				func() { verify.TdxQuote(q, w.Options(world.L2)) },
				func() { verify.TdxQuote(q, w.Options(world.L1)) },
				func() { validate.TdxQuote(q, vo) },
				func() { validate.TdxQuote(q, vo) },
				func() { abi.QuoteToAbiBytes(q) },
				func() { verify.ExtractChainFromQuote(q) },
				func() { rtmr.GetRtmrsFromTdQuote(q) },
				func() { verify.RawTdxQuote(raw, w.Options(world.L0)) },
				func() { validate.RawTdxQuote(raw, vo) },
				func() { abi.QuoteToProto(raw) },
			}
			for _, f := range bodies {
				wg.Add(1)
				f := f
				go func() { defer wg.Done(); f() }()
			}
			wg.Wait()
		}
	}
}

func c16RacePass(r *mc.Run) {
	bin := os.Getenv("VERIF_RACE_BIN")
	if bin == "" {
		r.Set("race_pass", "skipped: no -race build available (VERIF_RACE_BIN unset)")
		r.Cap("free-running race pass skipped")
		return
	}
	if !r.Want("race/free-running") {
		return
	}
	cmd := exec.Command(bin, "C16race", "20")
	cmd.Env = append(os.Environ(), "GORACE=halt_on_error=0 exitcode=66")
	var stderr bytes.Buffer
	cmd.Stderr = &stderr
	err := cmd.Run()
	reports := strings.Count(stderr.String(), "WARNING: DATA RACE")
	r.Set("race_pass", map[string]any{"runs": 20 * 3, "goroutines_per_run": 15, "reports": reports})
	out := "no-race"
	if reports > 0 {
		site := "?"
		for _, line := range strings.Split(stderr.String(), "\n") {
			if m := frameRe.FindStringSubmatch(line); m != nil {
				site = m[1]
				break
			}
		}
		r.Violate("race:"+site, "race/free-running", fmt.Sprintf("the race detector reports %d data race(s) between concurrent verify / validate / serialise / extract calls on one quote (first in %s)", reports, site),
			map[string]any{"report": trimStack(stderr.String())})
		out = "race"
	} else if err != nil {
		r.HarnessError("C16 race pass failed to run: %v: %s", err, trimStack(stderr.String()))
	}
	r.Eval("race/free-running", true, "race:"+out)
}
