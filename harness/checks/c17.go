package checks

import (
	"bytes"
	"crypto"
	_ "crypto/md5"
	_ "crypto/sha1"
	_ "crypto/sha256"
	"crypto/sha512"
	"encoding/base64"
	"fmt"
	"math"
	"sort"
	"strings"

	"github.com/google/go-tdx-guest/rtmr"
	_ "golang.org/x/crypto/blake2b"
	_ "golang.org/x/crypto/sha3"

	"verifharness/mc"
	"verifharness/world"
)

func init() {
	mc.Register(&mc.Check{ID: "C17", Category: "model_checking",
		Rule:   "explicit-state BFS: a state is the model TSM reached by a history of requests replayed through the real rtmr.ExtendDigestClient / ExtendEventLogClient; alphabet = 90 digest requests (index in {MinInt,-1,0..5,MaxInt} x length {0,47,48,49,64} x content {A,B}) + 72 event-log requests (index {-1,0..4} x hash {SHA-384,SHA-256,SHA-512,0} x log {empty,x,y}); initial states = 16 subsets of pre-bound indices x {no distractor, plain file, entry with empty index, entry with garbage index}; canonical key = registers + index->entry binding by creation order. Non-trivial: every transition (each is judged); distinct by (initial state, history)",
		Assume: []string{"the kernel's configfs-tsm rtmrs subsystem is modelled (harness/world/tsm.go): one entry per index, EBUSY otherwise, digest write = SHA-384 extend", "merging states with equal registers and bindings is sound: the library keeps no state of its own between requests (a history-dependent library would be exposed by the differential register check at every transition)"},
		Run:    runC17})
}

type c17op struct {
	name   string
	valid  bool
	index  int
	digest []byte // the digest that must reach the register when valid
	call   func(t *world.TSM, b *c17bufs) error
}

// c17Hashes: SHA-384 first (the valid one), then every other crypto.Hash identifier including the
// other algorithms with a 48-byte output (SHA3-384, BLAKE2b-384, linked into the harness on purpose)
// and out-of-range identifiers.
func c17Hashes() []crypto.Hash {
	out := []crypto.Hash{crypto.SHA384}
	for h := crypto.Hash(0); h <= 21; h++ {
		if h != crypto.SHA384 {
			out = append(out, h)
		}
	}
	return append(out, 255)
}

// c17Logs: the empty log (invalid) and non-empty ones — among them logs made only of white space or NUL octets:
// a log of one line feed is a log of one octet.
var c17Logs = []string{"", "event-x", "event-y", "\n", " \t \r\n", "\x00"}

func c17Alphabet() []c17op {
	var ops []c17op
	a := world.Fill("digest-A", 64)
	b := world.Fill("digest-B", 64)
	for _, idx := range []int{math.MinInt, -1, 0, 1, 2, 3, 4, 5, math.MaxInt} {
		for _, ln := range []int{0, 47, 48, 49, 64} {
			for ci, content := range [][]byte{a, b} {
				idx, ln, ci, d := idx, ln, ci, append([]byte(nil), content[:ln]...)
				ops = append(ops, c17op{name: fmt.Sprintf("digest(idx=%d,len=%d,%c)", idx, ln, 'A'+ci), valid: idx >= 0 && idx <= 3 && ln == 48, index: idx, digest: d,
					call: func(t *world.TSM, b *c17bufs) error { return rtmr.ExtendDigestClient(t, idx, b.digest(ci, ln)) }})
			}
		}
	}
	// digests far outside the 48 bytes: the printed (hex) form of a digest, in either case, with a line feed, 96 zero
	// bytes, 128 bytes — only 48 bytes are a digest
	for _, idx := range []int{0, 3} {
		for _, dv := range []struct {
			name string
			b    []byte
		}{
			{"hex-text-of-A(96)", []byte(hexs(a[:48]))}, {"HEX-TEXT-of-A(96)", []byte(strings.ToUpper(hexs(a[:48])))}, {"hex-text-of-A+LF(97)", []byte(hexs(a[:48]) + "\n")},
			{"space+hex-text-of-A(97)", []byte(" " + hexs(a[:48]))}, {"0x+hex-text(98)", []byte("0x" + hexs(a[:48]))}, {"96-zero-bytes", make([]byte, 96)}, {"128-bytes", append(append([]byte{}, a...), b...)},
			{"base64-text-of-A(64)", []byte(base64.StdEncoding.EncodeToString(a[:48]))},
			// no digest at all: a nil slice (the zero-length digests above are empty windows of the caller's buffer, not nil)
			{"nil", nil},
		} {
			idx, dv := idx, dv
			ops = append(ops, c17op{name: fmt.Sprintf("digest(idx=%d,%s)", idx, dv.name), valid: false, index: idx, digest: dv.b,
				call: func(t *world.TSM, _ *c17bufs) error {
					if dv.b == nil {
						return rtmr.ExtendDigestClient(t, idx, nil)
					}
					return rtmr.ExtendDigestClient(t, idx, append([]byte(nil), dv.b...))
				}})
		}
	}
	// 48-byte digests whose CONTENT looks special: the digest of no data, all zero, printable hex digits only (further
	// ones in the single-request section below). A digest is a digest
	for _, idx := range []int{1} {
		e0 := sha512.Sum384(nil)
		for _, dv := range []struct {
			name string
			b    []byte
		}{{"sha384-of-nothing", e0[:]}, {"all-zero", make([]byte, 48)}, {"48-hex-digits-as-text", []byte(hexs(a[:24]))}} {
			idx, dv := idx, dv
			ops = append(ops, c17op{name: fmt.Sprintf("digest(idx=%d,len=48,%s)", idx, dv.name), valid: true, index: idx, digest: dv.b,
				call: func(t *world.TSM, _ *c17bufs) error {
					return rtmr.ExtendDigestClient(t, idx, append([]byte(nil), dv.b...))
				}})
		}
	}
	// a nil event log (the empty logs below are empty windows of the caller's buffer, not nil)
	for _, idx := range []int{0, 3} {
		idx := idx
		ops = append(ops, c17op{name: fmt.Sprintf("eventlog(idx=%d,hash=SHA-384,log=nil)", idx), valid: false, index: idx,
			call: func(t *world.TSM, _ *c17bufs) error { return rtmr.ExtendEventLogClient(t, idx, crypto.SHA384, nil) }})
	}
	for _, idx := range []int{-1, 0, 1, 2, 3, 4} {
		for _, h := range c17Hashes() {
			for li, lg := range c17Logs {
				if li >= 3 && (h != crypto.SHA384 || (idx != 0 && idx != 3)) {
					continue // the white-space logs with the valid algorithm only (they are about what counts as empty)
				}
				idx, h, lg := idx, h, lg
				sum := sha512.Sum384([]byte(lg))
				ops = append(ops, c17op{name: fmt.Sprintf("eventlog(idx=%d,hash=%d,log=%q)", idx, h, lg), valid: idx >= 0 && idx <= 3 && h == crypto.SHA384 && lg != "", index: idx, digest: sum[:],
					call: func(t *world.TSM, b *c17bufs) error { return rtmr.ExtendEventLogClient(t, idx, h, b.log(lg)) }})
			}
		}
	}
	return ops
}

type c17init struct {
	name  string
	build func() *world.TSM
}

func c17Inits() []c17init {
	var out []c17init
	for mask := 0; mask < 16; mask++ {
		for di, dn := range []string{"none", "file", "empty-index", "garbage-index"} {
			mask, di := mask, di
			out = append(out, c17init{fmt.Sprintf("prebound=%04b,distractor=%s", mask, dn), func() *world.TSM {
				t := world.NewTSM()
				switch di {
				case 1:
					t.Files["aaa-plain-file"] = true
				case 2:
					t.Precreate("aaa-unbound", -1, "")
				case 3:
					t.Precreate("aaa-garbage", -1, "not-a-number\n")
				}
				for i := 0; i < 4; i++ {
					if mask&(1<<i) != 0 {
						t.Precreate(fmt.Sprintf("someone-elses-%c", 'z'-i), i, "")
					}
				}
				return t
			}})
		}
	}
	// how the pre-bound entries are named: the name of an entry says nothing, its index attribute binds it.
	// Names in the library's own creation pattern ("rtmr<digit>-<digits>") for the index the entry is bound
	// to, for the next index, and for the reversed index; and names that sort after / look like attribute names
	namings := []struct {
		name string
		of   func(i int) string
	}{
		{"own-pattern", func(i int) string { return fmt.Sprintf("rtmr%d-%d", i, 1234567+i) }},
		{"pattern-of-next-index", func(i int) string { return fmt.Sprintf("rtmr%d-%d", (i+1)%4, 7654321+i) }},
		{"pattern-of-reversed-index", func(i int) string { return fmt.Sprintf("rtmr%d-%d", 3-i, 42+i) }},
		{"attribute-like", func(i int) string { return []string{"index", "digest", "tcg_map", "rtmr"}[i] }},
	}
	for mask := 1; mask < 16; mask++ {
		for _, nm := range namings {
			mask, nm := mask, nm
			out = append(out, c17init{fmt.Sprintf("prebound=%04b,names=%s", mask, nm.name), func() *world.TSM {
				t := world.NewTSM()
				for i := 0; i < 4; i++ {
					if mask&(1<<i) != 0 {
						t.Precreate(nm.of(i), i, "")
					}
				}
				return t
			}})
		}
	}
	return out
}

func runC17(r *mc.Run) {
	ops := c17Alphabet()
	inits := c17Inits()
	depthAll, depthDeep := 2, 3
	deepInits := []int{0, 1, 2, 3, 5 * 4, 15 * 4, 10*4 + 3}
	if r.Thorough() {
		depthAll, depthDeep = 3, 4
	}
	run := func(ii int, depth int) {
		in := inits[ii]
		r.BFS("bfs/"+in.name, depth, len(ops), func(hist []int) (string, bool) {
			t := in.build()
			bufs := newC17bufs()
			var ref [4][48]byte
			for step, oi := range hist {
				op := ops[oi]
				before := len(t.Log)
				boundBefore := ""
				if op.index >= 0 && op.index <= 3 {
					boundBefore = t.EntryFor(op.index)
				}
				var err error
				func() { defer world.Recover(&err); err = op.call(t, bufs) }()
				if last := step == len(hist)-1; last && !bufs.intact() {
					r.Violate("caller-buffer-changed:"+opKind(op), "hist/"+in.name+"/"+histName(ops, hist), "the request wrote into the caller's buffer (the event log / digest it was handed, or the bytes behind it)", map[string]any{"history": histNames(ops, hist)})
				}
				if op.valid && err == nil {
					h := sha512.New384()
					h.Write(ref[op.index][:])
					h.Write(op.digest)
					copy(ref[op.index][:], h.Sum(nil))
				}
				if step != len(hist)-1 {
					continue
				}
				// oracle on the last transition
				id := "hist/" + in.name + "/" + histName(ops, hist)
				if !r.Want(id) {
					return t.Key(), true
				}
				delta := t.Log[before:]
				out := c17Judge(r, id, op, err, delta, boundBefore, t)
				if t.Regs != ref {
					r.Violate("register-differs-from-extend-chain:"+opKind(op), id, "a register does not equal the SHA-384 extend chain of the accepted digests for its index", map[string]any{"history": histNames(ops, hist)})
					out = "bad-register"
				}
				r.Eval(id, true, opKind(op)+":"+out)
			}
			return t.Key(), true
		})
	}
	for ii := range inits {
		run(ii, depthAll)
	}
	for _, ii := range deepInits {
		run(ii, depthDeep)
	}
	// index sweep: every index in -300..300 and every 2^k+j / -(2^k)+j (k = 0..63, j = -1..3): only 0..3 are
	// valid, whatever the width or signedness the comparison is carried out in
	{
		idxSet := map[int]bool{}
		for i := -300; i <= 300; i++ {
			idxSet[i] = true
		}
		for k := 0; k < 64; k++ {
			for j := -1; j <= 3; j++ {
				idxSet[int(uint64(1)<<uint(k))+j] = true
				idxSet[-int(uint64(1)<<uint(k))+j] = true
			}
		}
		var idxs []int
		for i := range idxSet {
			idxs = append(idxs, i)
		}
		sort.Ints(idxs)
		d := world.Fill("digest-A", 48)
		done := r.Parallel(len(idxs)*2, func(n int) {
			idx, viaLog := idxs[n/2], n%2 == 1
			op := c17op{name: fmt.Sprintf("digest(idx=%d,len=48,A)", idx), valid: idx >= 0 && idx <= 3, index: idx, digest: d}
			if viaLog {
				sum := sha512.Sum384([]byte("event-x"))
				op = c17op{name: fmt.Sprintf("eventlog(idx=%d,hash=SHA-384,log=event-x)", idx), valid: idx >= 0 && idx <= 3, index: idx, digest: sum[:]}
			}
			id := "index-sweep/" + op.name
			if !r.Want(id) {
				return
			}
			t := world.NewTSM()
			var err error
			func() {
				defer world.Recover(&err)
				if viaLog {
					err = rtmr.ExtendEventLogClient(t, idx, crypto.SHA384, []byte("event-x"))
				} else {
					err = rtmr.ExtendDigestClient(t, idx, d)
				}
			}()
			out := c17Judge(r, id, op, err, t.Log, "", t)
			var want [4][48]byte
			if op.valid && err == nil {
				h := sha512.New384()
				h.Write(want[idx][:])
				h.Write(op.digest)
				copy(want[idx][:], h.Sum(nil))
			}
			if t.Regs != want {
				r.Violate("register-differs-from-extend-chain:index-sweep", id, "after one request a register does not equal the SHA-384 extend chain of the accepted digests for its index", nil)
				out = "bad-register"
			}
			r.Eval(id, true, "index-sweep:"+out)
		})
		r.SectionDone(mc.Section{Name: "index-sweep", Evaluations: int64(done), Exhaustive: done == len(idxs)*2, Note: fmt.Sprintf("%d indices x {digest, event log}", len(idxs))})
	}
	// event log sizes: whatever its length, the log is measured whole — SHA-384 of all of it is what gets extended
	// (lengths around block sizes, powers of two and the megabyte range; twin logs that differ in the last byte only)
	{
		sizes := []int{1, 47, 48, 49, 63, 64, 65, 111, 112, 127, 128, 129, 255, 256, 257, 4095, 4096, 4097, 65535, 65536, 65537,
			1<<20 - 1, 1 << 20, 1<<20 + 1, 1<<20 + 4096, 3 << 20, 1<<24 + 1}
		if r.Thorough() {
			sizes = append(sizes, 1<<26+1, 1<<28+3)
		}
		done := r.Parallel(len(sizes)*2, func(n int) {
			size, twin := sizes[n/2], n%2 == 1
			id := fmt.Sprintf("event-log-size/%d/last-byte-flipped=%v", size, twin)
			if !r.Want(id) {
				return
			}
			lg := make([]byte, size, size+96) // room behind the log: a request must not write there either
			for i := range lg {
				lg[i] = byte(i*7 + i>>8 + i>>16)
			}
			if twin {
				lg[size-1] ^= 0x01
			}
			sum := sha512.Sum384(lg)
			keep := append([]byte(nil), lg[:cap(lg)]...)
			op := c17op{name: fmt.Sprintf("eventlog(idx=2,hash=SHA-384,len=%d)", size), valid: true, index: 2, digest: sum[:]}
			t := world.NewTSM()
			var err error
			func() { defer world.Recover(&err); err = rtmr.ExtendEventLogClient(t, 2, crypto.SHA384, lg) }()
			out := c17Judge(r, id, op, err, t.Log, "", t)
			var want [4][48]byte
			if err == nil {
				h := sha512.New384()
				h.Write(want[2][:])
				h.Write(sum[:])
				copy(want[2][:], h.Sum(nil))
			}
			if !bytes.Equal(keep, lg[:cap(lg)]) {
				r.Violate("caller-buffer-changed:event-log-size", id, "extending an event log wrote into the caller's buffer", map[string]any{"log_bytes": size})
				out = "buffer-changed"
			}
			if t.Regs != want {
				r.Violate("register-differs-from-extend-chain:event-log-size", id, "after extending an event log the register is not the extend chain of SHA-384(whole log)", map[string]any{"log_bytes": size})
				out = "bad-register"
			}
			r.Eval(id, true, "event-log-size:"+out)
		})
		r.SectionDone(mc.Section{Name: "event-log-sizes", Evaluations: int64(done), Exhaustive: done == len(sizes)*2, Note: fmt.Sprintf("%d lengths x {log, twin with the last byte flipped}", len(sizes))})
	}
	// single valid requests with digests whose content looks special, on every register
	{
		e1, e2 := sha512.Sum384([]byte("\n")), sha512.Sum384(make([]byte, 48))
		specials := []struct {
			name string
			b    []byte
		}{{"sha384-of-LF", e1[:]}, {"sha384-of-48-zero-bytes", e2[:]}, {"all-ff", bytes.Repeat([]byte{0xff}, 48)}, {"48-spaces", bytes.Repeat([]byte{' '}, 48)},
			{"48-NUL-then-nothing", make([]byte, 48)}, {"text-with-LF-at-the-end", append(bytes.Repeat([]byte{'a'}, 47), '\n')}, {"starts-with-0x", append([]byte("0x"), bytes.Repeat([]byte{'1'}, 46)...)}}
		for idx := 0; idx < 4; idx++ {
			for _, sp := range specials {
				id := fmt.Sprintf("special-digest/idx=%d/%s", idx, sp.name)
				if !r.Want(id) {
					continue
				}
				op := c17op{name: fmt.Sprintf("digest(idx=%d,len=48,%s)", idx, sp.name), valid: true, index: idx, digest: sp.b}
				t := world.NewTSM()
				var err error
				func() { defer world.Recover(&err); err = rtmr.ExtendDigestClient(t, idx, append([]byte(nil), sp.b...)) }()
				out := c17Judge(r, id, op, err, t.Log, "", t)
				var want [4][48]byte
				h := sha512.New384()
				h.Write(want[idx][:])
				h.Write(sp.b)
				copy(want[idx][:], h.Sum(nil))
				if err == nil && t.Regs != want {
					r.Violate("register-differs-from-extend-chain:special-digest", id, "after a valid extend the register is not the extend of the given digest", nil)
					out = "bad-register"
				}
				r.Eval(id, true, "special-digest:"+out)
			}
		}
	}
	// single valid requests with event logs that END (or begin) in a terminator or white space: every octet is measured
	{
		logs := []string{"grub_cmd: boot\x00", "a\x00", "line\n", "line\r\n", "line ", "\x00a", "a\x00b\x00", "text\x00\x00", " padded ", "\ufeffbom", "tab\t"}
		for idx := 0; idx < 4; idx++ {
			for _, lg := range logs {
				id := fmt.Sprintf("terminated-log/idx=%d/%q", idx, lg)
				if !r.Want(id) {
					continue
				}
				sum := sha512.Sum384([]byte(lg))
				op := c17op{name: fmt.Sprintf("eventlog(idx=%d,hash=SHA-384,log=%q)", idx, lg), valid: true, index: idx, digest: sum[:]}
				t := world.NewTSM()
				var err error
				func() { defer world.Recover(&err); err = rtmr.ExtendEventLogClient(t, idx, crypto.SHA384, []byte(lg)) }()
				out := c17Judge(r, id, op, err, t.Log, "", t)
				var want [4][48]byte
				h := sha512.New384()
				h.Write(want[idx][:])
				h.Write(sum[:])
				copy(want[idx][:], h.Sum(nil))
				if err == nil && t.Regs != want {
					r.Violate("register-differs-from-extend-chain:terminated-log", id, "after extending an event log the register is not the extend of SHA-384(every octet of the log)", nil)
					out = "bad-register"
				}
				r.Eval(id, true, "terminated-log:"+out)
			}
		}
	}
	// invalid requests with event logs of every size class: the register index and the hash algorithm are judged
	// whatever the length of the log
	{
		sizes := []int{0, 1, 48, 4095, 4096, 4097, 65536, 65537, 1<<20 + 1}
		type bad struct {
			idx  int
			hash crypto.Hash
		}
		bads := []bad{{4, crypto.SHA384}, {5, crypto.SHA384}, {12, crypto.SHA384}, {255, crypto.SHA384}, {-1, crypto.SHA384}, {1 << 40, crypto.SHA384},
			{2, crypto.SHA256}, {2, crypto.SHA512}, {0, crypto.SHA1}, {4, crypto.SHA256}}
		done := r.Parallel(len(sizes)*len(bads), func(n int) {
			size, b := sizes[n/len(bads)], bads[n%len(bads)]
			id := fmt.Sprintf("invalid-request-with-log-of/%d/idx=%d,hash=%v", size, b.idx, b.hash)
			if !r.Want(id) {
				return
			}
			lg := make([]byte, size)
			for i := range lg {
				lg[i] = byte(i*11 + i>>8)
			}
			op := c17op{name: fmt.Sprintf("eventlog(idx=%d,hash=%v,len=%d)", b.idx, b.hash, size), valid: false, index: b.idx}
			t := world.NewTSM()
			var err error
			func() { defer world.Recover(&err); err = rtmr.ExtendEventLogClient(t, b.idx, b.hash, lg) }()
			out := c17Judge(r, id, op, err, t.Log, "", t)
			if t.Regs != ([4][48]byte{}) {
				r.Violate("register-changed-by-invalid-request:log-size", id, "an invalid extend request changed a register", map[string]any{"log_bytes": size})
				out = "bad-register"
			}
			r.Eval(id, true, "invalid-with-size:"+out)
		})
		r.SectionDone(mc.Section{Name: "invalid-requests-x-log-sizes", Evaluations: int64(done), Exhaustive: done == len(sizes)*len(bads)})
	}
	r.Set("alphabet_size", len(ops))
	r.Set("initial_states", len(inits))
	r.Set("depth_all_initial_states", depthAll)
	r.Set("depth_selected_initial_states", depthDeep)
}

func opKind(op c17op) string {
	k := "digest"
	if strings.HasPrefix(op.name, "eventlog") {
		k = "eventlog"
	}
	if op.valid {
		return k + "-valid"
	}
	return k + "-invalid"
}

func histName(ops []c17op, hist []int) string {
	return strings.Join(histNames(ops, hist), ";")
}
func histNames(ops []c17op, hist []int) []string {
	var out []string
	for _, h := range hist {
		out = append(out, ops[h].name)
	}
	return out
}

func c17Judge(r *mc.Run, id string, op c17op, err error, delta []world.TSMOp, boundBefore string, t *world.TSM) string {
	detail := map[string]any{"request": op.name, "client_ops": fmt.Sprintf("%+v", summarize(delta))}
	if world.IsPanic(err) {
		r.Violate("panic:"+crashSite(err), id, "extend request crashes: "+errStr(err), detail)
		return "panic"
	}
	if !op.valid {
		switch {
		case err == nil:
			r.Violate("invalid-accepted:"+invalidWhy(op), id, "an invalid extend request ("+op.name+") returned nil", detail)
			return "nil!"
		case len(delta) != 0:
			r.Violate("invalid-touches-tsm:"+invalidWhy(op), id, fmt.Sprintf("an invalid extend request (%s) touched the TSM interface (%d operations) before failing", op.name, len(delta)), detail)
			return "touched"
		}
		return "error-untouched"
	}
	if err != nil {
		r.Violate("valid-rejected", id, "a valid extend request failed: "+errStr(err), detail)
		return "error!"
	}
	var digestWrites, mkdirs, indexWrites []world.TSMOp
	for _, o := range delta {
		switch {
		case o.Kind == "mkdir":
			mkdirs = append(mkdirs, o)
		case o.Kind == "write" && strings.HasSuffix(o.Path, "/digest"):
			digestWrites = append(digestWrites, o)
		case o.Kind == "write" && strings.HasSuffix(o.Path, "/index"):
			indexWrites = append(indexWrites, o)
		case o.Kind == "write" || o.Kind == "remove":
			r.Violate("unexpected-write", id, "unexpected write/remove on the TSM interface: "+o.Path, detail)
			return "unexpected-write"
		}
	}
	bound := t.EntryFor(op.index)
	switch {
	case len(digestWrites) != 1:
		r.Violate("digest-writes!=1", id, fmt.Sprintf("a valid request caused %d digest writes, want exactly one", len(digestWrites)), detail)
		return "digest-count"
	case !bytes.Equal(digestWrites[0].Data, op.digest):
		r.Violate("wrong-digest:"+opKind(op), id, "the digest written is not the requested digest / SHA-384 of the event log", detail)
		return "wrong-digest"
	case bound == "" || !strings.Contains(digestWrites[0].Path, "/"+bound+"/"):
		r.Violate("wrong-entry", id, "the digest was not written to the entry bound to the requested index", detail)
		return "wrong-entry"
	case boundBefore != "" && (len(mkdirs) != 0 || len(indexWrites) != 0 || bound != boundBefore):
		r.Violate("entry-not-reused", id, "an entry for the index existed but a new one was created / rebound", detail)
		return "not-reused"
	case boundBefore == "" && (len(mkdirs) != 1 || len(indexWrites) != 1 || strings.TrimSpace(string(indexWrites[0].Data)) != fmt.Sprint(op.index)):
		r.Violate("entry-creation", id, fmt.Sprintf("no entry existed: want one MkdirTemp and one index write of %d, got %d / %d", op.index, len(mkdirs), len(indexWrites)), detail)
		return "bad-creation"
	}
	if boundBefore != "" {
		return "ok-reused"
	}
	return "ok-created"
}

func invalidWhy(op c17op) string {
	switch {
	case op.index < 0 || op.index > 3:
		return "index"
	case strings.HasPrefix(op.name, "digest"):
		return "length"
	case strings.Contains(op.name, `log=""`):
		return "empty-log"
	}
	return "hash"
}

func summarize(ops []world.TSMOp) []string {
	var out []string
	for _, o := range ops {
		s := o.Kind + " " + strings.TrimPrefix(o.Path, "/sys/kernel/config/tsm/")
		if o.Kind == "write" {
			s += fmt.Sprintf(" (%d bytes)", len(o.Data))
		}
		if o.Err != "" {
			s += " -> " + o.Err
		}
		out = append(out, s)
	}
	return out
}

// c17bufs: the byte strings one caller hands to a history of requests, carved from ONE buffer with capacity to
// spare behind every slice (event x, event y, digest A, digest B lie back to back): a request that writes behind or
// into what it was handed damages what a later request measures.
type c17bufs struct{ buf, pristine []byte }

func newC17bufs() *c17bufs {
	b := make([]byte, 0, 512)
	b = append(b, "event-xevent-y"...)
	b = append(b, world.Fill("digest-A", 64)...)
	b = append(b, world.Fill("digest-B", 64)...)
	return &c17bufs{buf: b[:512], pristine: append([]byte(nil), b[:512]...)}
}

func (b *c17bufs) log(lg string) []byte {
	switch lg {
	case "event-x":
		return b.buf[0:7]
	case "event-y":
		return b.buf[7:14]
	case "":
		return b.buf[0:0]
	}
	return append(make([]byte, 0, 64), lg...)
}

func (b *c17bufs) digest(which, ln int) []byte { return b.buf[14+64*which : 14+64*which+ln] }

func (b *c17bufs) intact() bool { return bytes.Equal(b.buf, b.pristine) }
