package checks

import (
	"bytes"
	"compress/gzip"
	"compress/zlib"
	"context"
	"errors"
	"fmt"
	"io"
	"net"
	"net/url"
	"os"
	"reflect"
	"strings"
	"time"

	"github.com/google/go-tdx-guest/verify/trust"

	"verifharness/mc"
	"verifharness/shim/vsched"
	"verifharness/world"
)

func init() {
	mc.Register(&mc.Check{ID: "C20", Category: "model_checking",
		Rule:   "the real trust.RetryHTTPSGetter, compiled through the check-time time/context seam, run on a virtual clock: grid Timeout {0,1s,4s,5s,12s,2min} x MaxRetryDelay {0,1s,3s,4s,30s} (+ DefaultHTTPSGetter) x attempt latency {0,1s} x every failure sequence 'k failures then success' for every k the timeout allows and 'fail forever'; every order of simultaneously due timer / deadline is an explorer choice (Engine A over the tie points). A state is (virtual time, attempts made, pending timers); transitions are attempts and waits. Non-trivial: k >= 1 or fail-forever; distinct by (grid point, latency, k, tie decisions)",
		Assume: []string{"real time is replaced by a virtual clock through an overlay generated from the current sources (harness/cmd/instr); constructs the rewriter does not support are reported and make the run inconclusive, never a violation", "MaxRetryDelay = 0 makes 'never longer than the maximum' and 'never a busy loop' contradict each other: that corner is explored for termination only"},
		Run:    runC20})
}

type c20inner struct {
	failFirst int // fail this many attempts, then succeed (-1: forever)
	latency   time.Duration
	calls     int
	header    map[string][]string
	body      []byte
	failHdr   map[string][]string
	failBody  []byte
	urls      []string
	at        []time.Duration
	failErr   func(call int) error
	firstLat  time.Duration // latency of the first attempt when it differs from the others (0: the same)
}

func (g *c20inner) Get(url string) (map[string][]string, []byte, error) {
	g.calls++
	g.urls = append(g.urls, url)
	g.at = append(g.at, vsched.Elapsed())
	if g.calls == 1 && g.firstLat != 0 {
		vsched.Advance(g.firstLat)
	} else {
		vsched.Advance(g.latency)
	}
	if g.calls > 400 {
		panic(errLivelock)
	}
	if g.failFirst < 0 || g.calls <= g.failFirst {
		// a failed attempt also returns stale-looking data that must never reach the caller
		if g.failErr != nil {
			return g.failHdr, g.failBody, g.failErr(g.calls)
		}
		return g.failHdr, g.failBody, errors.New("scripted failure")
	}
	return g.header, g.body, nil
}

var errLivelock = errors.New("more than 400 attempts without termination")

func runC20(r *mc.Run) {
	if !strings.Contains(os.Getenv("VERIF_OVERLAY"), "time") {
		r.HarnessError("C20 must run in the binary built with the time/context overlay (run.sh does that)")
		return
	}
	timeouts := []time.Duration{0, time.Second, 4 * time.Second, 5 * time.Second, 12 * time.Second, 2 * time.Minute}
	delays := []time.Duration{0, time.Second, 3 * time.Second, 4 * time.Second, 30 * time.Second}
	type grid struct {
		timeout, maxDelay time.Duration
		def               bool
	}
	var grids []grid
	for _, t := range timeouts {
		for _, d := range delays {
			grids = append(grids, grid{t, d, false})
		}
	}
	grids = append(grids, grid{2 * time.Minute, 30 * time.Second, true})
	// maximum delays that are not whole seconds (below one second, and with a fraction above it)
	for _, g := range []grid{{time.Second, 250 * time.Millisecond, false}, {4 * time.Second, 250 * time.Millisecond, false}, {4 * time.Second, 999 * time.Millisecond, false},
		{4 * time.Second, 1500 * time.Millisecond, false}, {12 * time.Second, 2500 * time.Millisecond, false}, {5 * time.Second, 1000001 * time.Microsecond, false}} {
		grids = append(grids, g)
	}
	if r.Thorough() {
		for _, t := range []time.Duration{2 * time.Second, 7 * time.Second, 61 * time.Second} {
			for _, d := range []time.Duration{2 * time.Second, 5 * time.Second, 8 * time.Second} {
				grids = append(grids, grid{t, d, false})
			}
		}
	}
	bound := 3
	// shapes of the successful response: the first success is returned whatever it looks like
	type shape struct {
		name   string
		header map[string][]string
		body   []byte
	}
	shapes := []shape{
		{"header+body", map[string][]string{"X-Good": {"1", "2"}}, []byte("good body")},
		{"nil-header+body", nil, []byte("good body")},
		{"header+nil-body", map[string][]string{"X-Good": {"1", "2"}}, nil},
		{"nil-header+nil-body", nil, nil},
		{"empty-header+empty-body", map[string][]string{}, []byte{}},
		{"header-with-empty-value+one-byte-body", map[string][]string{"": nil}, []byte{0}},
		// header names are returned as the wrapped getter spelled them
		{"lower-case-names", map[string][]string{"tcb-info-issuer-chain": {"chain"}, "request-id": {"1", "2"}}, []byte("body")},
		{"two-spellings-of-one-name", map[string][]string{"Request-ID": {"a"}, "Request-Id": {"b"}, "REQUEST-ID": {"c"}}, []byte("body")},
		// headers that describe the body differently from what the body is: the response is returned as it came
		{"content-length-larger-than-body", map[string][]string{"Content-Length": {"4096"}, "Content-Type": {"application/json"}}, []byte("short body")},
		{"content-length-smaller-than-body", map[string][]string{"Content-Length": {"3"}}, []byte("short body")},
		{"content-length-garbage+nil-body", map[string][]string{"Content-Length": {"-1", "x"}, "Transfer-Encoding": {"chunked"}}, nil},
		{"retry-after+warning-headers", map[string][]string{"Retry-After": {"120"}, "Warning": {"199 - stale"}, "Content-Encoding": {"gzip"}, "Status": {"503 Service Unavailable"}}, []byte("{}")},
		{"odd-names+empty-value-lists", map[string][]string{"x-odd_name": {}, "Content-Type": nil, " Leading-Space": {""}}, []byte("body")},
	}
	// bodies in a transfer / content encoding the headers announce (a complete gzip stream, a zlib stream, a chunked
	// framing, base64 text), and bodies with white space, a byte-order mark or a NUL at their ends: the getter hands on
	// what the wrapped getter returned — decoding is not its business
	{
		var gz, zl bytes.Buffer
		zw := gzip.NewWriter(&gz)
		zw.Write([]byte(`{"tcbInfo":{"id":"TDX"},"signature":"00"}`))
		zw.Close()
		fw := zlib.NewWriter(&zl)
		fw.Write([]byte("plain body"))
		fw.Close()
		shapes = append(shapes,
			shape{"gzip-body+Content-Encoding:gzip", map[string][]string{"Content-Encoding": {"gzip"}, "Content-Length": {fmt.Sprint(gz.Len())}}, gz.Bytes()},
			shape{"gzip-body+content-encoding:GZIP", map[string][]string{"content-encoding": {"GZIP"}}, gz.Bytes()},
			shape{"gzip-body-without-header", map[string][]string{"Content-Type": {"application/json"}}, gz.Bytes()},
			shape{"zlib-body+Content-Encoding:deflate", map[string][]string{"Content-Encoding": {"deflate"}}, zl.Bytes()},
			shape{"chunked-framing+Transfer-Encoding:chunked", map[string][]string{"Transfer-Encoding": {"chunked"}}, []byte("5\r\nhello\r\n0\r\n\r\n")},
			shape{"base64-text+Content-Transfer-Encoding:base64", map[string][]string{"Content-Transfer-Encoding": {"base64"}}, []byte("aGVsbG8gd29ybGQ=")},
			shape{"body-with-white-space-at-both-ends", map[string][]string{"Content-Type": {"application/json"}}, []byte(" \r\n{\"a\":1}\r\n\n ")},
			shape{"body-with-byte-order-mark", map[string][]string{"Content-Type": {"application/json; charset=utf-8"}}, []byte("\xef\xbb\xbf{\"a\":1}")},
			shape{"body-ending-in-NUL", nil, []byte("body\x00")},
			shape{"url-escaped-header-value", map[string][]string{"Tcb-Info-Issuer-Chain": {"-----BEGIN%20CERTIFICATE-----%0Aabc%2B%2F%3D%0A"}}, []byte("body")})
	}
	// long bodies (a TCB Info is a few KiB, a CRL may be larger), with and without spare capacity behind them
	for _, n := range []int{63, 64, 65, 100, 2401, 70000} {
		for _, spare := range []int{0, 4096} {
			b := make([]byte, n, n+spare)
			copy(b, world.Fill("c20-long-body", n))
			shapes = append(shapes, shape{fmt.Sprintf("body-of-%d-bytes,spare-capacity-%d", n, spare), map[string][]string{"Content-Type": {"application/json"}}, b})
		}
	}
	// kinds of failure of the wrapped getter: whatever the error looks like, it is a failed attempt to be retried
	type errKind struct {
		name string
		mk   func(call int) error
		hdr  map[string][]string // header returned together with the failure (nil: the stale-looking default)
	}
	errKinds := []errKind{
		{name: ""},
		{name: "context.DeadlineExceeded", mk: func(int) error { return context.DeadlineExceeded }},
		{name: "wrapped-context.DeadlineExceeded", mk: func(int) error {
			return &url.Error{Op: "Get", URL: "https://example.test/x", Err: fmt.Errorf("dial: %w", context.DeadlineExceeded)}
		}},
		{name: "context.Canceled", mk: func(int) error { return fmt.Errorf("request: %w", context.Canceled) }},
		{name: "os.ErrDeadlineExceeded", mk: func(int) error { return &net.OpError{Op: "read", Net: "tcp", Err: os.ErrDeadlineExceeded} }},
		{name: "io.EOF", mk: func(int) error { return io.EOF }},
		{name: "io.ErrUnexpectedEOF-then-timeout", mk: func(call int) error {
			if call%2 == 1 {
				return io.ErrUnexpectedEOF
			}
			return c20timeoutErr{}
		}},
		{name: "error-named-timeout", mk: func(int) error { return errors.New("timeout") }},
		{name: "nil-typed-url-error", mk: func(int) error { return &url.Error{Op: "Get", URL: "u", Err: errors.New("status 404")} }},
		// what a failing attempt hands back besides its error has no bearing on how long the getter waits
		{name: "failure-with-Retry-After:0", mk: func(int) error { return errors.New("503") }, hdr: map[string][]string{"Retry-After": {"0"}}},
		{name: "failure-with-Retry-After:past-date", mk: func(int) error { return errors.New("503") }, hdr: map[string][]string{"Retry-After": {"Wed, 21 Oct 2015 07:28:00 GMT"}}},
		{name: "failure-with-Retry-After:86400", mk: func(int) error { return errors.New("429") }, hdr: map[string][]string{"Retry-After": {"86400"}}},
		{name: "failure-with-Retry-After:garbage+Date", mk: func(int) error { return errors.New("503") }, hdr: map[string][]string{"Retry-After": {"soon", "-5"}, "Date": {"x"}, "Connection": {"close"}}},
	}
	// The clock is global to the process: executions are run one at a time. Everything runs under both timer-channel
	// semantics: ticks discarded by Reset / Stop (go >= 1.23 main modules) and ticks that stay in the channel (earlier)
	for _, stale := range []bool{false, true} {
		for gi, gr := range grids {
			for si0 := 0; si0 < len(shapes)+len(errKinds)-1; si0++ {
				si, ek := si0, errKinds[0]
				if si0 >= len(shapes) {
					si, ek = 1, errKinds[si0-len(shapes)+1]
					if !(gr.def || gi%5 == 2) {
						continue // the other error kinds on the default configuration and on every 5th grid point
					}
				}
				sh := shapes[si]
				if si > 0 && ek.mk == nil && !(gr.def || gi%7 == 3) {
					continue // the other response shapes on the default configuration and on every 7th grid point
				}
				for li, lat := range []time.Duration{0, time.Second, 0, 0} {
					// latency kinds 2 / 3: only the FIRST attempt is slow — it outlasts the timeout by a second / ends a
					// second before it; every later attempt answers at once
					var firstLat time.Duration
					if li == 2 {
						firstLat = gr.timeout + time.Second
					} else if li == 3 {
						firstLat = gr.timeout - time.Second
					}
					if li >= 2 && (firstLat <= 0 || si > 0 || gr.maxDelay == 0) {
						continue // (with MaxRetryDelay 0 the later, instant attempts spin without virtual time passing: the contradictory corner)
					}
					// k = -1 is "fail forever"; it tells how many attempts the timeout allows
					maxK := 0
					for k := -1; k <= maxK; k++ {
						k := k
						if si > 0 && (k < 0 || k > 2) && maxK != 0 {
							continue
						}
						name := fmt.Sprintf("retry/timeout=%v,maxdelay=%v,default=%v,latency=%v,k=%d", gr.timeout, gr.maxDelay, gr.def, lat, k)
						if firstLat != 0 {
							name = fmt.Sprintf("retry/timeout=%v,maxdelay=%v,default=%v,first-attempt-latency=%v,k=%d", gr.timeout, gr.maxDelay, gr.def, firstLat, k)
						}
						if si > 0 {
							name += ",response=" + sh.name
						}
						if ek.mk != nil {
							name += ",failure=" + ek.name
						}
						if stale {
							name += ",timer-ticks-survive-reset"
						}
						attemptsSeen := 0
						st := exploreSerial(r, name, bound, func(c *mc.Ctx) {
							vsched.Reset()
							vsched.StaleTicks = stale
							vsched.SetHorizon(gr.timeout + gr.maxDelay + 10*time.Minute)
							vsched.Chooser = func(label string, n int) int { return c.Choose(label, n) }
							defer func() { vsched.Chooser = nil }()
							wantHdr, wantBody = sh.header, sh.body
							inner := &c20inner{failFirst: k, latency: lat,
								header: cloneHdr(sh.header), body: cloneBytes(sh.body),
								failHdr: map[string][]string{"X-Stale": {"stale"}}, failBody: []byte("stale body"), failErr: ek.mk, firstLat: firstLat}
							if ek.hdr != nil {
								inner.failHdr = cloneHdr(ek.hdr)
							}
							var getter *trust.RetryHTTPSGetter
							if gr.def {
								dg, ok := trust.DefaultHTTPSGetter().(*trust.RetryHTTPSGetter)
								if !ok {
									r.HarnessError("DefaultHTTPSGetter is no longer a *RetryHTTPSGetter; C20's default-configuration case needs updating")
									return
								}
								if dg.Timeout != 2*time.Minute || dg.MaxRetryDelay != 30*time.Second {
									r.Violate("default-config", name, fmt.Sprintf("default getter is configured with timeout %v / max delay %v, want 2m / 30s", dg.Timeout, dg.MaxRetryDelay), nil)
								}
								dg.Getter = inner
								getter = dg
							} else {
								getter = &trust.RetryHTTPSGetter{Timeout: gr.timeout, MaxRetryDelay: gr.maxDelay, Getter: inner}
							}
							var hdr map[string][]string
							var body []byte
							var err error
							var pan any
							func() {
								defer func() { pan = recover() }()
								hdr, body, err = getter.Get("https://example.test/x")
							}()
							id := name + "/" + c.ID()
							if inner.calls > attemptsSeen {
								attemptsSeen = inner.calls
							}
							if !r.Want(id) {
								return
							}
							jl := lat
							if firstLat > jl {
								jl = firstLat
							}
							out := c20Judge(r, id, gr.timeout, gr.maxDelay, jl, k, inner, hdr, body, err, pan)
							r.Eval(id, k != 0, out)
						})
						_ = st
						if k == -1 && si > 0 {
							maxK = 2
						} else if k == -1 {
							maxK = attemptsSeen // "k failures then success" for every k the timeout allows (and one beyond)
							if maxK < 3 {
								maxK = 3
							}
							if maxK > 150 {
								maxK = 150
								if !(gr.maxDelay == 0 && lat == 0) {
									r.Cap(fmt.Sprintf("%s: more than 150 attempts fit in the timeout; k explored up to 150", name))
								}
							}
						}
					}
				}
			}
		}
	}
	vsched.StaleTicks = false
}

var (
	wantHdr  map[string][]string
	wantBody []byte
)

type c20timeoutErr struct{}

func (c20timeoutErr) Error() string   { return "i/o timeout" }
func (c20timeoutErr) Timeout() bool   { return true }
func (c20timeoutErr) Temporary() bool { return true }

func cloneHdr(h map[string][]string) map[string][]string {
	if h == nil {
		return nil
	}
	out := map[string][]string{}
	for k, v := range h {
		if v == nil {
			out[k] = nil
		} else {
			out[k] = append([]string{}, v...)
		}
	}
	return out
}

func cloneBytes(b []byte) []byte {
	if b == nil {
		return nil
	}
	return append(make([]byte, 0, cap(b)), b...) // same length AND capacity (spare capacity behind a body is part of its shape)
}

// exploreSerial is Engine A without parallelism (the virtual clock is process-global).
func exploreSerial(r *mc.Run, name string, bound int, body func(c *mc.Ctx)) mc.ExploreStats {
	return r.ExploreSerial(name, bound, body)
}

func c20Judge(r *mc.Run, id string, timeout, maxDelay, lat time.Duration, k int, in *c20inner, hdr map[string][]string, body []byte, err error, pan any) string {
	waits := vsched.Waits()
	elapsed := vsched.Elapsed()
	detail := map[string]any{"attempt_times": fmt.Sprint(in.at), "waits": fmt.Sprintf("%+v", waits), "elapsed": elapsed.String(), "error": fmt.Sprint(err)}
	sigBase := fmt.Sprintf("maxdelay0=%v:", maxDelay == 0)
	switch p := pan.(type) {
	case nil:
	case vsched.Deadlock:
		r.Violate(sigBase+"hang", id, "the retrying getter waits on something that can never happen (hang): "+p.Msg, detail)
		return "hang"
	case vsched.Inconclusive:
		r.HarnessError("C20 %s: %s", id, p.Msg)
		return "inconclusive"
	default:
		if p == errLivelock {
			if maxDelay == 0 && lat == 0 {
				r.Set("zero_max_delay_note", "MaxRetryDelay=0 with zero attempt latency spins without virtual time passing; the statement is contradictory there (never longer than 0 vs never a busy loop), so executions are cut at 400 attempts and only termination-independent clauses are judged")
				return "spin-with-zero-max-delay"
			}
			r.Violate(sigBase+"livelock", id, "more than 400 attempts: the getter neither succeeds nor gives up", detail)
			return "livelock"
		}
		r.Violate(sigBase+"panic", id, fmt.Sprintf("the retrying getter panics: %v", p), detail)
		return "panic"
	}
	out := "error"
	// waits
	for i, w := range waits {
		if w.Waited < 0 || w.Waited > maxDelay {
			r.Violate(sigBase+"wait-longer-than-max", id, fmt.Sprintf("wait %d lasted %v, longer than MaxRetryDelay %v", i, w.Waited, maxDelay), detail)
			out = "long-wait"
		}
		if w.Woke != "deadline" && w.Waited == 0 && maxDelay != 0 {
			r.Violate(sigBase+"busy-loop", id, fmt.Sprintf("wait %d before a retry lasted 0 although MaxRetryDelay is %v (busy loop)", i, maxDelay), detail)
			out = "busy"
		}
	}
	// the timeout runs from the call of Get: an attempt in flight when it elapses is waited for, but no attempt STARTS later
	for i, at := range in.at {
		if i > 0 && maxDelay != 0 && at > timeout {
			r.Violate(sigBase+"attempt-after-timeout", id, fmt.Sprintf("attempt %d starts %v after Get was called, later than the timeout %v", i+1, at, timeout), detail)
			out = "late-attempt"
			break
		}
	}
	failed := in.calls
	if err == nil {
		failed = in.calls - 1
	}
	_ = boolInt
	if maxDelay != 0 && len(waits) < in.calls-1 {
		r.Violate(sigBase+"retry-without-wait", id, fmt.Sprintf("%d failed attempts but only %d waits: a retry happened without waiting", failed, len(waits)), detail)
		out = "no-wait"
	}
	if err == nil {
		out = "success"
		wantCalls := k + 1
		switch {
		case k < 0:
			r.Violate(sigBase+"success-without-success", id, "the getter reports success although every attempt failed", detail)
			out = "bogus-success"
		case in.calls != wantCalls:
			r.Violate(sigBase+"calls-after-success", id, fmt.Sprintf("wrapped getter called %d times, want exactly %d (first success ends the loop)", in.calls, wantCalls), detail)
			out = "extra-calls"
		case !reflect.DeepEqual(hdr, wantHdr):
			r.Violate(sigBase+"wrong-header", id, fmt.Sprintf("returned header is not that of the successful attempt: %v", hdr), detail)
			out = "wrong-header"
		case !bytes.Equal(body, wantBody) || (body == nil) != (wantBody == nil):
			r.Violate(sigBase+"wrong-body", id, fmt.Sprintf("returned body is not that of the successful attempt: %q", body), detail)
			out = "wrong-body"
		case !reflect.DeepEqual(in.header, wantHdr) || !bytes.Equal(in.body, wantBody):
			r.Violate(sigBase+"response-modified", id, "the successful response was modified in place", detail)
			out = "modified"
		}
	} else {
		if hdr != nil || body != nil {
			r.Violate(sigBase+"data-with-error", id, "an error is returned together with (stale) response data", detail)
			out = "data-with-error"
		}
		limit := timeout + maxDelay + lat
		if elapsed > limit && maxDelay != 0 {
			r.Violate(sigBase+"gives-up-late", id, fmt.Sprintf("gave up after %v, later than timeout %v + one retry delay %v (+ one attempt latency %v)", elapsed, timeout, maxDelay, lat), detail)
			out = "late"
		}
		if in.calls == 0 {
			r.Violate(sigBase+"no-attempt", id, "the getter gave up without a single attempt", detail)
			out = "no-attempt"
		} else if k == 0 {
			r.Violate(sigBase+"first-success-lost", id, "the wrapped getter succeeds at its first call but the retrying getter returns an error", detail)
			out = "first-success-lost"
		}
		if k >= 0 && in.calls <= k && elapsed < timeout {
			r.Violate(sigBase+"gives-up-early", id, fmt.Sprintf("gave up after %v and %d attempts, before the timeout %v, although attempt %d would have succeeded", elapsed, in.calls, timeout, k+1), detail)
			out = "early"
		}
		if k >= 0 && in.calls > k {
			r.Violate(sigBase+"error-despite-success", id, fmt.Sprintf("attempt %d succeeded but the getter returned an error", k+1), detail)
			out = "lost-success"
		}
	}
	return fmt.Sprintf("%s/attempts=%d", out, in.calls)
}

func boolInt(b bool) int {
	if b {
		return 1
	}
	return 0
}
