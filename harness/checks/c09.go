package checks

import (
	"bytes"
	"encoding/binary"
	"fmt"
	"reflect"

	"github.com/google/go-tdx-guest/abi"
	pb "github.com/google/go-tdx-guest/proto/tdx"
	"google.golang.org/protobuf/proto"

	"verifharness/mc"
	"verifharness/ref"
	"verifharness/world"
)

func init() {
	mc.Register(&mc.Check{ID: "C09", Category: "exploration",
		Rule:   "cases: every truncation length, every single-bit mutant, every boundary value of each of the nine size/type fields and all pairs of them, trailing-byte variants of honest quotes; and every structurally valid message from a product of field lengths/contents; each compared against an independent layout parser; every 16-bit size/type field at all 65536 values and every 32-bit one at 0..len+64 and the top 64 values; every fixed-length sequence of parse / serialise / serialise-parts calls over 5 quotes with all earlier results re-compared after each step. Non-trivial: differs from the honest baseline; distinct by canonical id",
		Assume: []string{"the reference layout table was transcribed from Intel's DCAP v4 quote format, not from abi.go", "random and coverage-guided mutation named in the quantifier are sampling and are not performed"},
		Run:    runC09})
}

// sizeField is one size/type field of the wire format.
type sizeField struct {
	name  string
	off   int
	width int
	exact uint32
}

func sizeFields(raw []byte, reg world.Regions) []sizeField {
	g := func(o, w int) uint32 {
		if w == 2 {
			return uint32(binary.LittleEndian.Uint16(raw[o:]))
		}
		return binary.LittleEndian.Uint32(raw[o:])
	}
	mk := func(n string, o, w int) sizeField { return sizeField{n, o, w, g(o, w)} }
	return []sizeField{
		mk("version", 0, 2), mk("att_key_type", 2, 2), mk("tee_type", 4, 4),
		mk("signed_data_size", reg.SigDataSize[0], 4), mk("cert_type", reg.CertType[0], 2), mk("cert_size", reg.CertSize[0], 4),
		mk("auth_size", reg.AuthSize[0], 2), mk("chain_type", reg.ChainType[0], 2), mk("chain_size", reg.ChainSize[0], 4),
	}
}

func (f sizeField) values() []uint32 {
	vs := []uint32{0, 1, f.exact - 1, f.exact + 1, 0x7fff, 0xffff}
	if f.width == 4 {
		vs = append(vs, 0x10000, 0x7fffffff, 0xffffffff)
	}
	var out []uint32
	seen := map[uint32]bool{f.exact: true}
	for _, v := range vs {
		if f.width == 2 {
			v &= 0xffff
		}
		if !seen[v] {
			seen[v] = true
			out = append(out, v)
		}
	}
	return out
}

func (f sizeField) patch(raw []byte, v uint32) {
	if f.width == 2 {
		binary.LittleEndian.PutUint16(raw[f.off:], uint16(v))
	} else {
		binary.LittleEndian.PutUint32(raw[f.off:], v)
	}
}

// rawCase is one raw-bytes input with a canonical id.
type rawCase struct {
	id  string
	raw []byte
}

// rawInputCases enumerates truncations, size-field values (singles and pairs) and trailing bytes.
func rawInputCases(name string, raw []byte, reg world.Regions, pairs bool) []rawCase {
	var out []rawCase
	for n := 0; n <= len(raw); n++ {
		out = append(out, rawCase{fmt.Sprintf("trunc/%s/%d", name, n), raw[:n:n]})
	}
	fs := sizeFields(raw, reg)
	for i, f := range fs {
		for _, v := range f.values() {
			m := append([]byte(nil), raw...)
			f.patch(m, v)
			out = append(out, rawCase{fmt.Sprintf("size/%s/%s=%#x", name, f.name, v), m})
			if !pairs {
				continue
			}
			for _, g := range fs[i+1:] {
				for _, w := range g.values() {
					m2 := append([]byte(nil), m...)
					g.patch(m2, w)
					out = append(out, rawCase{fmt.Sprintf("size/%s/%s=%#x,%s=%#x", name, f.name, v, g.name, w), m2})
				}
			}
		}
	}
	// every byte of every size/type field at every value (a field read with the wrong width, or compared
	// modulo something, is exposed by a change confined to one of its bytes)
	for _, f := range fs {
		for k := 0; k < f.width; k++ {
			for v := 0; v < 256; v++ {
				if byte(v) == raw[f.off+k] {
					continue
				}
				m := append([]byte(nil), raw...)
				m[f.off+k] = byte(v)
				out = append(out, rawCase{fmt.Sprintf("sizebyte/%s/%s[%d]=%#x", name, f.name, k, v), m})
			}
		}
	}
	for _, t := range []int{1, 2, 16, 4096} {
		m := append(append([]byte(nil), raw...), world.Fill("trail", t)...)
		out = append(out, rawCase{fmt.Sprintf("trail/%s/+%d", name, t), m})
	}
	// a valid quote with something in FRONT of it: the layout starts at byte 0. Prefixes shaped like containers a
	// quote travels in (the Linux GetQuote buffer header, length prefixes, the quote-service message header, zeros)
	{
		le32 := func(v int) []byte { b := make([]byte, 4); binary.LittleEndian.PutUint32(b, uint32(v)); return b }
		be32 := func(v int) []byte { b := make([]byte, 4); binary.BigEndian.PutUint32(b, uint32(v)); return b }
		le64 := func(v uint64) []byte { b := make([]byte, 8); binary.LittleEndian.PutUint64(b, v); return b }
		cat := func(parts ...[]byte) []byte {
			var o []byte
			for _, p := range parts {
				o = append(o, p...)
			}
			return o
		}
		n := len(raw)
		for _, pf := range []struct {
			name string
			b    []byte
		}{
			{"tdx_quote_hdr(version=1,status=0,in_len=0,out_len=n)", cat(le64(1), le64(0), le32(0), le32(n))},
			{"tdx_quote_hdr(out_len=n-1)", cat(le64(1), le64(0), le32(1024), le32(n-1))},
			{"tdx_quote_hdr(in-flight)", cat(le64(1), le64(^uint64(0)), le32(0), le32(n))},
			{"le32-length", le32(n)}, {"be32-length", be32(n)}, {"le16-length", le32(n)[:2]},
			{"service-message-header", cat(be32(n+24), []byte{1, 0, 0, 0}, le32(1), le32(n+24), le32(0), le32(0), le32(n))},
			{"8-zero-bytes", make([]byte, 8)}, {"one-zero-byte", []byte{0}}, {"its-own-header", raw[:48]}, {"bom", []byte{0xef, 0xbb, 0xbf}}, {"newline", []byte{'\n'}},
		} {
			out = append(out, rawCase{fmt.Sprintf("prefixed/%s/%s", name, pf.name), cat(pf.b, raw)})
			out = append(out, rawCase{fmt.Sprintf("prefixed+padded/%s/%s", name, pf.name), cat(pf.b, raw, make([]byte, 512))})
		}
		out = append(out, rawCase{fmt.Sprintf("doubled/%s", name), cat(raw, raw)})
	}
	// a truncated signed-data region that still declares itself consistently
	for _, cut := range []int{0, 1, 63, 64, 127, 128, 133, 134, 517, 518, 581, 582, 583, 584, 589, 590} {
		if cut > len(raw)-world.OffSigData {
			continue
		}
		m := append([]byte(nil), raw[:world.OffSigData]...)
		binary.LittleEndian.PutUint32(m[world.OffSigDataSize:], uint32(cut))
		m = append(m, raw[world.OffSigData:world.OffSigData+cut]...)
		pad := world.MinQuoteLibrary + 64 - len(m)
		if pad > 0 {
			m = append(m, make([]byte, pad)...) // extra bytes so the overall minimum size is met
		}
		out = append(out, rawCase{fmt.Sprintf("sigdata-cut/%s/%d", name, cut), m})
	}
	return out
}

// sizeWalk enumerates, without materialising the inputs, every value of every 16-bit size/type field
// and, for the 32-bit ones, every value up to the input length plus 64 and the 64 values below 2^32
// (a bound computed from a combination of fields is only off for a handful of values of one of them).
type sizeWalkCase struct {
	f sizeField
	v uint32
	// more: further size fields set together with f (nested sizes kept consistent with one another while the bytes
	// stay as they are: what no longer belongs to the inner structure becomes trailing / extra bytes)
	more []sizeWalkCase
}

func sizeWalk(raw []byte, reg world.Regions) []sizeWalkCase {
	var out []sizeWalkCase
	for _, f := range sizeFields(raw, reg) {
		if f.width == 2 {
			for v := 0; v < 1<<16; v++ {
				if uint32(v) != f.exact {
					out = append(out, sizeWalkCase{f: f, v: uint32(v)})
				}
			}
			continue
		}
		for v := 0; v <= len(raw)+64; v++ {
			if uint32(v) != f.exact {
				out = append(out, sizeWalkCase{f: f, v: uint32(v)})
			}
		}
		for k := uint32(0); k < 64; k++ {
			out = append(out, sizeWalkCase{f: f, v: 0xffffffff - k})
		}
	}
	// consistent shrinking / growing of nested sizes: every certification data size k with the signed data size that
	// goes with it (k + 134), every chain size with the two enclosing sizes that go with it, every QE auth data size
	// with its three — the enclosing structures agree, only the innermost one is cut short or runs over
	fs := map[string]sizeField{}
	for _, f := range sizeFields(raw, reg) {
		fs[f.name] = f
	}
	sd, cs, au, ch := fs["signed_data_size"], fs["cert_size"], fs["auth_size"], fs["chain_size"]
	for k := 0; k <= int(cs.exact)+8; k++ {
		if uint32(k) != cs.exact {
			out = append(out, sizeWalkCase{f: cs, v: uint32(k), more: []sizeWalkCase{{f: sd, v: uint32(k) + sd.exact - cs.exact}}})
		}
	}
	for k := 0; k <= int(ch.exact)+8; k++ {
		if uint32(k) != ch.exact {
			d := uint32(k) - ch.exact
			out = append(out, sizeWalkCase{f: ch, v: uint32(k), more: []sizeWalkCase{{f: cs, v: cs.exact + d}, {f: sd, v: sd.exact + d}}})
		}
	}
	for k := 0; k <= int(au.exact)+600; k++ {
		if uint32(k) != au.exact {
			d := uint32(k) - au.exact
			out = append(out, sizeWalkCase{f: au, v: uint32(k), more: []sizeWalkCase{{f: cs, v: cs.exact + d}, {f: sd, v: sd.exact + d}}})
		}
	}
	return out
}

func (c sizeWalkCase) build(name string, raw []byte) rawCase {
	m := append([]byte(nil), raw...)
	c.f.patch(m, c.v)
	id := fmt.Sprintf("sizewalk/%s/%s=%#x", name, c.f.name, c.v)
	for _, x := range c.more {
		x.f.patch(m, x.v)
		id += fmt.Sprintf(",%s=%#x", x.f.name, x.v)
	}
	return rawCase{id, m}
}

func safeToProto(raw []byte) (q *pb.QuoteV4, err error) {
	defer world.Recover(&err)
	qa, e := abi.QuoteToProto(raw)
	if e != nil {
		return nil, e
	}
	return qa.(*pb.QuoteV4), nil
}

func safeToBytes(q any) (b []byte, err error) {
	defer world.Recover(&err)
	return abi.QuoteToAbiBytes(q)
}

// expectedMessage is the message the reference says the input denotes.
func expectedMessage(p *ref.Parsed) *pb.QuoteV4 {
	cut := func(region []byte, fs []world.Field, name string) []byte {
		f := world.FieldOf(fs, name)
		return region[f.Off : f.Off+f.Len]
	}
	h, b, qe := p.Header, p.Body, p.QEReport
	q := &pb.QuoteV4{
		Header: &pb.Header{
			Version:            uint32(binary.LittleEndian.Uint16(cut(h, world.HeaderFields, "version"))),
			AttestationKeyType: uint32(binary.LittleEndian.Uint16(cut(h, world.HeaderFields, "att_key_type"))),
			TeeType:            binary.LittleEndian.Uint32(cut(h, world.HeaderFields, "tee_type")),
			PceSvn:             cut(h, world.HeaderFields, "pce_svn"), QeSvn: cut(h, world.HeaderFields, "qe_svn"),
			QeVendorId: cut(h, world.HeaderFields, "qe_vendor_id"), UserData: cut(h, world.HeaderFields, "user_data"),
		},
		TdQuoteBody: &pb.TDQuoteBody{
			TeeTcbSvn: cut(b, world.BodyFields, "tee_tcb_svn"), MrSeam: cut(b, world.BodyFields, "mr_seam"),
			MrSignerSeam: cut(b, world.BodyFields, "mr_signer_seam"), SeamAttributes: cut(b, world.BodyFields, "seam_attributes"),
			TdAttributes: cut(b, world.BodyFields, "td_attributes"), Xfam: cut(b, world.BodyFields, "xfam"),
			MrTd: cut(b, world.BodyFields, "mr_td"), MrConfigId: cut(b, world.BodyFields, "mr_config_id"),
			MrOwner: cut(b, world.BodyFields, "mr_owner"), MrOwnerConfig: cut(b, world.BodyFields, "mr_owner_config"),
			Rtmrs:      [][]byte{cut(b, world.BodyFields, "rtmr0"), cut(b, world.BodyFields, "rtmr1"), cut(b, world.BodyFields, "rtmr2"), cut(b, world.BodyFields, "rtmr3")},
			ReportData: cut(b, world.BodyFields, "report_data"),
		},
		SignedDataSize: p.SigDataSize,
		SignedData: &pb.Ecdsa256BitQuoteV4AuthData{
			Signature: p.Sig, EcdsaAttestationKey: p.AttKey,
			CertificationData: &pb.CertificationData{
				CertificateDataType: uint32(p.CertType), Size: p.CertSize,
				QeReportCertificationData: &pb.QEReportCertificationData{
					QeReport: &pb.EnclaveReport{
						CpuSvn: cut(qe, world.QEReportFields, "cpu_svn"), MiscSelect: binary.LittleEndian.Uint32(cut(qe, world.QEReportFields, "misc_select")),
						Reserved1: cut(qe, world.QEReportFields, "reserved1"), Attributes: cut(qe, world.QEReportFields, "attributes"),
						MrEnclave: cut(qe, world.QEReportFields, "mr_enclave"), Reserved2: cut(qe, world.QEReportFields, "reserved2"),
						MrSigner: cut(qe, world.QEReportFields, "mr_signer"), Reserved3: cut(qe, world.QEReportFields, "reserved3"),
						IsvProdId: uint32(binary.LittleEndian.Uint16(cut(qe, world.QEReportFields, "isv_prod_id"))),
						IsvSvn:    uint32(binary.LittleEndian.Uint16(cut(qe, world.QEReportFields, "isv_svn"))),
						Reserved4: cut(qe, world.QEReportFields, "reserved4"), ReportData: cut(qe, world.QEReportFields, "report_data"),
					},
					QeReportSignature:       p.QESig,
					QeAuthData:              &pb.QeAuthData{ParsedDataSize: uint32(p.AuthSize), Data: p.Auth},
					PckCertificateChainData: &pb.PCKCertificateChainData{CertificateDataType: uint32(p.ChainType), Size: p.ChainSize, PckCertChain: p.Chain},
				},
			},
		},
	}
	if len(p.Extra) > 0 {
		q.ExtraBytes = p.Extra
	}
	return q
}

// c09JudgeRaw compares the library parser with the reference on one input.
func c09JudgeRaw(r *mc.Run, c rawCase, kind string) {
	in := append(make([]byte, 0, len(c.raw)+64), c.raw...) // the caller's own buffer, overwritten after the checks below
	q, err := safeToProto(in)
	p, rerr := ref.ParseQuote(c.raw)
	out := verdict(err)
	switch {
	case world.IsPanic(err):
		// C10 reports crashes; here a crash on an input the layout admits is also a C09 failure.
		if rerr == nil {
			r.Violate("parse:panic-on-valid-layout:"+kind, c.id, "parser crashes on a byte string that follows the v4 layout: "+errStr(err), map[string]any{"raw_quote_hex": hexs(c.raw)})
		}
	case err == nil && rerr != nil:
		r.Violate("parse:accepts-invalid-layout:"+kind, c.id, "parser accepts a byte string that does not follow the v4 layout ("+rerr.Error()+")", map[string]any{"raw_quote_hex": hexs(c.raw)})
		out = "accept!"
	case err != nil && rerr == nil:
		r.Violate("parse:rejects-valid-layout:"+kind, c.id, "parser rejects a byte string that follows the v4 layout: "+errStr(err), map[string]any{"raw_quote_hex": hexs(c.raw)})
		out = "reject!"
	case err == nil:
		want := expectedMessage(p)
		if !proto.Equal(q, want) {
			r.Violate("parse:field-mismatch:"+kind, c.id, "a parsed field is not the corresponding slice of the input: "+firstDiff(q, want), map[string]any{"raw_quote_hex": hexs(c.raw)})
			out = "accept-wrong-fields"
		}
		back, berr := safeToBytes(q)
		if berr != nil || !bytes.Equal(back, c.raw) {
			r.Violate("roundtrip:bytes:"+kind, c.id, "serialising the parsed quote does not reproduce the input byte for byte ("+errStr(berr)+")", map[string]any{"raw_quote_hex": hexs(c.raw)})
			out = "accept-bad-roundtrip"
		}
		// the result is the caller's from here on: re-using the input buffer (all of its capacity) must not change it
		in = in[:cap(in)]
		for i := range in {
			in[i] = ^in[i] ^ 0x5a
		}
		if !proto.Equal(q, want) {
			r.Violate("parse:result-shares-input:"+kind, c.id, "the parsed quote changed when the input buffer was overwritten afterwards: "+firstDiff(q, want), nil)
			out = "accept-aliases-input"
		}
	}
	r.Eval(c.id, true, kind+":"+out)
}

func firstDiff(a, b *pb.QuoteV4) string {
	am, bm := a.ProtoReflect(), b.ProtoReflect()
	_ = am
	_ = bm
	as, bs := fmt.Sprintf("%v", a), fmt.Sprintf("%v", b)
	n := len(as)
	if len(bs) < n {
		n = len(bs)
	}
	for i := 0; i < n; i++ {
		if as[i] != bs[i] {
			lo := i - 60
			if lo < 0 {
				lo = 0
			}
			hi := i + 40
			if hi > n {
				hi = n
			}
			return "…" + as[lo:hi] + "… vs …" + bs[lo:hi] + "…"
		}
	}
	return "length differs"
}

func runC09(r *mc.Run) {
	bases := c01Baselines()
	{ // a third baseline with nothing variable in it: no auth data, no certificate chain (a bare chain header)
		w := world.Honest("T")
		p := w.Parts.Clone()
		p.Auth, p.Chain = []byte{}, []byte{}
		w.Parts = p
		raw, reg := p.Bytes()
		if rp, err := ref.ParseQuote(raw); err == nil {
			bases = append(bases, &c01base{name: "auth0+chain0", w: w, raw: raw, reg: reg, p: rp})
		} else {
			r.HarnessError("C09: reference parser rejects the empty-chain baseline: %v", err)
		}
	}
	// (a)(b)(c): truncations, size fields (+pairs), trailing bytes.
	for _, b := range bases {
		cases := rawInputCases(b.name, b.raw, b.reg, true)
		done := r.Parallel(len(cases), func(i int) {
			if r.Want(cases[i].id) {
				c09JudgeRaw(r, cases[i], "structure")
			}
		})
		r.SectionDone(mc.Section{Name: "raw-structure/" + b.name, Evaluations: int64(done), Exhaustive: done == len(cases)})
	}
	for bi, b := range bases {
		if bi > 0 && !r.Thorough() {
			break
		}
		b := b
		walk := sizeWalk(b.raw, b.reg)
		done := r.Parallel(len(walk), func(i int) {
			c := walk[i].build(b.name, b.raw)
			if r.Want(c.id) {
				c09JudgeRaw(r, c, "structure")
			}
		})
		r.SectionDone(mc.Section{Name: "size-field-walk/" + b.name, Evaluations: int64(done), Exhaustive: done == len(walk)})
	}
	// one field (and every pair of RTMRs) filled with zeros / 0xff while the others keep their pattern: a value that
	// looks like "nothing there" still occupies its place
	{
		b := bases[0]
		type zc struct {
			id string
			m  []byte
		}
		var zs []zc
		for _, rg := range []struct {
			name string
			base int
			fs   []world.Field
		}{{"header", 0, world.HeaderFields}, {"td_body", 48, world.BodyFields}, {"qe_report", b.reg.QEReport[0], world.QEReportFields}} {
			for _, f := range rg.fs {
				for _, v := range []byte{0x00, 0xff} {
					m := append([]byte(nil), b.raw...)
					for k := 0; k < f.Len; k++ {
						m[rg.base+f.Off+k] = v
					}
					zs = append(zs, zc{fmt.Sprintf("field-fill/%s/%s=%02x", rg.name, f.Name, v), m})
				}
			}
		}
		for mask := 1; mask < 16; mask++ {
			m := append([]byte(nil), b.raw...)
			for i := 0; i < 4; i++ {
				if mask&(1<<uint(i)) != 0 {
					for k := 0; k < 48; k++ {
						m[48+328+48*i+k] = 0
					}
				}
			}
			zs = append(zs, zc{fmt.Sprintf("field-fill/rtmrs-zero-mask=%04b", mask), m})
		}
		done := r.Parallel(len(zs), func(i int) {
			if r.Want(zs[i].id) {
				c09JudgeRaw(r, rawCase{zs[i].id, zs[i].m}, "field-fill")
			}
		})
		r.SectionDone(mc.Section{Name: "field-fills", Evaluations: int64(done), Exhaustive: done == len(zs)})
	}
	// a quote followed by zero bytes up to a round total (a page, a kilobyte, a power of two ...): trailing bytes are
	// kept whatever they are and however many
	{
		b := bases[0]
		var zs []rawCase
		for _, unit := range []int{512, 1024, 4096, 16384, 65536} {
			for mult := 1; mult <= 4; mult++ {
				total := ((len(b.raw) + unit - 1) / unit * unit) + (mult-1)*unit
				for _, fill := range []byte{0x00, 0xff} {
					for _, d := range []int{0, 1, -1} {
						if total+d <= len(b.raw) {
							continue
						}
						m := append([]byte(nil), b.raw...)
						for len(m) < total+d {
							m = append(m, fill)
						}
						zs = append(zs, rawCase{fmt.Sprintf("padded-to/%d*%d%+d,fill=%02x", mult, unit, d, fill), m})
					}
				}
			}
		}
		done := r.Parallel(len(zs), func(i int) {
			if r.Want(zs[i].id) {
				c09JudgeRaw(r, zs[i], "padded")
			}
		})
		r.SectionDone(mc.Section{Name: "padded-to-round-totals", Evaluations: int64(done), Exhaustive: done == len(zs)})
	}
	c09Retention(r, bases)
	c09SharedBuffers(r, bases[0])
	// (d) field identity: every single-bit mutant of a quote whose fields all differ.
	for _, b := range bases {
		n := len(b.raw) * 8
		if !r.Thorough() && b != bases[0] {
			n = b.reg.Chain[0] * 8 // fixed-layout part only
		}
		done := r.Parallel(n, func(i int) {
			id := fmt.Sprintf("bit/%s/%d.%d", b.name, i/8, i%8)
			if !r.Want(id) {
				return
			}
			m := append([]byte(nil), b.raw...)
			m[i/8] ^= 1 << uint(i%8)
			c09JudgeRaw(r, rawCase{id, m}, "bit:"+b.regionName(i/8))
		})
		r.SectionDone(mc.Section{Name: "bitflips/" + b.name, Evaluations: int64(done), Exhaustive: done == n})
	}
	// (e) serialise-then-parse for structurally valid, size-consistent messages.
	authLens := []int{0, 1, 31, 32, 33, 255, 256, 65535}
	chainLens := []int{0, 1, 7, -1}
	extraLens := []int{0, 1, 16}
	contents := []string{"zero", "ff", "pattern", "pattern-with-zero-tail", "zero-head-then-pattern"}
	type mcase struct {
		a, c, e int
		content string
	}
	var ms []mcase
	for _, a := range authLens {
		for _, c := range chainLens {
			for _, e := range extraLens {
				for _, ct := range contents {
					ms = append(ms, mcase{a, c, e, ct})
				}
			}
		}
	}
	// auth-data and chain lengths whose SUM walks (in steps smaller than any fixed-size part of the layout) across
	// 65536 and 131072 less the fixed parts: every nested length then passes through each residue window mod 2^16
	for _, lo := range []int{64000, 129500} {
		for t := lo; t < lo+2700; t += 100 {
			ms = append(ms, mcase{32, t - 32, 0, "pattern"}, mcase{1000, t - 1000, 0, "pattern"}, mcase{0, t, 0, "pattern"})
			if t <= 65535 {
				ms = append(ms, mcase{t, 0, 0, "pattern"})
			} else {
				ms = append(ms, mcase{65535, t - 65535, 0, "pattern"})
				if t-65535 <= 65535 {
					ms = append(ms, mcase{t - 65535, 65535, 0, "pattern"})
				}
			}
		}
	}
	// large chains (the size fields are 32 bits wide: nothing in the layout bounds a chain below that)
	for _, cl := range []int{1<<20 - 1, 1 << 20, 1<<20 + 1, 3 << 20, 1<<24 + 1} {
		ms = append(ms, mcase{32, cl, 0, "pattern"})
	}
	ms = append(ms, mcase{65535, 1<<20 + 1, 16, "pattern"})
	done := r.Parallel(len(ms), func(i int) {
		m := ms[i]
		id := fmt.Sprintf("msg/auth=%d,chain=%d,extra=%d,content=%s", m.a, m.c, m.e, m.content)
		if !r.Want(id) {
			return
		}
		p := bases[0].w.Parts.Clone()
		fill := func(b []byte) {
			for k := range b {
				switch m.content {
				case "zero":
					b[k] = 0
				case "ff":
					b[k] = 0xff
				}
			}
		}
		fill(p.Header[8:])
		fill(p.Body)
		fill(p.QEReport)
		fill(p.Sig)
		fill(p.AttKey)
		fill(p.QESig)
		p.Auth = world.Fill("c09auth", m.a)
		fill(p.Auth)
		// variable-length parts that end (resp. start) in zero octets: every octet counts, also a trailing NUL
		switch m.content {
		case "pattern-with-zero-tail":
			for k := range p.Auth {
				if k >= 32 || k >= (len(p.Auth)+1)/2 {
					p.Auth[k] = 0
				}
			}
		case "zero-head-then-pattern":
			for k := 0; k < len(p.Auth)/2; k++ {
				p.Auth[k] = 0
			}
		}
		if m.c >= 0 {
			p.Chain = world.Fill("c09chain", m.c)
		}
		p.Extra = world.Fill("c09extra", m.e)
		raw, _ := p.Bytes()
		rp, perr := ref.ParseQuote(raw)
		if perr != nil {
			r.HarnessError("C09: reference parser rejects a generated well-formed quote %s: %v", id, perr)
			return
		}
		msg := expectedMessage(rp)
		out := "ok"
		b1, err := safeToBytes(proto.Clone(msg))
		if err != nil {
			r.Violate("serialise:rejects-wellformed", id, "serialiser rejects a well-formed message: "+errStr(err), nil)
			out = "serialise-error"
		} else if !bytes.Equal(b1, raw) {
			r.Violate("serialise:wrong-bytes", id, "serialiser output differs from the v4 layout of the message", nil)
			out = "serialise-wrong"
		} else if q2, err := safeToProto(b1); err != nil {
			r.Violate("roundtrip:parse-rejects-own-output", id, "parser rejects the serialiser's output: "+errStr(err), nil)
			out = "reparse-error"
		} else if !proto.Equal(q2, msg) {
			r.Violate("roundtrip:message-changed", id, "message changed across serialise-then-parse: "+firstDiff(q2, msg), nil)
			out = "roundtrip-changed"
		}
		r.Eval(id, true, "msg:"+out)
	})
	r.SectionDone(mc.Section{Name: "message-roundtrip", Evaluations: int64(done), Exhaustive: done == len(ms)})
	// exported partial serialisers agree with the layout on the baseline
	for _, b := range bases {
		msg := expectedMessage(b.p)
		h, e1 := abi.HeaderToAbiBytes(msg.Header)
		bd, e2 := abi.TdQuoteBodyToAbiBytes(msg.TdQuoteBody)
		qe, e3 := abi.EnclaveReportToAbiBytes(msg.SignedData.CertificationData.QeReportCertificationData.QeReport)
		ok := e1 == nil && e2 == nil && e3 == nil && bytes.Equal(h, b.p.Header) && bytes.Equal(bd, b.p.Body) && bytes.Equal(qe, b.p.QEReport)
		if !ok {
			r.Violate("serialise:partial", "partial/"+b.name, "Header/TdQuoteBody/EnclaveReport serialisers do not reproduce bytes 0-47 / 48-631 / the QE report", nil)
		}
		r.Eval("partial/"+b.name, true, fmt.Sprintf("partial:%v", ok))
	}
}

// c09Retention: every sequence of a fixed length over {parse quote k, serialise message k, serialise the
// three sub-structures of message k}, keeping EVERY result; after each step every result obtained so far
// must still be what it was when returned (a result that shares storage with a later call's scratch space
// stops being the round trip of its input).
func c09Retention(r *mc.Run, bases []*c01base) {
	type item struct {
		name string
		raw  []byte
		msg  *pb.QuoteV4
	}
	var items []item
	addRaw := func(name string, raw []byte) {
		p, err := ref.ParseQuote(raw)
		if err != nil {
			r.HarnessError("C09 retention: reference parser rejects %s: %v", name, err)
			return
		}
		items = append(items, item{name, raw, expectedMessage(p)})
	}
	addRaw("A", bases[0].raw)
	addRaw("B", bases[1].raw)
	{
		m := append([]byte(nil), bases[0].raw...)
		for i := 48; i < 632; i++ {
			m[i] ^= 0xee
		}
		addRaw("A-other-body", m)
		w := world.Honest("T")
		w.Spec.Auth = world.Fill("c09-long-auth", 700)
		w.Parts = w.Spec.Parts()
		addRaw("long-auth", w.Raw())
		w2 := world.Honest("T")
		w2.Spec.Auth = []byte{}
		w2.Spec.Extra = world.Fill("c09-extra", 3)
		w2.Parts = w2.Spec.Parts()
		addRaw("short+extra", w2.Raw())
	}
	kinds := []string{"parse", "serialise", "serialise-parts"}
	n := len(items) * len(kinds)
	depth := 3
	if r.Thorough() {
		depth = 4
	}
	total := 1
	for i := 0; i < depth; i++ {
		total *= n
	}
	type kept struct {
		what  string
		bytes []byte
		want  []byte
		msg   *pb.QuoteV4
		wantM *pb.QuoteV4
	}
	done := r.Parallel(total, func(idx int) {
		seq := make([]int, depth)
		x := idx
		id := "retention/"
		for i := depth - 1; i >= 0; i-- {
			seq[i] = x % n
			x /= n
		}
		for _, k := range seq {
			id += kinds[k%len(kinds)] + "(" + items[k/len(kinds)].name + ");"
		}
		if !r.Want(id) {
			return
		}
		var keep []kept
		out := "intact"
		for step, k := range seq {
			it := items[k/len(kinds)]
			switch kinds[k%len(kinds)] {
			case "parse":
				q, err := safeToProto(append([]byte(nil), it.raw...))
				if err != nil {
					r.Violate("retention:parse-fails", id, "parser rejects a valid quote: "+errStr(err), nil)
					continue
				}
				keep = append(keep, kept{what: "message parsed from " + it.name, msg: q, wantM: it.msg})
			case "serialise":
				b, err := safeToBytes(proto.Clone(it.msg))
				if err != nil {
					r.Violate("retention:serialise-fails", id, "serialiser rejects a valid message: "+errStr(err), nil)
					continue
				}
				keep = append(keep, kept{what: "bytes serialised from " + it.name, bytes: b, want: it.raw})
			case "serialise-parts":
				h, e1 := abi.HeaderToAbiBytes(it.msg.GetHeader())
				b, e2 := abi.TdQuoteBodyToAbiBytes(it.msg.GetTdQuoteBody())
				q, e3 := abi.EnclaveReportToAbiBytes(it.msg.GetSignedData().GetCertificationData().GetQeReportCertificationData().GetQeReport())
				if e1 != nil || e2 != nil || e3 != nil {
					r.Violate("retention:serialise-parts-fails", id, fmt.Sprintf("a sub-structure serialiser rejects a valid message: %v %v %v", e1, e2, e3), nil)
					continue
				}
				rp, _ := ref.ParseQuote(it.raw)
				keep = append(keep, kept{what: "header bytes of " + it.name, bytes: h, want: rp.Header},
					kept{what: "TD body bytes of " + it.name, bytes: b, want: rp.Body},
					kept{what: "QE report bytes of " + it.name, bytes: q, want: rp.QEReport})
			}
			for _, kp := range keep {
				bad := false
				if kp.msg != nil {
					bad = !proto.Equal(kp.msg, kp.wantM)
				} else {
					bad = !bytes.Equal(kp.bytes, kp.want)
				}
				if bad {
					r.Violate("retention:earlier-result-changed", id, fmt.Sprintf("after step %d the %s, returned by an earlier call, no longer equals what was returned", step+1, kp.what), map[string]any{"step": step + 1})
					out = "changed!"
				}
			}
		}
		r.Eval(id, true, "retention:"+out)
	})
	r.SectionDone(mc.Section{Name: "result-retention-histories", Evaluations: int64(done), MaxDepth: depth, Exhaustive: done == total,
		Note: fmt.Sprintf("alphabet of %d operations (%d quotes x %v), every sequence of length %d", n, len(items), kinds, depth)})
}

// c09SharedBuffers: well-formed messages whose byte fields are carved out of ONE buffer, each slice keeping the
// capacity up to the end of that buffer (what a caller gets who splits a received blob by hand): for every ordered
// pair (A, B) of byte fields B lies directly behind A; plus all fields in wire order, in reverse wire order and
// interleaved. Serialising such a message gives the v4 layout of its contents and leaves the message as it was.
func c09SharedBuffers(r *mc.Run, b *c01base) {
	q0, err := safeToProto(b.raw)
	if err != nil {
		r.HarnessError("C09 shared buffers: baseline does not parse: %v", err)
		return
	}
	want, err := safeToBytes(q0)
	if err != nil || !bytes.Equal(want, b.raw) {
		r.HarnessError("C09 shared buffers: baseline does not round-trip")
		return
	}
	// every bytes field of the message, addressed by a path of Go struct fields
	type ref struct {
		name string
		at   func(q *pb.QuoteV4) *[]byte
	}
	var refs []ref
	var walk func(prefix string, get func(q *pb.QuoteV4) reflect.Value)
	walk = func(prefix string, get func(q *pb.QuoteV4) reflect.Value) {
		v := get(q0)
		for i := 0; i < v.NumField(); i++ {
			i := i
			f := v.Type().Field(i)
			if !f.IsExported() {
				continue
			}
			fv := v.Field(i)
			name := prefix + f.Name
			switch {
			case fv.Kind() == reflect.Slice && fv.Type().Elem().Kind() == reflect.Uint8:
				refs = append(refs, ref{name, func(q *pb.QuoteV4) *[]byte { return get(q).Field(i).Addr().Interface().(*[]byte) }})
			case fv.Kind() == reflect.Slice && fv.Type().Elem().Kind() == reflect.Slice:
				for k := 0; k < fv.Len(); k++ {
					k := k
					refs = append(refs, ref{fmt.Sprintf("%s[%d]", name, k), func(q *pb.QuoteV4) *[]byte { return get(q).Field(i).Index(k).Addr().Interface().(*[]byte) }})
				}
			case fv.Kind() == reflect.Ptr && fv.Type().Elem().Kind() == reflect.Struct && !fv.IsNil():
				walk(name+".", func(q *pb.QuoteV4) reflect.Value { return get(q).Field(i).Elem() })
			}
		}
	}
	walk("", func(q *pb.QuoteV4) reflect.Value { return reflect.ValueOf(q).Elem() })
	type layout struct {
		name  string
		order []int // fields carved from one buffer, in this order; the others keep their own allocation
	}
	var layouts []layout
	for i := range refs {
		for j := range refs {
			if i != j {
				layouts = append(layouts, layout{refs[i].name + "|" + refs[j].name, []int{i, j}})
			}
		}
	}
	all := make([]int, len(refs))
	rev := make([]int, len(refs))
	var inter []int
	for i := range refs {
		all[i], rev[i] = i, len(refs)-1-i
	}
	for i := 0; i < (len(refs)+1)/2; i++ {
		inter = append(inter, i)
		if j := len(refs) - 1 - i; j != i {
			inter = append(inter, j)
		}
	}
	layouts = append(layouts, layout{"all-fields-in-wire-order", all}, layout{"all-fields-in-reverse-order", rev}, layout{"all-fields-interleaved", inter})
	done := r.Parallel(len(layouts)*2, func(n int) {
		lay, slack := layouts[n/2], n%2 == 1
		id := fmt.Sprintf("shared-buffer/%s/%s/slack=%v", b.name, lay.name, slack)
		if !r.Want(id) {
			return
		}
		q := proto.Clone(q0).(*pb.QuoteV4)
		total := 0
		for _, k := range lay.order {
			total += len(*refs[k].at(q))
		}
		if slack {
			total += 4096 // spare room behind the last field as well
		}
		buf := make([]byte, total)
		for i := range buf {
			buf[i] = 0xa5
		}
		off := 0
		for _, k := range lay.order {
			p := refs[k].at(q)
			n := copy(buf[off:], *p)
			*p = buf[off : off+n] // capacity runs to the end of the buffer
			off += n
		}
		before := proto.Clone(q).(*pb.QuoteV4)
		got, err := safeToBytes(q)
		out := "ok"
		switch {
		case world.IsPanic(err):
			r.Violate("shared-buffer:panic", id, "QuoteToAbiBytes crashes: "+errStr(err), nil)
			out = "panic"
		case err != nil:
			r.Violate("shared-buffer:rejected", id, "a well-formed message is not serialised: "+errStr(err), nil)
			out = "error"
		case !bytes.Equal(got, want):
			r.Violate("shared-buffer:wrong-bytes", id, "the serialisation of a well-formed message whose fields share one buffer is not the v4 layout of its contents", map[string]any{"first_difference_at": firstByteDiff(got, want)})
			out = "wrong-bytes"
		case !proto.Equal(q, before):
			r.Violate("shared-buffer:message-changed", id, "serialising changed the message: "+firstDiff(before, q), nil)
			out = "message-changed"
		}
		r.Eval(id, true, "shared-buffer:"+out)
	})
	r.SectionDone(mc.Section{Name: "shared-buffer-messages/" + b.name, Evaluations: int64(done), Exhaustive: done == len(layouts)*2,
		Note: fmt.Sprintf("%d byte fields: every ordered pair adjacent in one buffer + 3 whole-message layouts, without / with spare room behind", len(refs))})
}

func firstByteDiff(a, b []byte) int {
	for i := 0; i < len(a) && i < len(b); i++ {
		if a[i] != b[i] {
			return i
		}
	}
	if len(a) != len(b) {
		if len(a) < len(b) {
			return len(a)
		}
		return len(b)
	}
	return -1
}
