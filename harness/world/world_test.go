package world

import "testing"

func TestHonestLevels(t *testing.T) {
	w := Honest("T")
	for l := L0; l <= L2; l++ {
		if err := w.Verify(l); err != nil {
			t.Fatalf("level %d: %v", l, err)
		}
		t.Logf("level %d ok, urls=%v", l, w.Getter.Log)
	}
	raw := w.Raw()
	t.Logf("quote len=%d", len(raw))
}
