package world

import (
	"crypto/x509"
	"encoding/hex"
	"fmt"
	"io"
	"sync"
	"time"

	"github.com/google/go-tdx-guest/verify"
	"github.com/google/logger"
)

func init() {
	// The library logs warnings to stdout; keep the check's stdout for verdict lines.
	logger.Init("", false, false, io.Discard)
}

// Quiet re-silences the library logger (package inits of the library re-point it at stdout).
func Quiet() { logger.Init("", false, false, io.Discard) }

// Levels of checking.
const (
	L0 = 0 // signatures + chain
	L1 = 1 // + collateral
	L2 = 2 // + revocation
)

var (
	pkiMu    sync.Mutex
	pkiCache = map[string]*PKI{}
)

// CachedPKI returns the PKI named name for the default platform.
func CachedPKI(name string) *PKI {
	pkiMu.Lock()
	defer pkiMu.Unlock()
	if p, ok := pkiCache[name]; ok {
		return p
	}
	p := NewPKI(name, DefaultPlatform())
	pkiCache[name] = p
	return p
}

// World is one complete, self-consistent attestation universe.
type World struct {
	PKI     *PKI
	Plat    Platform
	Spec    QuoteSpec
	Parts   *QuoteParts
	TcbInfo TcbInfo
	QeID    EnclaveIdentity
	TcbRaw  []byte // signed member bytes
	QeRaw   []byte
	TcbBody []byte
	QeBody  []byte
	TcbHdr  map[string][]string
	QeHdr   map[string][]string
	PckCrl  []byte
	RootCrl []byte
	PckHdr  map[string][]string
	Getter  *Getter
	Roots   *x509.CertPool
	Now     verify.TimeSet
	CA      string
}

// Honest builds the baseline honest world under PKI name.
func Honest(name string) *World {
	w := &World{PKI: CachedPKI(name), Plat: DefaultPlatform(), CA: "platform"}
	w.Spec = QuoteSpec{PKI: w.PKI}
	w.Parts = w.Spec.Parts()
	w.TcbInfo = DefaultTcbInfo(w.Plat, w.Parts.Body[0:16])
	w.QeID = DefaultQeIdentity()
	w.Roots = Pool(w.PKI.Root)
	w.Now = TimeSetAt(T0)
	w.Finish()
	return w
}

// TimeSetAt is a time set with all five entries at t.
func TimeSetAt(t time.Time) verify.TimeSet {
	return verify.TimeSet{PckCertChain: t, TcbInfo: t, QeIdentity: t, PckCrl: t, RootCaCrl: t}
}

// Finish (re)derives signed collateral, CRLs and the getter from the descriptors.
func (w *World) Finish() {
	w.TcbRaw = MustJSON(w.TcbInfo)
	w.QeRaw = MustJSON(w.QeID)
	w.TcbBody = SignedBody("tcbInfo", w.TcbRaw, w.PKI.TcbKey)
	w.QeBody = SignedBody("enclaveIdentity", w.QeRaw, w.PKI.TcbKey)
	w.TcbHdr = map[string][]string{HdrTcbInfo: {IssuerChainHeader(w.PKI.Tcb, w.PKI.Root)}}
	w.QeHdr = map[string][]string{HdrQeIdentity: {IssuerChainHeader(w.PKI.Tcb, w.PKI.Root)}}
	w.PckHdr = map[string][]string{HdrPckCrl: {IssuerChainHeader(w.PKI.Inter, w.PKI.Root)}}
	if w.PckCrl == nil {
		w.PckCrl = MakeCRL(CRLSpec{Issuer: w.PKI.Inter, Signer: w.PKI.InterKey})
	}
	if w.RootCrl == nil {
		w.RootCrl = MakeCRL(CRLSpec{Issuer: w.PKI.Root, Signer: w.PKI.RootKey})
	}
	w.BuildGetter()
}

// BuildGetter scripts the four endpoints from the current artefacts.
func (w *World) BuildGetter() {
	g := NewGetter()
	g.Responses[URLTcbInfo(hex.EncodeToString(w.Plat.FMSPC))] = Response{Header: w.TcbHdr, Body: w.TcbBody}
	g.Responses[URLQeIdentity] = Response{Header: w.QeHdr, Body: w.QeBody}
	g.Responses[URLPckCrl(w.CA)] = Response{Header: w.PckHdr, Body: w.PckCrl}
	g.Responses[RootCRLURL] = Response{Body: w.RootCrl}
	w.Getter = g
}

// Raw assembles the quote bytes.
func (w *World) Raw() []byte { b, _ := w.Parts.Bytes(); return b }

// Options returns fresh verification options for a level (fresh getter log).
func (w *World) Options(level int) *verify.Options {
	now := w.Now
	return &verify.Options{GetCollateral: level >= L1, CheckRevocations: level >= L2,
		Getter: w.Getter.Clone(), Now: &now, TrustedRoots: w.Roots}
}

// Verify runs verify.RawTdxQuote at level, converting a panic into PanicError.
func (w *World) Verify(level int) error {
	o := w.Options(level)
	w.Getter = o.Getter.(*Getter) // keep the log of this call visible (not for concurrent use)
	return SafeVerifyRaw(w.Raw(), o)
}

// PanicError reports a recovered panic.
type PanicError struct {
	Val   any
	Stack string
}

func (p *PanicError) Error() string { return "PANIC: " + toString(p.Val) }

// SafeVerifyRaw calls verify.RawTdxQuote under recover.
func SafeVerifyRaw(raw []byte, o *verify.Options) (err error) {
	defer Recover(&err)
	return verify.RawTdxQuote(raw, o)
}

// SafeVerify calls verify.TdxQuote under recover.
func SafeVerify(q any, o *verify.Options) (err error) {
	defer Recover(&err)
	return verify.TdxQuote(q, o)
}

// SetLogLevel sets the verbosity of the library's (process-wide) logger; its output stays discarded.
// Sections that use it run all their cases at one level and restore level 0 afterwards.
func SetLogLevel(n int) { logLevel = n; logger.SetLevel(logger.Level(n)) }

// LogLevel is the level last set through SetLogLevel.
func LogLevel() int { return logLevel }

var logLevel int

// LogTag is a case-id suffix naming the log level when it is not the default.
func LogTag() string {
	if logLevel == 0 {
		return ""
	}
	return fmt.Sprintf(",log-level=%d", logLevel)
}
