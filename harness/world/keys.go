// Package world builds, deterministically, everything Intel and the platform
// would produce for a TDX attestation: a private look-alike PKI, v4 quotes,
// signed PCS collateral and CRLs, and scripted environment doubles.
package world

import (
	"crypto"
	"crypto/ecdsa"
	"crypto/elliptic"
	"crypto/hmac"
	"crypto/sha256"
	"encoding/asn1"
	"fmt"
	"io"
	"math/big"
	"os"
	"strconv"
	"sync"
)

// Seed is the run seed (VERIF_SEED); all key material derives from it.
var Seed = func() int64 {
	if s := os.Getenv("VERIF_SEED"); s != "" {
		if v, err := strconv.ParseInt(s, 10, 64); err == nil {
			return v
		}
	}
	return 1
}()

// Key is a deterministic P-256 key whose signatures follow RFC 6979, so every
// artefact built from a descriptor is byte-for-byte reproducible.
type Key struct {
	Label string
	D     *big.Int
	Pub   ecdsa.PublicKey
}

var (
	keyMu    sync.Mutex
	keyCache = map[string]*Key{}
)

// NewKey derives the key named label from the run seed.
func NewKey(label string) *Key {
	keyMu.Lock()
	defer keyMu.Unlock()
	if k, ok := keyCache[label]; ok {
		return k
	}
	c := elliptic.P256()
	n := c.Params().N
	h := sha256.Sum256([]byte(fmt.Sprintf("verif-key/%d/%s", Seed, label)))
	d := new(big.Int).SetBytes(h[:])
	d.Mod(d, new(big.Int).Sub(n, big.NewInt(1)))
	d.Add(d, big.NewInt(1))
	x, y := c.ScalarBaseMult(d.Bytes())
	k := &Key{Label: label, D: d, Pub: ecdsa.PublicKey{Curve: c, X: x, Y: y}}
	keyCache[label] = k
	return k
}

// Public implements crypto.Signer.
func (k *Key) Public() crypto.PublicKey { return &k.Pub }

// Sign implements crypto.Signer with deterministic ECDSA; returns ASN.1 DER.
func (k *Key) Sign(_ io.Reader, digest []byte, _ crypto.SignerOpts) ([]byte, error) {
	r, s := k.SignRS(digest)
	return asn1.Marshal(struct{ R, S *big.Int }{r, s})
}

// Raw64 is the public key as X||Y (the in-quote attestation key format).
func (k *Key) Raw64() []byte {
	out := make([]byte, 64)
	k.Pub.X.FillBytes(out[:32])
	k.Pub.Y.FillBytes(out[32:])
	return out
}

// SignRaw signs SHA-256(msg) and returns r||s (64 bytes).
func (k *Key) SignRaw(msg []byte) []byte {
	h := sha256.Sum256(msg)
	r, s := k.SignRS(h[:])
	out := make([]byte, 64)
	r.FillBytes(out[:32])
	s.FillBytes(out[32:])
	return out
}

// SignRS is RFC 6979 deterministic ECDSA over P-256 with HMAC-SHA256.
func (k *Key) SignRS(digest []byte) (*big.Int, *big.Int) { return k.SignRSWhere(digest, nil) }

// SignRawWhere is SignRaw restricted to signatures whose 32-byte big-endian r and s satisfy want.
func (k *Key) SignRawWhere(msg []byte, want func(r, s []byte) bool) []byte {
	h := sha256.Sum256(msg)
	r, s := k.SignRSWhere(h[:], func(r, s *big.Int) bool {
		var rb, sb [32]byte
		r.FillBytes(rb[:])
		s.FillBytes(sb[:])
		return want(rb[:], sb[:])
	})
	out := make([]byte, 64)
	r.FillBytes(out[:32])
	s.FillBytes(out[32:])
	return out
}

// SignRSWhere walks the RFC 6979 nonce sequence (the standard's own "try the next k" step) until the
// signature satisfies want; every member of the sequence is a valid ECDSA signature of digest. A nil
// want takes the first one, which is the RFC 6979 signature.
func (k *Key) SignRSWhere(digest []byte, want func(r, s *big.Int) bool) (*big.Int, *big.Int) {
	c := elliptic.P256()
	n := c.Params().N
	qlen := n.BitLen()
	rlen := (qlen + 7) / 8
	bits2int := func(b []byte) *big.Int {
		v := new(big.Int).SetBytes(b)
		if l := len(b) * 8; l > qlen {
			v.Rsh(v, uint(l-qlen))
		}
		return v
	}
	int2octets := func(v *big.Int) []byte {
		out := make([]byte, rlen)
		v.FillBytes(out)
		return out
	}
	z := bits2int(digest)
	zmod := new(big.Int).Mod(z, n)
	bx := append(int2octets(k.D), int2octets(zmod)...)
	V := make([]byte, 32)
	K := make([]byte, 32)
	for i := range V {
		V[i] = 1
	}
	mac := func(key []byte, parts ...[]byte) []byte {
		m := hmac.New(sha256.New, key)
		for _, p := range parts {
			m.Write(p)
		}
		return m.Sum(nil)
	}
	K = mac(K, V, []byte{0}, bx)
	V = mac(K, V)
	K = mac(K, V, []byte{1}, bx)
	V = mac(K, V)
	for {
		var T []byte
		for len(T) < rlen {
			V = mac(K, V)
			T = append(T, V...)
		}
		kk := bits2int(T[:rlen])
		if kk.Sign() > 0 && kk.Cmp(n) < 0 {
			x, _ := c.ScalarBaseMult(kk.Bytes())
			r := new(big.Int).Mod(x, n)
			if r.Sign() != 0 {
				kinv := new(big.Int).ModInverse(kk, n)
				s := new(big.Int).Mul(r, k.D)
				s.Add(s, zmod)
				s.Mul(s, kinv)
				s.Mod(s, n)
				if s.Sign() != 0 && (want == nil || want(r, s)) {
					return r, s
				}
			}
		}
		K = mac(K, V, []byte{0})
		V = mac(K, V)
	}
}

// Fill returns n deterministic filler bytes for label.
func Fill(label string, n int) []byte {
	out := make([]byte, 0, n+32)
	ctr := 0
	for len(out) < n {
		h := sha256.Sum256([]byte(fmt.Sprintf("verif-fill/%d/%s/%d", Seed, label, ctr)))
		out = append(out, h[:]...)
		ctr++
	}
	return out[:n:n]
}
