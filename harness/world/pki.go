package world

import (
	"bytes"
	"crypto/ecdsa"
	"crypto/rand"
	"crypto/sha1"
	"crypto/x509"
	"crypto/x509/pkix"
	"encoding/asn1"
	"encoding/pem"
	"fmt"
	"math/big"
	"time"
)

// T0 is the reference instant of every generated world.
var T0 = time.Date(2030, 1, 1, 0, 0, 0, 0, time.UTC)

const (
	CNRoot      = "Intel SGX Root CA"
	CNPlatform  = "Intel SGX PCK Platform CA"
	CNProcessor = "Intel SGX PCK Processor CA"
	CNLeaf      = "Intel SGX PCK Certificate"
	CNTcb       = "Intel SGX TCB Signing"
	RootCRLURL  = "https://certificates.trustedservices.intel.com/IntelSGXRootCA.der"
)

// IntelName is the DN layout Intel uses for every SGX certificate.
func IntelName(cn string) pkix.Name {
	return pkix.Name{CommonName: cn, Organization: []string{"Intel Corporation"},
		Locality: []string{"Santa Clara"}, Province: []string{"CA"}, Country: []string{"US"}}
}

// CertSpec describes one certificate; zero values mean "as Intel issues it".
type CertSpec struct {
	CN         string
	Name       *pkix.Name // overrides CN when set
	Serial     *big.Int
	NotBefore  time.Time
	NotAfter   time.Time
	IsCA       bool
	Key        *Key
	CRLDP      []string
	SGXExt     []byte // raw value of the SGX extension (leaf only)
	NoSGXExt   bool
	ExtraExts  []pkix.Extension
	IssuerName *pkix.Name // claims another issuer than the parent's subject
	SigAlg     x509.SignatureAlgorithm
	MaxPathLen int
	NoCRLDP    bool
	// RawSubject / SubjectKeyID / AuthorityKeyID, when set, are copied verbatim (an attacker chooses them freely).
	RawSubject     []byte
	SubjectKeyID   []byte
	AuthorityKeyID []byte
	// PubKey, when set, is the subject public key (any type x509 can encode); Key still names the certificate.
	PubKey      any
	ExtKeyUsage []x509.ExtKeyUsage // extended key usage extension (none by default, as in Intel's certificates)
}

// MakeCert issues a certificate for spec, naming parent as issuer (nil = self
// signed) and signing with signer (which may deliberately not be the parent's key).
func MakeCert(spec CertSpec, parent *x509.Certificate, signer *Key) *x509.Certificate {
	name := IntelName(spec.CN)
	if spec.Name != nil {
		name = *spec.Name
	}
	nb, na := spec.NotBefore, spec.NotAfter
	if nb.IsZero() {
		nb = T0.AddDate(-2, 0, 0)
	}
	if na.IsZero() {
		na = T0.AddDate(15, 0, 0)
	}
	serial := spec.Serial
	if serial == nil {
		h := sha1.Sum([]byte("serial/" + spec.CN + "/" + spec.Key.Label))
		h[0] &= 0x7f
		h[0] |= 0x40
		serial = new(big.Int).SetBytes(h[:])
	}
	ski := sha1.Sum(spec.Key.Raw64())
	tmpl := &x509.Certificate{
		SerialNumber:          serial,
		Subject:               name,
		NotBefore:             nb,
		NotAfter:              na,
		SubjectKeyId:          ski[:],
		BasicConstraintsValid: true,
		IsCA:                  spec.IsCA,
		SignatureAlgorithm:    spec.SigAlg,
	}
	if spec.SigAlg == 0 {
		tmpl.SignatureAlgorithm = x509.ECDSAWithSHA256
	}
	if spec.RawSubject != nil {
		tmpl.RawSubject = spec.RawSubject
	}
	if spec.SubjectKeyID != nil {
		tmpl.SubjectKeyId = spec.SubjectKeyID
	}
	if spec.AuthorityKeyID != nil {
		tmpl.AuthorityKeyId = spec.AuthorityKeyID
	}
	if spec.IsCA {
		tmpl.KeyUsage = x509.KeyUsageCertSign | x509.KeyUsageCRLSign
		if spec.MaxPathLen > 0 {
			tmpl.MaxPathLen = spec.MaxPathLen
		} else if spec.MaxPathLen < 0 {
			tmpl.MaxPathLen = 0
			tmpl.MaxPathLenZero = true
		}
	} else {
		tmpl.KeyUsage = x509.KeyUsageDigitalSignature | x509.KeyUsageContentCommitment
	}
	tmpl.ExtKeyUsage = spec.ExtKeyUsage
	if !spec.NoCRLDP {
		tmpl.CRLDistributionPoints = spec.CRLDP
		if tmpl.CRLDistributionPoints == nil {
			tmpl.CRLDistributionPoints = []string{RootCRLURL}
		}
	}
	if spec.SGXExt != nil && !spec.NoSGXExt {
		tmpl.ExtraExtensions = append(tmpl.ExtraExtensions, pkix.Extension{Id: OidSGX, Value: spec.SGXExt})
	}
	tmpl.ExtraExtensions = append(tmpl.ExtraExtensions, spec.ExtraExts...)
	par := parent
	if par == nil {
		par = tmpl
		if spec.AuthorityKeyID == nil {
			tmpl.AuthorityKeyId = tmpl.SubjectKeyId
		}
	}
	if spec.IssuerName != nil {
		// CreateCertificate copies parent.Subject (RawSubject when present); fake a parent.
		cp := *par
		cp.Subject = *spec.IssuerName
		cp.RawSubject = nil
		par = &cp
	}
	if pk, ok := par.PublicKey.(*ecdsa.PublicKey); par != tmpl && (!ok || pk.X.Cmp(signer.Pub.X) != 0 || pk.Y.Cmp(signer.Pub.Y) != 0) {
		// signing with a key that is not the named parent's: CreateCertificate insists they match
		cp := *par
		cp.PublicKey = &signer.Pub
		par = &cp
	}
	var subjectPub any = &spec.Key.Pub
	if spec.PubKey != nil {
		subjectPub = spec.PubKey
	}
	der, err := x509.CreateCertificate(rand.Reader, tmpl, par, subjectPub, signer)
	if err != nil {
		panic(fmt.Sprintf("harness: CreateCertificate(%s): %v", spec.CN, err))
	}
	c, err := x509.ParseCertificate(der)
	if err != nil {
		panic(fmt.Sprintf("harness: ParseCertificate(%s): %v", spec.CN, err))
	}
	return c
}

// PKI is one Intel look-alike hierarchy.
type PKI struct {
	Name                               string
	RootKey, InterKey, LeafKey, TcbKey *Key
	Root, Inter, Leaf, Tcb             *x509.Certificate
}

// Platform is what a PCK certificate says about the platform.
type Platform struct {
	PPID   []byte   // 16
	CPUSVN [16]byte // component SVNs
	PCESVN uint16
	PCEID  []byte // 2
	FMSPC  []byte // 6
	// CPUSVNBlob, when non-nil, is the content of the opaque CPUSVN octet string (element 18); by default it
	// repeats the sixteen component values, as Intel issues it.
	CPUSVNBlob []byte
	// TcbOrder, when non-nil, is the order in which the 18 TCB elements are listed (indices into the
	// canonical order: components 1..16, PCESVN, CPUSVN).
	TcbOrder []int
}

// Blob is the content of the CPUSVN octet string.
func (p Platform) Blob() []byte {
	if p.CPUSVNBlob != nil {
		return p.CPUSVNBlob
	}
	return p.CPUSVN[:]
}

// DefaultPlatform is the baseline honest platform.
func DefaultPlatform() Platform {
	p := Platform{PPID: Fill("ppid", 16), PCESVN: 11, PCEID: []byte{0, 0}, FMSPC: []byte{0x50, 0x80, 0x6f, 0, 0, 0}}
	copy(p.CPUSVN[:], []byte{5, 5, 2, 2, 3, 1, 0, 3, 0, 0, 0, 0, 0, 0, 0, 0})
	return p
}

// NewPKI builds the hierarchy named name (keys derive from name and seed).
func NewPKI(name string, plat Platform) *PKI {
	p := &PKI{Name: name,
		RootKey: NewKey(name + "/root"), InterKey: NewKey(name + "/inter"),
		LeafKey: NewKey(name + "/leaf"), TcbKey: NewKey(name + "/tcb")}
	p.Root = MakeCert(CertSpec{CN: CNRoot, IsCA: true, Key: p.RootKey, MaxPathLen: 1, NotAfter: T0.AddDate(19, 0, 0)}, nil, p.RootKey)
	p.Inter = MakeCert(CertSpec{CN: CNPlatform, IsCA: true, Key: p.InterKey, MaxPathLen: -1}, p.Root, p.RootKey)
	p.Leaf = MakeCert(CertSpec{CN: CNLeaf, Key: p.LeafKey, SGXExt: SGXExtension(plat),
		CRLDP: []string{"https://api.trustedservices.intel.com/sgx/certification/v4/pckcrl?ca=platform&encoding=der"}}, p.Inter, p.InterKey)
	p.Tcb = MakeCert(CertSpec{CN: CNTcb, Key: p.TcbKey}, p.Root, p.RootKey)
	return p
}

// WithLeaf returns a copy of the PKI whose leaf is re-issued for plat.
func (p *PKI) WithLeaf(plat Platform) *PKI {
	q := *p
	q.Leaf = MakeCert(CertSpec{CN: CNLeaf, Key: p.LeafKey, SGXExt: SGXExtension(plat),
		CRLDP: []string{"https://api.trustedservices.intel.com/sgx/certification/v4/pckcrl?ca=platform&encoding=der"}}, p.Inter, p.InterKey)
	return &q
}

// PEM encodes certificates as concatenated CERTIFICATE blocks.
func PEM(certs ...*x509.Certificate) []byte {
	var b bytes.Buffer
	for _, c := range certs {
		pem.Encode(&b, &pem.Block{Type: "CERTIFICATE", Bytes: c.Raw})
	}
	return b.Bytes()
}

// PEMBlock encodes arbitrary DER with an arbitrary block type.
func PEMBlock(typ string, der []byte) []byte {
	return pem.EncodeToMemory(&pem.Block{Type: typ, Bytes: der})
}

// Chain is the PEM chain as it appears in a quote.
func (p *PKI) Chain() []byte { return PEM(p.Leaf, p.Inter, p.Root) }

// Pool returns a pool with the given roots.
func Pool(roots ...*x509.Certificate) *x509.CertPool {
	cp := x509.NewCertPool()
	for _, r := range roots {
		cp.AddCert(r)
	}
	return cp
}

// ---- minimal DER encoder (independent of the library's decoders) ----

var (
	OidSGX   = asn1.ObjectIdentifier{1, 2, 840, 113741, 1, 13, 1}
	oidSGXns = []int{1, 2, 840, 113741, 1, 13, 1}
)

// DER wraps content in tag + definite length.
func DER(tag byte, content ...[]byte) []byte {
	var c []byte
	for _, x := range content {
		c = append(c, x...)
	}
	out := []byte{tag}
	n := len(c)
	switch {
	case n < 0x80:
		out = append(out, byte(n))
	case n < 0x100:
		out = append(out, 0x81, byte(n))
	case n < 0x10000:
		out = append(out, 0x82, byte(n>>8), byte(n))
	default:
		out = append(out, 0x83, byte(n>>16), byte(n>>8), byte(n))
	}
	return append(out, c...)
}

// DERInt encodes a (possibly negative, possibly huge) integer.
func DERInt(v *big.Int) []byte {
	if v.Sign() == 0 {
		return DER(0x02, []byte{0})
	}
	if v.Sign() > 0 {
		b := v.Bytes()
		if b[0]&0x80 != 0 {
			b = append([]byte{0}, b...)
		}
		return DER(0x02, b)
	}
	// two's complement
	n := len(v.Bytes()) + 1
	mod := new(big.Int).Lsh(big.NewInt(1), uint(8*n))
	t := new(big.Int).Add(mod, v)
	b := t.Bytes()
	for len(b) > 1 && b[0] == 0xff && b[1]&0x80 != 0 {
		b = b[1:]
	}
	return DER(0x02, b)
}

// DERInt64 encodes a small integer.
func DERInt64(v int64) []byte { return DERInt(big.NewInt(v)) }

// DEROID encodes an object identifier.
func DEROID(oid []int) []byte {
	var c []byte
	c = append(c, byte(oid[0]*40+oid[1]))
	for _, v := range oid[2:] {
		var tmp []byte
		tmp = append(tmp, byte(v&0x7f))
		v >>= 7
		for v > 0 {
			tmp = append([]byte{byte(v&0x7f) | 0x80}, tmp...)
			v >>= 7
		}
		c = append(c, tmp...)
	}
	return DER(0x06, c)
}

// DEROctet encodes an OCTET STRING.
func DEROctet(b []byte) []byte { return DER(0x04, b) }

// DERSeq encodes a SEQUENCE.
func DERSeq(items ...[]byte) []byte { return DER(0x30, items...) }

// SGXOid returns the OID under the SGX extension namespace.
func SGXOid(sub ...int) []int { return append(append([]int{}, oidSGXns...), sub...) }

// SGXElems returns the five top-level elements of the SGX extension and the 18
// TCB elements separately, so callers can permute or damage them.
func SGXElems(p Platform) (top map[string][]byte, tcb [][]byte) {
	for i := 0; i < 16; i++ {
		tcb = append(tcb, DERSeq(DEROID(SGXOid(2, i+1)), DERInt64(int64(p.CPUSVN[i]))))
	}
	tcb = append(tcb, DERSeq(DEROID(SGXOid(2, 17)), DERInt64(int64(p.PCESVN))))
	tcb = append(tcb, DERSeq(DEROID(SGXOid(2, 18)), DEROctet(p.Blob())))
	top = map[string][]byte{
		"ppid":  DERSeq(DEROID(SGXOid(1)), DEROctet(p.PPID)),
		"pceid": DERSeq(DEROID(SGXOid(3)), DEROctet(p.PCEID)),
		"fmspc": DERSeq(DEROID(SGXOid(4)), DEROctet(p.FMSPC)),
		"type":  DERSeq(DEROID(SGXOid(5)), DER(0x0a, []byte{1})),
	}
	return top, tcb
}

// SGXTcbElem assembles the TCB element from its 18 members.
func SGXTcbElem(tcb [][]byte) []byte {
	return DERSeq(DEROID(SGXOid(2)), DERSeq(tcb...))
}

// SGXExtension is the extension value as Intel lays it out.
func SGXExtension(p Platform) []byte {
	top, tcb := SGXElems(p)
	if p.TcbOrder != nil {
		re := make([][]byte, 0, len(tcb))
		for _, k := range p.TcbOrder {
			re = append(re, tcb[k])
		}
		tcb = re
	}
	return DERSeq(top["ppid"], SGXTcbElem(tcb), top["pceid"], top["fmspc"], top["type"])
}

// ClonePKI builds a look-alike of src that also copies every serial number (an attacker chooses
// the serials of the certificates he issues): same names, same serials, same validity, other keys.
func ClonePKI(src *PKI, name string, plat Platform) *PKI {
	p := &PKI{Name: name, RootKey: NewKey(name + "/root"), InterKey: NewKey(name + "/inter"), LeafKey: NewKey(name + "/leaf"), TcbKey: NewKey(name + "/tcb")}
	p.Root = MakeCert(CertSpec{CN: CNRoot, IsCA: true, Key: p.RootKey, MaxPathLen: 1, Serial: src.Root.SerialNumber, NotBefore: src.Root.NotBefore, NotAfter: src.Root.NotAfter}, nil, p.RootKey)
	p.Inter = MakeCert(CertSpec{CN: CNPlatform, IsCA: true, Key: p.InterKey, MaxPathLen: -1, Serial: src.Inter.SerialNumber}, p.Root, p.RootKey)
	p.Leaf = MakeCert(CertSpec{CN: CNLeaf, Key: p.LeafKey, SGXExt: SGXExtension(plat), Serial: src.Leaf.SerialNumber,
		CRLDP: []string{"https://api.trustedservices.intel.com/sgx/certification/v4/pckcrl?ca=platform&encoding=der"}}, p.Inter, p.InterKey)
	p.Tcb = MakeCert(CertSpec{CN: CNTcb, Key: p.TcbKey, Serial: src.Tcb.SerialNumber}, p.Root, p.RootKey)
	return p
}
