package world

import (
	"crypto/sha512"
	"errors"
	"fmt"
	"io/fs"
	"os"
	"sort"
	"strconv"
	"strings"
	"syscall"
	"time"
)

// TSM is a model of the configfs-tsm "rtmrs" subsystem implementing
// configfsi.Client: entries are directories, each bound to at most one RTMR
// index through its "index" attribute (one entry per index, EBUSY otherwise);
// writing 48 bytes to "digest" extends the bound register with SHA-384.
type TSM struct {
	Entries  map[string]*TSMEntry
	Files    map[string]bool // plain files directly under rtmrs/
	Regs     [4][48]byte
	Log      []TSMOp
	seq      int
	MaxIndex int
}

// TSMEntry is one rtmrs/<name> directory.
type TSMEntry struct {
	Index    int    // -1 when unbound
	RawIndex string // what reading "index" returns when not a bound number
	Order    int
}

// TSMOp is one client operation seen by the model.
type TSMOp struct {
	Kind string // readdir, read, mkdir, write, remove
	Path string
	Data []byte
	Err  string
}

const tsmRoot = "/sys/kernel/config/tsm/rtmrs"

func NewTSM() *TSM {
	return &TSM{Entries: map[string]*TSMEntry{}, Files: map[string]bool{}, MaxIndex: 3}
}

// Precreate adds an entry made by "someone else".
func (t *TSM) Precreate(name string, index int, raw string) {
	t.seq++
	t.Entries[name] = &TSMEntry{Index: index, RawIndex: raw, Order: t.seq}
}

func (t *TSM) log(kind, path string, data []byte, err error) {
	op := TSMOp{Kind: kind, Path: path, Data: append([]byte(nil), data...)}
	if err != nil {
		op.Err = err.Error()
	}
	t.Log = append(t.Log, op)
}

type dirEntry struct {
	name string
	dir  bool
}

func (d dirEntry) Name() string { return d.name }
func (d dirEntry) IsDir() bool  { return d.dir }
func (d dirEntry) Type() fs.FileMode {
	if d.dir {
		return fs.ModeDir
	}
	return 0
}
func (d dirEntry) Info() (fs.FileInfo, error) { return fileInfo{d}, nil }

type fileInfo struct{ d dirEntry }

func (f fileInfo) Name() string       { return f.d.name }
func (f fileInfo) Size() int64        { return 0 }
func (f fileInfo) Mode() fs.FileMode  { return f.d.Type() | 0o755 }
func (f fileInfo) ModTime() time.Time { return time.Time{} }
func (f fileInfo) IsDir() bool        { return f.d.dir }
func (f fileInfo) Sys() any           { return nil }

func (t *TSM) ReadDir(dirname string) ([]os.DirEntry, error) {
	if strings.TrimSuffix(dirname, "/") != tsmRoot {
		err := &fs.PathError{Op: "open", Path: dirname, Err: syscall.ENOENT}
		t.log("readdir", dirname, nil, err)
		return nil, err
	}
	var out []os.DirEntry
	for n := range t.Entries {
		out = append(out, dirEntry{n, true})
	}
	for n := range t.Files {
		out = append(out, dirEntry{n, false})
	}
	sort.Slice(out, func(i, j int) bool { return out[i].Name() < out[j].Name() })
	t.log("readdir", dirname, nil, nil)
	return out, nil
}

func (t *TSM) split(name string) (entry, attr string, ok bool) {
	if !strings.HasPrefix(name, tsmRoot+"/") {
		return "", "", false
	}
	parts := strings.Split(strings.TrimPrefix(name, tsmRoot+"/"), "/")
	if len(parts) != 2 {
		return "", "", false
	}
	return parts[0], parts[1], true
}

func (t *TSM) ReadFile(name string) ([]byte, error) {
	e, attr, ok := t.split(name)
	ent := t.Entries[e]
	if !ok || ent == nil {
		err := &fs.PathError{Op: "open", Path: name, Err: syscall.ENOENT}
		t.log("read", name, nil, err)
		return nil, err
	}
	var out []byte
	var err error
	switch attr {
	case "index":
		if ent.Index >= 0 {
			out = []byte(strconv.Itoa(ent.Index) + "\n")
		} else {
			out = []byte(ent.RawIndex)
		}
	case "digest":
		if ent.Index < 0 {
			err = &fs.PathError{Op: "read", Path: name, Err: syscall.EINVAL}
		} else {
			out = append([]byte(nil), t.Regs[ent.Index][:]...)
		}
	case "tcg_map":
		out = []byte("PCR[1,7]\n")
	default:
		err = &fs.PathError{Op: "open", Path: name, Err: syscall.ENOENT}
	}
	t.log("read", name, nil, err)
	return out, err
}

func (t *TSM) MkdirTemp(dir, pattern string) (string, error) {
	if strings.TrimSuffix(dir, "/") != tsmRoot {
		err := &fs.PathError{Op: "mkdir", Path: dir, Err: syscall.ENOENT}
		t.log("mkdir", dir+"/"+pattern, nil, err)
		return "", err
	}
	t.seq++
	name := fmt.Sprintf("%s%08d", strings.TrimSuffix(pattern, "*"), 7919*t.seq)
	t.Entries[name] = &TSMEntry{Index: -1, Order: t.seq}
	t.log("mkdir", dir+"/"+pattern, nil, nil)
	return tsmRoot + "/" + name, nil
}

func (t *TSM) WriteFile(name string, contents []byte) error {
	e, attr, ok := t.split(name)
	ent := t.Entries[e]
	var err error
	switch {
	case !ok || ent == nil:
		err = &fs.PathError{Op: "open", Path: name, Err: syscall.ENOENT}
	case attr == "index":
		v, perr := strconv.Atoi(strings.TrimSpace(string(contents)))
		switch {
		case perr != nil || v < 0 || v > t.MaxIndex:
			err = &fs.PathError{Op: "write", Path: name, Err: syscall.EINVAL}
		case ent.Index >= 0:
			err = &fs.PathError{Op: "write", Path: name, Err: syscall.EBUSY}
		default:
			for _, o := range t.Entries {
				if o.Index == v {
					err = &fs.PathError{Op: "write", Path: name, Err: syscall.EBUSY}
				}
			}
			if err == nil {
				ent.Index = v
			}
		}
	case attr == "digest":
		switch {
		case ent.Index < 0:
			err = &fs.PathError{Op: "write", Path: name, Err: syscall.EINVAL}
		case len(contents) != 48:
			err = &fs.PathError{Op: "write", Path: name, Err: syscall.EINVAL}
		default:
			h := sha512.New384()
			h.Write(t.Regs[ent.Index][:])
			h.Write(contents)
			copy(t.Regs[ent.Index][:], h.Sum(nil))
		}
	default:
		err = &fs.PathError{Op: "open", Path: name, Err: syscall.EACCES}
	}
	t.log("write", name, contents, err)
	return err
}

func (t *TSM) RemoveAll(path string) error {
	e := strings.TrimPrefix(path, tsmRoot+"/")
	if _, ok := t.Entries[e]; ok {
		delete(t.Entries, e)
		t.log("remove", path, nil, nil)
		return nil
	}
	err := errors.New("remove: no such entry")
	t.log("remove", path, nil, err)
	return nil
}

// EntryFor returns the name of the entry bound to index ("" if none).
func (t *TSM) EntryFor(index int) string {
	for n, e := range t.Entries {
		if e.Index == index {
			return n
		}
	}
	return ""
}

// Key is the canonical state: register contents plus the index->entry binding
// with entry names replaced by creation order (MkdirTemp names are random in the
// real system and unobservable by the property).
func (t *TSM) Key() string {
	type ent struct {
		order, index int
		raw          string
	}
	var es []ent
	for _, e := range t.Entries {
		es = append(es, ent{e.Order, e.Index, e.RawIndex})
	}
	sort.Slice(es, func(i, j int) bool { return es[i].order < es[j].order })
	var b strings.Builder
	for i := range t.Regs {
		fmt.Fprintf(&b, "%x;", t.Regs[i][:])
	}
	for i, e := range es {
		fmt.Fprintf(&b, "e%d=%d%q,", i, e.index, e.raw)
	}
	fmt.Fprintf(&b, "files=%d", len(t.Files))
	return b.String()
}
