package world

import (
	"crypto/sha256"
	"encoding/binary"
)

// Layout of a v4 TDX quote, transcribed from the Intel TDX DCAP quote
// generation library's "Quote Format" (version 4) tables — deliberately NOT
// taken from abi.go, so that the two can disagree.
const (
	OffHeader       = 0
	LenHeader       = 48
	OffBody         = 48
	LenBody         = 584
	OffSigDataSize  = 632
	OffSigData      = 636
	LenSig          = 64
	LenAttKey       = 64
	LenQEReport     = 384
	LenCertDataHdr  = 6
	CertTypeQE      = 6
	CertTypePCKChn  = 5
	QuoteVersion    = 4
	AttKeyTypeP256  = 2
	TeeTypeTDX      = 0x81
	MinQuoteLibrary = 1020
)

// Field is one named region [Off, Off+Len) of a fixed layout.
type Field struct {
	Name     string
	Off, Len int
}

// HeaderFields / BodyFields / QEReportFields: offsets relative to the region.
var HeaderFields = []Field{
	{"version", 0, 2}, {"att_key_type", 2, 2}, {"tee_type", 4, 4}, {"pce_svn", 8, 2}, {"qe_svn", 10, 2},
	{"qe_vendor_id", 12, 16}, {"user_data", 28, 20},
}
var BodyFields = []Field{
	{"tee_tcb_svn", 0, 16}, {"mr_seam", 16, 48}, {"mr_signer_seam", 64, 48}, {"seam_attributes", 112, 8},
	{"td_attributes", 120, 8}, {"xfam", 128, 8}, {"mr_td", 136, 48}, {"mr_config_id", 184, 48},
	{"mr_owner", 232, 48}, {"mr_owner_config", 280, 48}, {"rtmr0", 328, 48}, {"rtmr1", 376, 48},
	{"rtmr2", 424, 48}, {"rtmr3", 472, 48}, {"report_data", 520, 64},
}
var QEReportFields = []Field{
	{"cpu_svn", 0, 16}, {"misc_select", 16, 4}, {"reserved1", 20, 28}, {"attributes", 48, 16},
	{"mr_enclave", 64, 32}, {"reserved2", 96, 32}, {"mr_signer", 128, 32}, {"reserved3", 160, 96},
	{"isv_prod_id", 256, 2}, {"isv_svn", 258, 2}, {"reserved4", 260, 60}, {"report_data", 320, 64},
}

// FieldOf finds a field by name.
func FieldOf(fs []Field, name string) Field {
	for _, f := range fs {
		if f.Name == name {
			return f
		}
	}
	panic("harness: no field " + name)
}

// IntelVendorID is the QE vendor id Intel's QE reports.
var IntelVendorID = []byte{0x93, 0x9a, 0x72, 0x33, 0xf7, 0x9c, 0x4c, 0xa9, 0x94, 0x0a, 0x0d, 0xb3, 0x95, 0x7f, 0x06, 0x07}

// QuoteParts are the variable pieces of a v4 quote.
type QuoteParts struct {
	Header   []byte // 48
	Body     []byte // 584
	Sig      []byte // 64, over Header||Body
	AttKey   []byte // 64
	QEReport []byte // 384
	QESig    []byte // 64
	Auth     []byte
	Chain    []byte
	Extra    []byte
	// overrides for size / type fields; nil means consistent with actual lengths
	SigDataSize *uint32
	CertType    *uint16
	CertSize    *uint32
	AuthSize    *uint16
	ChainType   *uint16
	ChainSize   *uint32
}

// Regions of an assembled quote, for mutators and oracles.
type Regions struct {
	SigDataSize, Sig, AttKey, CertType, CertSize, QEReport, QESig, AuthSize, Auth, ChainType, ChainSize, Chain, Extra [2]int
}

func le16(v uint16) []byte { b := make([]byte, 2); binary.LittleEndian.PutUint16(b, v); return b }
func le32(v uint32) []byte { b := make([]byte, 4); binary.LittleEndian.PutUint32(b, v); return b }

// Bytes assembles the quote and reports where each region landed.
func (p *QuoteParts) Bytes() ([]byte, Regions) {
	var r Regions
	certData := LenQEReport + LenSig + 2 + len(p.Auth) + LenCertDataHdr + len(p.Chain)
	sigData := LenSig + LenAttKey + LenCertDataHdr + certData
	out := make([]byte, 0, OffSigData+sigData+len(p.Extra))
	out = append(out, p.Header...)
	out = append(out, p.Body...)
	mark := func(reg *[2]int, b []byte) { reg[0] = len(out); out = append(out, b...); reg[1] = len(out) }
	v32 := func(o *uint32, d int) []byte {
		if o != nil {
			return le32(*o)
		}
		return le32(uint32(d))
	}
	v16 := func(o *uint16, d int) []byte {
		if o != nil {
			return le16(*o)
		}
		return le16(uint16(d))
	}
	mark(&r.SigDataSize, v32(p.SigDataSize, sigData))
	mark(&r.Sig, p.Sig)
	mark(&r.AttKey, p.AttKey)
	mark(&r.CertType, v16(p.CertType, CertTypeQE))
	mark(&r.CertSize, v32(p.CertSize, certData))
	mark(&r.QEReport, p.QEReport)
	mark(&r.QESig, p.QESig)
	mark(&r.AuthSize, v16(p.AuthSize, len(p.Auth)))
	mark(&r.Auth, p.Auth)
	mark(&r.ChainType, v16(p.ChainType, CertTypePCKChn))
	mark(&r.ChainSize, v32(p.ChainSize, len(p.Chain)))
	mark(&r.Chain, p.Chain)
	mark(&r.Extra, p.Extra)
	return out, r
}

// QuoteSpec describes an honest quote; deviations are applied to the parts afterwards.
type QuoteSpec struct {
	PKI       *PKI
	AttKey    *Key
	Auth      []byte
	Extra     []byte
	NulAfter  bool
	TeeTcbSvn []byte // 16; nil = default
	QeSvn     uint16
	PceSvn    uint16
	FillLabel string // changes every free field's content
	// QE report contents
	MiscSelect   uint32
	Attributes   []byte // 16
	MrSigner     []byte // 32
	IsvProdID    uint16
	IsvSvn       uint16
	Rtmrs        [4][]byte
	ReportData   []byte
	MrSeamSigner []byte // MRSIGNERSEAM (48); nil = zeros
	SeamAttrs    []byte // 8; nil = zeros
}

// DefaultQEMrSigner is the QE signer the generated QE identity expects.
var DefaultQEMrSigner = Fill("qe-mrsigner", 32)

// Parts builds honest parts for spec (all three signature links genuine).
func (s QuoteSpec) Parts() *QuoteParts {
	lbl := s.FillLabel
	if lbl == "" {
		lbl = "q"
	}
	att := s.AttKey
	if att == nil {
		att = NewKey("att")
	}
	h := make([]byte, LenHeader)
	binary.LittleEndian.PutUint16(h[0:], QuoteVersion)
	binary.LittleEndian.PutUint16(h[2:], AttKeyTypeP256)
	binary.LittleEndian.PutUint32(h[4:], TeeTypeTDX)
	binary.LittleEndian.PutUint16(h[8:], s.PceSvn)
	binary.LittleEndian.PutUint16(h[10:], s.QeSvn)
	copy(h[12:28], IntelVendorID)
	copy(h[28:48], Fill(lbl+"/user_data", 20))
	b := make([]byte, LenBody)
	for _, f := range BodyFields {
		copy(b[f.Off:f.Off+f.Len], Fill(lbl+"/"+f.Name, f.Len))
	}
	svn := s.TeeTcbSvn
	if svn == nil {
		svn = []byte{3, 0, 5, 0, 0, 0, 0, 0, 0, 0, 0, 0, 0, 0, 0, 0}
	}
	copy(b[0:16], svn)
	put := func(name string, v []byte) {
		f := FieldOf(BodyFields, name)
		for i := 0; i < f.Len; i++ {
			b[f.Off+i] = 0
		}
		copy(b[f.Off:f.Off+f.Len], v)
	}
	put("mr_signer_seam", s.MrSeamSigner)
	put("seam_attributes", s.SeamAttrs)
	// TD attributes / XFAM that satisfy the architectural fixed-bit masks.
	put("td_attributes", []byte{0x00, 0x00, 0x00, 0x10, 0, 0, 0, 0})
	put("xfam", []byte{0xe7, 0x1a, 0x06, 0, 0, 0, 0, 0})
	for i := 0; i < 4; i++ {
		if s.Rtmrs[i] != nil {
			put([]string{"rtmr0", "rtmr1", "rtmr2", "rtmr3"}[i], s.Rtmrs[i])
		}
	}
	if s.ReportData != nil {
		put("report_data", s.ReportData)
	}
	qe := make([]byte, LenQEReport)
	for _, f := range QEReportFields {
		copy(qe[f.Off:f.Off+f.Len], Fill(lbl+"/qe/"+f.Name, f.Len))
	}
	binary.LittleEndian.PutUint32(qe[16:], s.MiscSelect)
	attr := s.Attributes
	if attr == nil {
		attr = []byte{0x11, 0, 0, 0, 0, 0, 0, 0, 0, 0, 0, 0, 0, 0, 0, 0}
	}
	copy(qe[48:64], attr)
	ms := s.MrSigner
	if ms == nil {
		ms = DefaultQEMrSigner
	}
	copy(qe[128:160], ms)
	binary.LittleEndian.PutUint16(qe[256:], s.IsvProdID)
	binary.LittleEndian.PutUint16(qe[258:], s.IsvSvn)
	p := &QuoteParts{Header: h, Body: b, AttKey: att.Raw64(), QEReport: qe, Auth: s.Auth, Extra: s.Extra}
	if p.Auth == nil {
		p.Auth = Fill(lbl+"/auth", 32)
	}
	p.Chain = s.PKI.Chain()
	if s.NulAfter {
		p.Chain = append(p.Chain, 0)
	}
	p.BindReportData()
	p.Sig = att.SignRaw(append(append([]byte{}, h...), b...))
	p.QESig = s.PKI.LeafKey.SignRaw(qe)
	return p
}

// BindReportData sets QE report-data to SHA-256(att key || auth) || 0^32.
func (p *QuoteParts) BindReportData() {
	d := sha256.Sum256(append(append([]byte{}, p.AttKey...), p.Auth...))
	copy(p.QEReport[320:352], d[:])
	for i := 352; i < 384; i++ {
		p.QEReport[i] = 0
	}
}

// SignBody (re)signs header||body with k.
func (p *QuoteParts) SignBody(k *Key) {
	p.Sig = k.SignRaw(append(append([]byte{}, p.Header...), p.Body...))
}

// SignQE (re)signs the QE report with k.
func (p *QuoteParts) SignQE(k *Key) { p.QESig = k.SignRaw(p.QEReport) }

// Clone deep-copies the parts.
func (p *QuoteParts) Clone() *QuoteParts {
	c := *p
	cp := func(b []byte) []byte { return append([]byte(nil), b...) }
	c.Header, c.Body, c.Sig, c.AttKey, c.QEReport, c.QESig = cp(p.Header), cp(p.Body), cp(p.Sig), cp(p.AttKey), cp(p.QEReport), cp(p.QESig)
	c.Auth, c.Chain, c.Extra = cp(p.Auth), cp(p.Chain), cp(p.Extra)
	if p.Auth != nil && c.Auth == nil {
		c.Auth = []byte{}
	}
	return &c
}
