package world

import (
	"fmt"
	"runtime/debug"
)

func toString(v any) string { return fmt.Sprint(v) }

// Recover turns a panic into *PanicError stored in *err. Use with defer.
func Recover(err *error) {
	if r := recover(); r != nil {
		*err = &PanicError{Val: r, Stack: string(debug.Stack())}
	}
}

// IsPanic reports whether err is a recovered panic.
func IsPanic(err error) bool {
	_, ok := err.(*PanicError)
	return ok
}
