package world

import (
	"crypto/rand"
	"crypto/sha256"
	"crypto/x509"
	"crypto/x509/pkix"
	"encoding/asn1"
	"encoding/hex"
	"encoding/json"
	"fmt"
	"math/big"
	"net/url"
	"strings"
	"sync"
	"time"
)

// PCS endpoints (Intel's documented v4 URLs; not taken from pcs.go).
const (
	URLQeIdentity = "https://api.trustedservices.intel.com/tdx/certification/v4/qe/identity"
	urlTcbPrefix  = "https://api.trustedservices.intel.com/tdx/certification/v4/tcb?fmspc="
	urlCrlPrefix  = "https://api.trustedservices.intel.com/sgx/certification/v4/pckcrl?ca="
	HdrTcbInfo    = "Tcb-Info-Issuer-Chain"
	HdrQeIdentity = "Sgx-Enclave-Identity-Issuer-Chain"
	HdrPckCrl     = "Sgx-Pck-Crl-Issuer-Chain"
)

func URLTcbInfo(fmspcHex string) string { return urlTcbPrefix + fmspcHex }
func URLPckCrl(ca string) string        { return urlCrlPrefix + ca + "&encoding=der" }

// Statuses are the seven TCB statuses Intel defines.
var Statuses = []string{"UpToDate", "SWHardeningNeeded", "ConfigurationNeeded", "ConfigurationAndSWHardeningNeeded", "OutOfDate", "OutOfDateConfigurationNeeded", "Revoked"}

type Comp struct {
	Svn      int    `json:"svn"`
	Category string `json:"category,omitempty"`
	Type     string `json:"type,omitempty"`
}
type Tcb struct {
	Sgx    []Comp `json:"sgxtcbcomponents,omitempty"`
	Pcesvn *int   `json:"pcesvn,omitempty"`
	Tdx    []Comp `json:"tdxtcbcomponents,omitempty"`
	Isvsvn *int   `json:"isvsvn,omitempty"`
}
type Level struct {
	Tcb         Tcb      `json:"tcb"`
	TcbDate     string   `json:"tcbDate"`
	TcbStatus   string   `json:"tcbStatus"`
	AdvisoryIDs []string `json:"advisoryIDs,omitempty"`
}
type TdxModule struct {
	Mrsigner       string `json:"mrsigner"`
	Attributes     string `json:"attributes"`
	AttributesMask string `json:"attributesMask"`
}
type ModuleIdentity struct {
	ID             string  `json:"id"`
	Mrsigner       string  `json:"mrsigner"`
	Attributes     string  `json:"attributes"`
	AttributesMask string  `json:"attributesMask"`
	TcbLevels      []Level `json:"tcbLevels"`
}
type TcbInfo struct {
	ID                      string           `json:"id"`
	Version                 int              `json:"version"`
	IssueDate               string           `json:"issueDate"`
	NextUpdate              string           `json:"nextUpdate"`
	Fmspc                   string           `json:"fmspc"`
	PceID                   string           `json:"pceId"`
	TcbType                 int              `json:"tcbType"`
	TcbEvaluationDataNumber int              `json:"tcbEvaluationDataNumber"`
	TdxModule               TdxModule        `json:"tdxModule"`
	TdxModuleIdentities     []ModuleIdentity `json:"tdxModuleIdentities,omitempty"`
	TcbLevels               []Level          `json:"tcbLevels"`
}
type EnclaveIdentity struct {
	ID                      string  `json:"id"`
	Version                 int     `json:"version"`
	IssueDate               string  `json:"issueDate"`
	NextUpdate              string  `json:"nextUpdate"`
	TcbEvaluationDataNumber int     `json:"tcbEvaluationDataNumber"`
	Miscselect              string  `json:"miscselect"`
	MiscselectMask          string  `json:"miscselectMask"`
	Attributes              string  `json:"attributes"`
	AttributesMask          string  `json:"attributesMask"`
	Mrsigner                string  `json:"mrsigner"`
	IsvProdID               int     `json:"isvprodid"`
	TcbLevels               []Level `json:"tcbLevels"`
}

func TimeStr(t time.Time) string { return t.UTC().Format("2006-01-02T15:04:05Z") }
func IntP(v int) *int            { return &v }

// CompsOf turns 16 bytes into component entries.
func CompsOf(b []byte) []Comp {
	out := make([]Comp, len(b))
	for i, v := range b {
		out[i] = Comp{Svn: int(v)}
	}
	return out
}

// PlatformLevel is a TCB level that exactly equals the platform (so it matches).
func PlatformLevel(p Platform, teeTcbSvn []byte, status string) Level {
	return Level{Tcb: Tcb{Sgx: CompsOf(p.CPUSVN[:]), Pcesvn: IntP(int(p.PCESVN)), Tdx: CompsOf(teeTcbSvn)},
		TcbDate: "2029-06-01T00:00:00Z", TcbStatus: status}
}

// DefaultTcbInfo is in date at T0, matches platform p and the default quote body.
func DefaultTcbInfo(p Platform, teeTcbSvn []byte) TcbInfo {
	return TcbInfo{ID: "TDX", Version: 3, IssueDate: TimeStr(T0.AddDate(0, 0, -10)), NextUpdate: TimeStr(T0.AddDate(0, 0, 20)),
		Fmspc: hex.EncodeToString(p.FMSPC), PceID: hex.EncodeToString(p.PCEID), TcbEvaluationDataNumber: 17,
		TdxModule: TdxModule{Mrsigner: strings.Repeat("00", 48), Attributes: "0000000000000000", AttributesMask: "FFFFFFFFFFFFFFFF"},
		TcbLevels: []Level{PlatformLevel(p, teeTcbSvn, "UpToDate")}}
}

// DefaultQeIdentity matches the QE report the default QuoteSpec produces.
func DefaultQeIdentity() EnclaveIdentity {
	return EnclaveIdentity{ID: "TD_QE", Version: 2, IssueDate: TimeStr(T0.AddDate(0, 0, -10)), NextUpdate: TimeStr(T0.AddDate(0, 0, 21)),
		TcbEvaluationDataNumber: 17, Miscselect: "00000000", MiscselectMask: "FFFFFFFF",
		Attributes: "11000000000000000000000000000000", AttributesMask: "FBFFFFFFFFFFFFFF0000000000000000",
		Mrsigner: hex.EncodeToString(DefaultQEMrSigner), IsvProdID: 0,
		TcbLevels: []Level{{Tcb: Tcb{Isvsvn: IntP(0)}, TcbDate: "2029-06-01T00:00:00Z", TcbStatus: "UpToDate"}}}
}

// MustJSON marshals v compactly.
func MustJSON(v any) []byte {
	b, err := json.Marshal(v)
	if err != nil {
		panic(err)
	}
	return b
}

// SignedBody builds {"<member>":<raw>,"signature":"<hex r||s over raw>"}.
func SignedBody(member string, raw []byte, signer *Key) []byte {
	return BodyWithSig(member, raw, hex.EncodeToString(signer.SignRaw(raw)))
}

// BodyWithSig assembles a response body from raw member bytes and a signature string.
func BodyWithSig(member string, raw []byte, sigHex string) []byte {
	return []byte(fmt.Sprintf(`{"%s":%s,"signature":"%s"}`, member, raw, sigHex))
}

// IssuerChainHeader is the URL-escaped PEM chain PCS puts in the response header.
func IssuerChainHeader(certs ...*x509.Certificate) string {
	return url.QueryEscape(string(PEM(certs...)))
}

// CRLSpec describes one CRL.
type CRLSpec struct {
	Issuer     *x509.Certificate
	Signer     *Key
	Revoked    []*big.Int
	ThisUpdate time.Time
	NextUpdate time.Time
	Number     int64
	// Reason, when non-zero, is the CRL entry reasonCode carried by every entry (RFC 5280, 5.3.1).
	Reason int
	// RevokedAt is the revocation date of every entry (default: one month before T0).
	RevokedAt time.Time
	// EntryExts are further extensions carried by every entry.
	EntryExts []pkix.Extension
	// FirstEntryExts are extensions carried by the first entry only.
	FirstEntryExts []pkix.Extension
	// IssuerUTF8: the CRL spells its issuer name with UTF8String values (the certificate uses PrintableString): the
	// same name in another, equally valid encoding.
	IssuerUTF8 bool
	// AuthorityKeyID, when set, is the key identifier the CRL names as its authority (by default the issuer's own
	// subject key identifier): an identifier is a hint, the CRL is whose key signed it.
	AuthorityKeyID []byte
	// Exts are further extensions of the CRL itself (issuing distribution point, freshest CRL, private ones ...).
	Exts []pkix.Extension
}

// MakeCRL builds a DER CRL.
func MakeCRL(s CRLSpec) []byte {
	tu, nu := s.ThisUpdate, s.NextUpdate
	if tu.IsZero() {
		tu = T0.AddDate(0, 0, -5)
	}
	if nu.IsZero() {
		nu = T0.AddDate(0, 0, 25)
	}
	var rev []pkix.RevokedCertificate
	for _, sn := range s.Revoked {
		at := s.RevokedAt
		if at.IsZero() {
			at = T0.AddDate(0, -1, 0)
		}
		e := pkix.RevokedCertificate{SerialNumber: sn, RevocationTime: at}
		if s.Reason != 0 {
			e.Extensions = []pkix.Extension{{Id: asn1.ObjectIdentifier{2, 5, 29, 21}, Value: []byte{0x0a, 0x01, byte(s.Reason)}}}
		}
		e.Extensions = append(e.Extensions, s.EntryExts...)
		if len(rev) == 0 {
			e.Extensions = append(e.Extensions, s.FirstEntryExts...)
		}
		rev = append(rev, e)
	}
	num := s.Number
	if num == 0 {
		num = 1
	}
	issuer := s.Issuer
	if s.IssuerUTF8 {
		twin := *s.Issuer
		twin.RawSubject = NameAsUTF8(s.Issuer.RawSubject)
		issuer = &twin
	}
	if s.AuthorityKeyID != nil {
		twin := *issuer
		twin.SubjectKeyId = s.AuthorityKeyID
		issuer = &twin
	}
	der, err := x509.CreateRevocationList(rand.Reader, &x509.RevocationList{
		SignatureAlgorithm: x509.ECDSAWithSHA256, RevokedCertificates: rev, Number: big.NewInt(num),
		ThisUpdate: tu, NextUpdate: nu, ExtraExtensions: s.Exts}, issuer, s.Signer)
	if err != nil {
		panic(fmt.Sprintf("harness: CreateRevocationList: %v", err))
	}
	return der
}

// Response is one scripted endpoint answer.
type Response struct {
	Header map[string][]string
	Body   []byte
	Err    error
}

// Getter is a scripted, recording trust.HTTPSGetter.
type Getter struct {
	mu        sync.Mutex
	Responses map[string]Response
	Log       []string
	// Default answers URLs not listed (nil: a 404 error).
	Default func(url string) Response
	// Sequences, when set for a URL, are its successive answers (the last one repeats); they take precedence.
	Sequences map[string][]Response
	served    map[string]int
}

func NewGetter() *Getter {
	return &Getter{Responses: map[string]Response{}, Sequences: map[string][]Response{}, served: map[string]int{}}
}

// Get implements trust.HTTPSGetter.
func (g *Getter) Get(u string) (map[string][]string, []byte, error) {
	g.mu.Lock()
	g.Log = append(g.Log, u)
	r, ok := g.Responses[u]
	if seq := g.Sequences[u]; len(seq) > 0 {
		// successive answers to the same URL (the last one repeats)
		n := g.served[u]
		if n >= len(seq) {
			n = len(seq) - 1
		}
		r, ok = seq[n], true
		g.served[u]++
	}
	g.mu.Unlock()
	if !ok {
		if g.Default != nil {
			r = g.Default(u)
		} else {
			return nil, nil, fmt.Errorf("404: %s", u)
		}
	}
	if r.Err != nil {
		return nil, nil, r.Err
	}
	return r.Header, r.Body, nil
}

// Clone copies the script with an empty log.
func (g *Getter) Clone() *Getter {
	n := NewGetter()
	for k, v := range g.Responses {
		n.Responses[k] = v
	}
	n.Default = g.Default
	for k, v := range g.Sequences {
		n.Sequences[k] = v
	}
	return n
}

// NameAsUTF8 re-encodes a DER distinguished name with every attribute value as a UTF8String.
func NameAsUTF8(raw []byte) []byte {
	var rdns pkix.RDNSequence
	if _, err := asn1.Unmarshal(raw, &rdns); err != nil {
		panic("harness: NameAsUTF8: " + err.Error())
	}
	var sets [][]byte
	for _, set := range rdns {
		var attrs [][]byte
		for _, a := range set {
			oid := make([]int, len(a.Type))
			copy(oid, a.Type)
			attrs = append(attrs, DERSeq(DEROID(oid), DER(0x0c, []byte(fmt.Sprint(a.Value)))))
		}
		sets = append(sets, DER(0x31, attrs...))
	}
	return DERSeq(sets...)
}

// WithoutCRLNumber re-issues a CRL without its cRLNumber extension (a well-formed list that
// x509.CreateRevocationList itself cannot produce), signed by signer.
func WithoutCRLNumber(der []byte, signer *Key) []byte {
	var cl pkix.CertificateList
	if _, err := asn1.Unmarshal(der, &cl); err != nil {
		panic("harness: WithoutCRLNumber: " + err.Error())
	}
	tbs := cl.TBSCertList
	tbs.Raw = nil
	var exts []pkix.Extension
	for _, e := range tbs.Extensions {
		if !e.Id.Equal(asn1.ObjectIdentifier{2, 5, 29, 20}) {
			exts = append(exts, e)
		}
	}
	tbs.Extensions = exts
	raw, err := asn1.Marshal(tbs)
	if err != nil {
		panic("harness: WithoutCRLNumber: " + err.Error())
	}
	rs := signer.SignRaw(raw)
	sig, _ := asn1.Marshal(struct{ R, S *big.Int }{new(big.Int).SetBytes(rs[:32]), new(big.Int).SetBytes(rs[32:])})
	out, err := asn1.Marshal(pkix.CertificateList{TBSCertList: tbs, SignatureAlgorithm: cl.SignatureAlgorithm, SignatureValue: asn1.BitString{Bytes: sig, BitLength: len(sig) * 8}})
	if err != nil {
		panic("harness: WithoutCRLNumber: " + err.Error())
	}
	return out
}

// RecyclingGetter answers like the Getter it wraps but hands out every body in ONE receive buffer that it re-uses for
// the next request (the interface promises nothing about a body once the next Get has been made).
type RecyclingGetter struct {
	Inner *Getter
	buf   []byte
}

// Get implements trust.HTTPSGetter.
func (g *RecyclingGetter) Get(u string) (map[string][]string, []byte, error) {
	h, b, err := g.Inner.Get(u)
	if err != nil || b == nil {
		return h, b, err
	}
	if g.buf == nil {
		g.buf = make([]byte, 1<<20)
	}
	for i := range g.buf {
		g.buf[i] = ' '
	}
	n := copy(g.buf, b)
	return h, g.buf[:n:n], nil
}

// RedateCRL rewrites the nextUpdate of a DER CRL (which must carry thisUpdate and nextUpdate as UTCTime) to the given
// UTCTime text "YYMMDDhhmmssZ" and signs the result again with signer: x509.CreateRevocationList refuses a nextUpdate
// before thisUpdate, an issuer's tool or an attacker holding an old list does not.
func RedateCRL(der []byte, signer *Key, nextUpdateUTC string) []byte {
	var outer struct {
		TBS asn1.RawValue
		Alg pkix.AlgorithmIdentifier
		Sig asn1.BitString
	}
	if _, err := asn1.Unmarshal(der, &outer); err != nil || len(nextUpdateUTC) != 13 {
		panic("harness: RedateCRL: cannot parse the CRL")
	}
	tbs := append([]byte(nil), outer.TBS.FullBytes...)
	seen := 0
	for i := 0; i+15 <= len(tbs); i++ {
		if tbs[i] == 0x17 && tbs[i+1] == 0x0d && tbs[i+14] == 'Z' {
			seen++
			if seen == 2 {
				copy(tbs[i+2:i+15], nextUpdateUTC)
				break
			}
			i += 14
		}
	}
	if seen != 2 {
		panic("harness: RedateCRL: no second UTCTime")
	}
	digest := sha256.Sum256(tbs)
	sig, _ := signer.Sign(nil, digest[:], nil)
	out, err := asn1.Marshal(struct {
		TBS asn1.RawValue
		Alg pkix.AlgorithmIdentifier
		Sig asn1.BitString
	}{asn1.RawValue{FullBytes: tbs}, outer.Alg, asn1.BitString{Bytes: sig, BitLength: 8 * len(sig)}})
	if err != nil {
		panic("harness: RedateCRL: " + err.Error())
	}
	return out
}
