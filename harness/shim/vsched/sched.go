package vsched

import (
	"fmt"
	"runtime/debug"
	"sync/atomic"
)

// Sched is a cooperative scheduler: managed goroutines run one at a time and hand
// control back at every Point(). The explorer decides who runs next.
type Sched struct {
	// Choose picks among n runnable threads (index 0 = canonical default: keep
	// running the current thread if it is still enabled, else the lowest id).
	// free says that switching costs no preemption (the running thread finished).
	Choose func(label string, n int, free bool) int

	resume   []chan struct{}
	yielded  chan int
	done     []bool
	current  int
	lastAt   []string
	Trace    []int // thread run at each step
	Steps    int
	MaxSteps int
	Panics   []any
}

var active atomic.Pointer[Sched]

// Point is a scheduling point inserted at every function entry of the
// instrumented packages. Outside an exploration it is one atomic load.
func Point(label string) {
	if s := active.Load(); s != nil {
		s.yield(label)
	}
}

func (s *Sched) yield(label string) {
	id := s.current
	s.lastAt[id] = label
	s.yielded <- id
	<-s.resume[id]
}

// Run executes the thread bodies under the scheduler until all finish.
// It returns false if the step horizon was exceeded.
func (s *Sched) Run(fns []func()) bool {
	n := len(fns)
	s.resume = make([]chan struct{}, n)
	s.yielded = make(chan int)
	s.done = make([]bool, n)
	s.lastAt = make([]string, n)
	s.Panics = make([]any, n)
	if s.MaxSteps == 0 {
		s.MaxSteps = 100000
	}
	for i := range fns {
		s.resume[i] = make(chan struct{})
		i := i
		go func() {
			<-s.resume[i]
			func() {
				defer func() {
					if r := recover(); r != nil {
						s.Panics[i] = fmt.Sprintf("%v\n%s", r, debug.Stack())
					}
				}()
				fns[i]()
			}()
			s.done[i] = true
			s.yielded <- i
		}()
	}
	active.Store(s)
	defer active.Store(nil)
	s.current = -1
	for {
		var order []int
		if s.current >= 0 && !s.done[s.current] {
			order = append(order, s.current)
		}
		for i := 0; i < n; i++ {
			if !s.done[i] && i != s.current {
				order = append(order, i)
			}
		}
		if len(order) == 0 {
			return true
		}
		s.Steps++
		if s.Steps > s.MaxSteps {
			return false
		}
		k := 0
		if len(order) > 1 && s.Choose != nil {
			free := s.current < 0 || s.done[s.current]
			k = s.Choose(fmt.Sprintf("sched@%d", s.Steps), len(order), free)
		}
		s.current = order[k]
		s.Trace = append(s.Trace, s.current)
		s.resume[s.current] <- struct{}{}
		<-s.yielded
	}
}
