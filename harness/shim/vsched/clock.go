// Package vsched is the run-time half of Engine B: a virtual clock whose timers
// and deadlines only move when waiting code says so, a wait hook that lets the
// explorer decide which of several ready channels a select observes, and a
// cooperative scheduler with yield points (sched.go). Code under test is linked
// against it through a check-time generated go build -overlay.
package vsched

import (
	"fmt"
	"reflect"
	"sort"
	"sync"
	"time"
)

// Base is virtual time zero of every execution.
var Base = time.Date(2030, 1, 1, 0, 0, 0, 0, time.UTC)

// StaleTicks selects the timer-channel semantics of programs whose main module says go < 1.23 (as this library's own
// go.mod does): a timer that has fired keeps its tick in the channel across Reset / Stop until somebody receives it.
// With false, Reset and Stop discard an unreceived tick (go >= 1.23). A property must hold under both.
var StaleTicks bool

// Chooser decides among n alternatives at a labelled point (set by the explorer; nil = 0).
var Chooser func(label string, n int) int

// WaitRecord is one observed wait: how long virtual time advanced and what woke it.
type WaitRecord struct {
	At      time.Duration // virtual time (since Base) when the wait began
	Waited  time.Duration
	Woke    string
	Options int
}

type timer struct {
	id      int
	due     time.Time
	ch      reflect.Value // underlying channel (chan Time or chan struct{})
	kind    string        // "timer", "deadline"
	fired   bool          // value delivered / channel closed on the underlying channel
	stopped bool
	fn      func()
	pending bool // a tick that was delivered before the timer was re-armed and has not been received (see StaleTicks)
}

// Clock is the virtual clock of the current execution.
type clock struct {
	mu      sync.Mutex
	now     time.Time
	timers  []*timer
	nextID  int
	Waits   []WaitRecord
	proxies map[uintptr]*proxy
	horizon time.Time
}

type proxy struct {
	under reflect.Value // underlying channel
	self  reflect.Value // the proxy channel (bidirectional)
	t     *timer        // virtual timer behind the underlying channel, if known
}

var clk = newClock()

func newClock() *clock {
	return &clock{now: Base, proxies: map[uintptr]*proxy{}, horizon: Base.Add(24 * time.Hour)}
}

// Reset starts a new execution at virtual time Base.
func Reset() { clk = newClock() }

// SetHorizon bounds how far virtual time may run (a wait beyond it is a livelock report).
func SetHorizon(d time.Duration) { clk.horizon = Base.Add(d) }

// Now is the current virtual time.
func Now() time.Time { clk.mu.Lock(); defer clk.mu.Unlock(); return clk.now }

// Elapsed is the virtual time since Base.
func Elapsed() time.Duration { return Now().Sub(Base) }

// Waits returns the waits observed so far.
func Waits() []WaitRecord {
	clk.mu.Lock()
	defer clk.mu.Unlock()
	return append([]WaitRecord(nil), clk.Waits...)
}

// Advance moves virtual time forward by d without waiting on anything (e.g. latency of a scripted call).
func Advance(d time.Duration) {
	clk.mu.Lock()
	clk.now = clk.now.Add(d)
	clk.mu.Unlock()
}

// Deadlock is the panic value raised when a wait can never be satisfied.
type Deadlock struct{ Msg string }

func (d Deadlock) Error() string { return "virtual-clock deadlock: " + d.Msg }

// Inconclusive is raised when a wait depends on something the clock does not own.
type Inconclusive struct{ Msg string }

func (d Inconclusive) Error() string { return "inconclusive wait: " + d.Msg }

// NewTimerChan registers a virtual timer firing at now+d on a fresh chan time.Time.
func NewTimerChan(d time.Duration, kind string) (chan time.Time, int) {
	clk.mu.Lock()
	defer clk.mu.Unlock()
	ch := make(chan time.Time, 1)
	clk.nextID++
	clk.timers = append(clk.timers, &timer{id: clk.nextID, due: clk.now.Add(d), ch: reflect.ValueOf(ch), kind: kind})
	return ch, clk.nextID
}

// NewDeadlineChan registers a virtual deadline on a fresh chan struct{} (closed when reached).
func NewDeadlineChan(at time.Time) (chan struct{}, int) {
	clk.mu.Lock()
	defer clk.mu.Unlock()
	ch := make(chan struct{})
	clk.nextID++
	clk.timers = append(clk.timers, &timer{id: clk.nextID, due: at, ch: reflect.ValueOf(ch), kind: "deadline"})
	return ch, clk.nextID
}

// AfterFunc registers fn to run (on the waiting goroutine) when virtual time reaches now+d.
func AfterFunc(d time.Duration, fn func()) int {
	clk.mu.Lock()
	defer clk.mu.Unlock()
	clk.nextID++
	clk.timers = append(clk.timers, &timer{id: clk.nextID, due: clk.now.Add(d), kind: "func", fn: fn})
	return clk.nextID
}

// StopTimer cancels a virtual timer; reports whether it had not fired yet.
func StopTimer(id int) bool {
	clk.mu.Lock()
	defer clk.mu.Unlock()
	for _, t := range clk.timers {
		if t.id == id {
			was := !t.fired && !t.stopped
			t.stopped = true
			return was
		}
	}
	return false
}

// ResetTimer re-arms a virtual timer.
func ResetTimer(id int, d time.Duration) bool {
	clk.mu.Lock()
	defer clk.mu.Unlock()
	for _, t := range clk.timers {
		if t.id == id {
			was := !t.fired && !t.stopped
			if StaleTicks && !t.stopped && !t.fired && !t.due.After(clk.now) {
				// it came due while nobody was listening: the tick sits in the channel and stays there
				t.pending, was = true, false
			}
			t.stopped, t.fired = false, false
			t.due = clk.now.Add(d)
			return was
		}
	}
	return false
}

// CancelDeadline closes a deadline channel now (context cancel).
func CancelDeadline(id int) {
	clk.mu.Lock()
	defer clk.mu.Unlock()
	for _, t := range clk.timers {
		if t.id == id && !t.fired {
			t.fired = true
			t.due = clk.now
			t.ch.Close()
		}
	}
}

func (c *clock) timerOf(ch reflect.Value) *timer {
	for _, t := range c.timers {
		if t.ch.IsValid() && t.ch.Pointer() == ch.Pointer() {
			return t
		}
	}
	return nil
}

// Proxy wraps ch in a fresh channel of the same element type; a select that only
// sees proxies observes exactly what BeforeWait forwards.
func Proxy[T any](ch <-chan T) <-chan T {
	p := make(chan T, 1)
	if ch == nil {
		return p
	}
	clk.mu.Lock()
	defer clk.mu.Unlock()
	pv := reflect.ValueOf(p)
	uv := reflect.ValueOf(ch)
	clk.proxies[pv.Pointer()] = &proxy{under: uv, self: pv, t: clk.timerOf(uv)}
	return p
}

// Recv is a bare receive made visible to the clock.
func Recv[T any](ch <-chan T) T {
	p := Proxy(ch)
	BeforeWait(false, p)
	return <-p
}

// Sleep waits d of virtual time.
func Sleep(d time.Duration) {
	if d <= 0 {
		return
	}
	ch, _ := NewTimerChan(d, "sleep")
	Recv((<-chan time.Time)(ch))
}

// BeforeWait is called immediately before a select whose receive operands were
// all replaced by proxies. It decides which single proxy becomes ready.
func BeforeWait(hasDefault bool, proxies ...any) {
	c := clk
	c.mu.Lock()
	var ps []*proxy
	for _, x := range proxies {
		v := reflect.ValueOf(x)
		if p := c.proxies[v.Pointer()]; p != nil {
			ps = append(ps, p)
		}
	}
	start := c.now
	ready := func() []int {
		var r []int
		for i, p := range ps {
			switch {
			case p.t != nil:
				if p.t.pending || (!p.t.stopped && (p.t.fired || !p.t.due.After(c.now))) {
					r = append(r, i)
				}
			default:
				// a channel the clock does not own: poll it without blocking
				if p.under.Len() > 0 {
					r = append(r, i)
				} else if chosen, _, ok := reflect.Select([]reflect.SelectCase{{Dir: reflect.SelectRecv, Chan: p.under}, {Dir: reflect.SelectDefault}}); chosen == 0 {
					_ = ok
					// consumed a value or saw a close: forward a zero value (element types here are signals)
					r = append(r, i)
				}
			}
		}
		return r
	}
	r := ready()
	if len(r) == 0 {
		if hasDefault {
			c.mu.Unlock()
			return
		}
		// advance to the earliest timer that can wake this wait
		var earliest *timer
		for _, p := range ps {
			if p.t != nil && !p.t.stopped && (earliest == nil || p.t.due.Before(earliest.due)) {
				earliest = p.t
			}
		}
		if earliest == nil {
			c.mu.Unlock()
			if len(ps) < len(proxies) || anyUnknown(ps) {
				panic(Inconclusive{"no virtual timer can wake this wait and an unknown channel is involved"})
			}
			panic(Deadlock{"no timer or deadline can wake this wait"})
		}
		if earliest.due.After(c.horizon) {
			c.mu.Unlock()
			panic(Deadlock{fmt.Sprintf("the earliest wake-up (%v) lies beyond the exploration horizon", earliest.due.Sub(Base))})
		}
		c.now = earliest.due
		c.runFuncs()
		r = ready()
	}
	sort.Ints(r)
	pick := 0
	if len(r) > 1 && Chooser != nil {
		c.mu.Unlock()
		pick = Chooser("select", len(r))
		c.mu.Lock()
	}
	w := ps[r[pick]]
	rec := WaitRecord{At: start.Sub(Base), Waited: c.now.Sub(start), Options: len(r)}
	if w.t != nil {
		rec.Woke = w.t.kind
		if w.t.kind == "deadline" {
			w.self.Close()
		} else if w.t.pending {
			// the stale tick is received; the re-armed timer keeps running
			rec.Woke = "stale-tick"
			w.t.pending = false
			w.self.Send(reflect.ValueOf(c.now))
		} else {
			w.t.fired = true
			w.self.Send(reflect.ValueOf(c.now))
			w.t.stopped = true // consumed
		}
	} else {
		rec.Woke = "unknown-channel"
		if w.self.Type().Elem().Kind() == reflect.Struct && w.self.Type().Elem().NumField() == 0 {
			w.self.Close()
		} else {
			w.self.Send(reflect.Zero(w.self.Type().Elem()))
		}
	}
	c.Waits = append(c.Waits, rec)
	c.mu.Unlock()
}

func anyUnknown(ps []*proxy) bool {
	for _, p := range ps {
		if p.t == nil {
			return true
		}
	}
	return false
}

// runFuncs runs AfterFunc callbacks that are due (clock lock held; released around the call).
func (c *clock) runFuncs() {
	for _, t := range c.timers {
		if t.kind == "func" && !t.fired && !t.stopped && !t.due.After(c.now) {
			t.fired = true
			fn := t.fn
			c.mu.Unlock()
			fn()
			c.mu.Lock()
		}
	}
}
