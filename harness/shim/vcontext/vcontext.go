// Package vcontext stands in for package context inside instrumented library
// files: deadlines and timeouts live on the virtual clock.
package vcontext

import (
	"context"
	"sync"
	"time"

	"verifharness/shim/vsched"
)

type (
	Context         = context.Context
	CancelFunc      = context.CancelFunc
	CancelCauseFunc = context.CancelCauseFunc
)

var (
	Canceled         = context.Canceled
	DeadlineExceeded = context.DeadlineExceeded
)

func Background() Context                            { return context.Background() }
func TODO() Context                                  { return context.TODO() }
func WithValue(parent Context, key, val any) Context { return context.WithValue(parent, key, val) }
func Cause(c Context) error                          { return context.Cause(c) }

type vctx struct {
	parent   Context
	deadline time.Time
	hasDL    bool
	done     chan struct{}
	id       int
	mu       sync.Mutex
	canceled bool
}

func (c *vctx) Deadline() (time.Time, bool) {
	if c.hasDL {
		return c.deadline, true
	}
	return c.parent.Deadline()
}
func (c *vctx) Done() <-chan struct{} { return c.done }
func (c *vctx) Err() error {
	c.mu.Lock()
	defer c.mu.Unlock()
	if c.canceled {
		return context.Canceled
	}
	if c.hasDL && !vsched.Now().Before(c.deadline) {
		return context.DeadlineExceeded
	}
	return c.parent.Err()
}
func (c *vctx) Value(key any) any { return c.parent.Value(key) }

func (c *vctx) cancel() {
	c.mu.Lock()
	if !c.canceled {
		c.canceled = true
		vsched.CancelDeadline(c.id)
	}
	c.mu.Unlock()
}

func WithDeadline(parent Context, d time.Time) (Context, CancelFunc) {
	if pd, ok := parent.Deadline(); ok && pd.Before(d) {
		d = pd
	}
	ch, id := vsched.NewDeadlineChan(d)
	c := &vctx{parent: parent, deadline: d, hasDL: true, done: ch, id: id}
	return c, c.cancel
}

func WithTimeout(parent Context, timeout time.Duration) (Context, CancelFunc) {
	return WithDeadline(parent, vsched.Now().Add(timeout))
}

func WithCancel(parent Context) (Context, CancelFunc) {
	// a deadline that never comes by itself
	ch, id := vsched.NewDeadlineChan(vsched.Base.Add(1 << 62))
	c := &vctx{parent: parent, done: ch, id: id}
	return c, c.cancel
}
