// Package vtime stands in for package time inside instrumented library files:
// the data types are time's own (aliases), the clock-dependent functions run on
// the virtual clock of vsched.
package vtime

import (
	"time"

	"verifharness/shim/vsched"
)

type (
	Time       = time.Time
	Duration   = time.Duration
	Month      = time.Month
	Weekday    = time.Weekday
	Location   = time.Location
	ParseError = time.ParseError
)

const (
	Nanosecond  = time.Nanosecond
	Microsecond = time.Microsecond
	Millisecond = time.Millisecond
	Second      = time.Second
	Minute      = time.Minute
	Hour        = time.Hour

	Layout      = time.Layout
	ANSIC       = time.ANSIC
	UnixDate    = time.UnixDate
	RFC822      = time.RFC822
	RFC822Z     = time.RFC822Z
	RFC850      = time.RFC850
	RFC1123     = time.RFC1123
	RFC1123Z    = time.RFC1123Z
	RFC3339     = time.RFC3339
	RFC3339Nano = time.RFC3339Nano
	Kitchen     = time.Kitchen
	DateTime    = time.DateTime
	DateOnly    = time.DateOnly
	TimeOnly    = time.TimeOnly

	January   = time.January
	February  = time.February
	March     = time.March
	April     = time.April
	May       = time.May
	June      = time.June
	July      = time.July
	August    = time.August
	September = time.September
	October   = time.October
	November  = time.November
	December  = time.December
)

var (
	UTC   = time.UTC
	Local = time.Local
)

func Date(y int, m Month, d, h, mi, s, ns int, loc *Location) Time {
	return time.Date(y, m, d, h, mi, s, ns, loc)
}
func Unix(s, ns int64) Time                    { return time.Unix(s, ns) }
func UnixMilli(ms int64) Time                  { return time.UnixMilli(ms) }
func Parse(layout, value string) (Time, error) { return time.Parse(layout, value) }
func ParseDuration(s string) (Duration, error) { return time.ParseDuration(s) }
func FixedZone(name string, off int) *Location { return time.FixedZone(name, off) }

// Clock-dependent functions.
func Now() Time             { return vsched.Now() }
func Since(t Time) Duration { return vsched.Now().Sub(t) }
func Until(t Time) Duration { return t.Sub(vsched.Now()) }
func Sleep(d Duration)      { vsched.Sleep(d) }
func After(d Duration) <-chan Time {
	ch, _ := vsched.NewTimerChan(d, "timer")
	return ch
}
func Tick(d Duration) <-chan Time { return After(d) }

// Timer mirrors time.Timer on the virtual clock.
type Timer struct {
	C  <-chan Time
	id int
}

func NewTimer(d Duration) *Timer {
	ch, id := vsched.NewTimerChan(d, "timer")
	return &Timer{C: ch, id: id}
}
func (t *Timer) Stop() bool            { return vsched.StopTimer(t.id) }
func (t *Timer) Reset(d Duration) bool { return vsched.ResetTimer(t.id, d) }

func AfterFunc(d Duration, f func()) *Timer {
	return &Timer{id: vsched.AfterFunc(d, f)}
}

// Ticker is a one-shot approximation (enough for retry loops; repeated ticks re-arm on Reset).
type Ticker struct {
	C  <-chan Time
	id int
}

func NewTicker(d Duration) *Ticker {
	ch, id := vsched.NewTimerChan(d, "timer")
	return &Ticker{C: ch, id: id}
}
func (t *Ticker) Stop()            { vsched.StopTimer(t.id) }
func (t *Ticker) Reset(d Duration) { vsched.ResetTimer(t.id, d) }
