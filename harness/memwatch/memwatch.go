// Package memwatch is a deterministic write monitor: byte slices are re-homed,
// preserving length, capacity and aliasing, into an mmap'ed arena that is made
// read-only around a call; with debug.SetPanicOnFault any store — same-value
// stores, appends into spare capacity, runtime memmove — becomes a recoverable
// fault that names the writer.
package memwatch

import (
	"fmt"
	"reflect"
	"runtime/debug"
	"sort"
	"syscall"
	"unsafe"
)

// Arena is one protected region.
type Arena struct {
	mem  []byte
	used int
}

// New maps an arena of at least size bytes.
func New(size int) (*Arena, error) {
	ps := syscall.Getpagesize()
	size = (size + 2*ps) / ps * ps
	mem, err := syscall.Mmap(-1, 0, size, syscall.PROT_READ|syscall.PROT_WRITE, syscall.MAP_ANON|syscall.MAP_PRIVATE)
	if err != nil {
		return nil, err
	}
	return &Arena{mem: mem}, nil
}

// Free unmaps the arena (slices re-homed into it must not be used afterwards).
func (a *Arena) Free() { syscall.Munmap(a.mem) }

// Protect makes the arena read-only; Unprotect makes it writable again.
func (a *Arena) Protect() error { return syscall.Mprotect(a.mem, syscall.PROT_READ) }
func (a *Arena) Unprotect() error {
	return syscall.Mprotect(a.mem, syscall.PROT_READ|syscall.PROT_WRITE)
}

// Contains reports whether addr lies inside the arena.
func (a *Arena) Contains(addr uintptr) bool {
	base := uintptr(unsafe.Pointer(&a.mem[0]))
	return addr >= base && addr < base+uintptr(len(a.mem))
}

// Snapshot copies the used part of the arena.
func (a *Arena) Snapshot() []byte { return append([]byte(nil), a.mem[:a.used]...) }

// Used is the number of bytes holding re-homed data.
func (a *Arena) Used() int { return a.used }

type sliceRef struct {
	set      func(b []byte)
	ptr      uintptr
	up       unsafe.Pointer
	len, cap int
}

// Rehome moves every byte slice reachable from the given roots (pointers to
// structs, slices of byte slices, pointers to byte slices) into the arena.
// Slices that share a backing array keep sharing it; spare capacity is kept and
// its current contents are copied too. It returns the number of slices moved.
func (a *Arena) Rehome(roots ...any) (int, error) {
	var refs []sliceRef
	seen := map[uintptr]bool{}
	var walk func(v reflect.Value)
	walk = func(v reflect.Value) {
		switch v.Kind() {
		case reflect.Ptr:
			if v.IsNil() || seen[v.Pointer()] {
				return
			}
			seen[v.Pointer()] = true
			walk(v.Elem())
		case reflect.Interface:
			if !v.IsNil() {
				walk(v.Elem())
			}
		case reflect.Struct:
			for i := 0; i < v.NumField(); i++ {
				f := v.Field(i)
				if !f.CanSet() {
					continue // unexported (protobuf bookkeeping)
				}
				walk(f)
			}
		case reflect.Slice:
			if v.Type().Elem().Kind() == reflect.Uint8 {
				if v.IsNil() || v.Cap() == 0 || !v.CanSet() {
					return
				}
				vv := v
				refs = append(refs, sliceRef{set: func(b []byte) { vv.SetBytes(b) }, ptr: v.Pointer(), up: v.UnsafePointer(), len: v.Len(), cap: v.Cap()})
				return
			}
			for i := 0; i < v.Len(); i++ {
				walk(v.Index(i))
			}
		}
	}
	for _, r := range roots {
		walk(reflect.ValueOf(r))
	}
	// merge overlapping [ptr, ptr+cap) intervals
	type iv struct {
		lo, hi uintptr
		up     unsafe.Pointer
	}
	var ivs []iv
	for _, r := range refs {
		ivs = append(ivs, iv{r.ptr, r.ptr + uintptr(r.cap), r.up})
	}
	sort.Slice(ivs, func(i, j int) bool { return ivs[i].lo < ivs[j].lo })
	var merged []iv
	for _, x := range ivs {
		if n := len(merged); n > 0 && x.lo < merged[n-1].hi {
			if x.hi > merged[n-1].hi {
				merged[n-1].hi = x.hi
			}
			continue
		}
		merged = append(merged, x)
	}
	newBase := map[uintptr]unsafe.Pointer{}
	for _, m := range merged {
		n := int(m.hi - m.lo)
		// keep regions apart so that an overrun of one does not land in another
		off := (a.used + 63) / 64 * 64
		if off+n+64 > len(a.mem) {
			return 0, fmt.Errorf("memwatch: arena too small (%d bytes needed)", off+n)
		}
		src := unsafe.Slice((*byte)(m.up), n)
		copy(a.mem[off:off+n], src)
		newBase[m.lo] = unsafe.Pointer(&a.mem[off])
		a.used = off + n
	}
	for _, r := range refs {
		// find the merged interval containing r
		k := sort.Search(len(merged), func(i int) bool { return merged[i].hi > r.ptr })
		m := merged[k]
		np := unsafe.Add(newBase[m.lo], int(r.ptr-m.lo))
		b := unsafe.Slice((*byte)(np), r.cap)
		r.set(b[:r.len:r.cap])
	}
	return len(refs), nil
}

// Fault describes a store into the protected arena.
type Fault struct {
	Addr   uintptr
	InArea bool
	Stack  string
	Val    any
}

func (f *Fault) Error() string {
	return fmt.Sprintf("write fault at %#x (inside protected arena: %v): %v", f.Addr, f.InArea, f.Val)
}

// Guard runs fn with the arena read-only and reports a store into it as *Fault.
// Other panics are returned as-is through the panic value.
func (a *Arena) Guard(fn func()) (fault *Fault, other any) {
	old := debug.SetPanicOnFault(true)
	defer debug.SetPanicOnFault(old)
	if err := a.Protect(); err != nil {
		return nil, err
	}
	defer a.Unprotect()
	defer func() {
		if r := recover(); r != nil {
			if ae, ok := r.(interface{ Addr() uintptr }); ok {
				fault = &Fault{Addr: ae.Addr(), InArea: a.Contains(ae.Addr()), Stack: string(debug.Stack()), Val: r}
				if fault.InArea {
					return
				}
			}
			other = r
			if fault == nil {
				fault = nil
			}
		}
	}()
	fn()
	return nil, nil
}

// GuardOpen runs fn with the arena left writable: a store is then not trapped but shows as changed bytes in the
// next Snapshot. It complements Guard for stores made where a trap would be swallowed before it reaches the
// caller (fmt recovers panics raised inside String / Error / Format methods while formatting).
func (a *Arena) GuardOpen(fn func()) (other any) {
	defer func() {
		if r := recover(); r != nil {
			other = r
		}
	}()
	fn()
	return nil
}
