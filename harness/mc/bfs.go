package mc

import (
	"fmt"
)

// BFSStats is what an explicit-state search covered.
type BFSStats struct {
	States, Transitions int64
	Depth               int
	Frontier            int
	Complete            bool
}

// BFS is Engine C: breadth-first search over operation histories. A state is
// identified by the history (op indices) that reaches it; step replays the
// history on a FRESH instance of the real object, evaluates the oracle on the
// last transition (reporting violations itself) and returns the canonical key
// of the reached state (enabled=false prunes the transition). States with equal
// keys are merged, keeping the shortest history. Transitions of one level are
// executed in parallel.
func (r *Run) BFS(name string, maxDepth, nOps int, step func(hist []int) (key string, enabled bool)) BFSStats {
	st := BFSStats{Complete: true}
	seen := map[string]bool{}
	k0, _ := step(nil)
	seen[k0] = true
	st.States = 1
	frontier := [][]int{{}}
	for d := 1; d <= maxDepth && len(frontier) > 0; d++ {
		if r.Expired() {
			r.Cap(fmt.Sprintf("%s: time budget reached at depth %d with frontier %d", name, d, len(frontier)))
			st.Complete = false
			break
		}
		type res struct {
			hist []int
			key  string
			ok   bool
		}
		out := make([]res, len(frontier)*nOps)
		done := r.Parallel(len(out), func(i int) {
			h := frontier[i/nOps]
			nh := make([]int, len(h)+1)
			copy(nh, h)
			nh[len(h)] = i % nOps
			k, ok := step(nh)
			out[i] = res{nh, k, ok}
		})
		if done < len(out) {
			st.Complete = false
		}
		var next [][]int
		for _, o := range out {
			if o.hist == nil || !o.ok {
				continue
			}
			st.Transitions++
			if !seen[o.key] {
				seen[o.key] = true
				st.States++
				next = append(next, o.hist)
			}
		}
		st.Depth = d
		frontier = next
		if !st.Complete {
			break
		}
	}
	st.Frontier = len(frontier)
	r.AddStates(st.States)
	r.AddTransitions(st.Transitions)
	r.AddTraces(st.Transitions)
	r.SectionDone(Section{Name: name, Evaluations: st.Transitions, States: st.States, Transitions: st.Transitions,
		MaxDepth: st.Depth, Bound: st.Depth, Exhaustive: st.Complete,
		Note: fmt.Sprintf("frontier at cut: %d distinct states", st.Frontier)})
	return st
}
