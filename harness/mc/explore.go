package mc

import (
	"fmt"
	"strings"
	"sync"
)

// Ctx is handed to an Engine-A body; every decision the body takes goes through it.
type Ctx struct {
	prefix []int
	trace  []Point
}

// Point is one choice point met during an execution.
type Point struct {
	Label  string
	N      int
	Choice int
	Free   bool
}

// Choose returns the alternative taken at this point: the replayed prefix
// first, 0 (the default / honest answer) afterwards. Alternatives != 0 are
// deviations and cost 1 against the bound.
func (c *Ctx) Choose(label string, n int) int { return c.choose(label, n, false) }

// Free is a product dimension: alternatives cost nothing.
func (c *Ctx) Free(label string, n int) int { return c.choose(label, n, true) }

func (c *Ctx) choose(label string, n int, free bool) int {
	i := len(c.trace)
	ch := 0
	if i < len(c.prefix) {
		ch = c.prefix[i]
		if ch < 0 || ch >= n {
			panic(fmt.Sprintf("harness: replayed choice %d out of range at %q (n=%d): nondeterministic body", ch, label, n))
		}
	}
	c.trace = append(c.trace, Point{Label: label, N: n, Choice: ch, Free: free})
	return ch
}

// ID is the canonical description of this execution: its non-default decisions.
func (c *Ctx) ID() string {
	var parts []string
	for _, p := range c.trace {
		if p.Choice != 0 {
			parts = append(parts, fmt.Sprintf("%s=%d", p.Label, p.Choice))
		}
	}
	if len(parts) == 0 {
		return "default"
	}
	return strings.Join(parts, ",")
}

// Deviations counts the non-free, non-default decisions taken.
func (c *Ctx) Deviations() int {
	n := 0
	for _, p := range c.trace {
		if !p.Free && p.Choice != 0 {
			n++
		}
	}
	return n
}

// Trace returns the decision vector.
func (c *Ctx) Trace() []Point { return c.trace }

// ExploreStats is what an exploration covered.
type ExploreStats struct {
	Executions, Nodes, Edges int64
	MaxDepth                 int
	Bound                    int
	Complete                 bool
}

// Explore runs body on every decision vector with at most bound deviations:
// run with a prefix, default afterwards, then branch on every later point.
// Executions are independent and are spread over all cores level by level.
// name prefixes case IDs; body must be deterministic in its decisions.
func (r *Run) Explore(name string, bound int, body func(c *Ctx)) ExploreStats {
	return r.explore(name, bound, body, true)
}

// ExploreSerial is Explore with executions run one at a time (for bodies that use process-global state).
func (r *Run) ExploreSerial(name string, bound int, body func(c *Ctx)) ExploreStats {
	return r.explore(name, bound, body, false)
}

func (r *Run) explore(name string, bound int, body func(c *Ctx), parallel bool) ExploreStats {
	st := ExploreStats{Bound: bound, Complete: true}
	frontier := [][]int{{}}
	var mu sync.Mutex
	for len(frontier) > 0 {
		var next [][]int
		if r.Expired() {
			r.Cap(fmt.Sprintf("%s: time budget reached with %d prefixes unexplored", name, len(frontier)))
			st.Complete = false
			break
		}
		run := r.Parallel
		if !parallel {
			run = r.Serial
		}
		done := run(len(frontier), func(i int) {
			prefix := frontier[i]
			c := &Ctx{prefix: prefix}
			body(c)
			if len(c.trace) < len(prefix) {
				r.HarnessError("%s: replayed prefix %v longer than execution (%d points): nondeterministic body", name, prefix, len(c.trace))
				return
			}
			var local [][]int
			cost := 0
			for j, p := range c.trace {
				if j >= len(prefix) {
					for alt := 1; alt < p.N; alt++ {
						nc := cost
						if !p.Free {
							nc++
						}
						if nc > bound {
							break
						}
						np := make([]int, j+1)
						for k := 0; k < j; k++ {
							np[k] = c.trace[k].Choice
						}
						np[j] = alt
						local = append(local, np)
					}
				}
				if !p.Free && p.Choice != 0 {
					cost++
				}
			}
			mu.Lock()
			st.Executions++
			st.Nodes += int64(len(c.trace)) + 1
			st.Edges += int64(len(c.trace))
			if len(c.trace) > st.MaxDepth {
				st.MaxDepth = len(c.trace)
			}
			next = append(next, local...)
			mu.Unlock()
		})
		if done < len(frontier) {
			st.Complete = false
			break
		}
		frontier = next
	}
	r.AddStates(st.Nodes)
	r.AddTransitions(st.Edges)
	r.SectionDone(Section{Name: name, Evaluations: st.Executions, States: st.Nodes, Transitions: st.Edges,
		MaxDepth: st.MaxDepth, Bound: bound, Exhaustive: st.Complete})
	return st
}
