// Package mc is the exploration engine: deviation-bounded exhaustive search over
// choice points (Engine A), breadth-first explicit-state search (Engine C),
// parallel exhaustive enumeration, evidence accounting, replay files and the
// known-findings filter.
package mc

import (
	"crypto/sha256"
	"encoding/hex"
	"encoding/json"
	"fmt"
	"os"
	"path/filepath"
	"regexp"
	"runtime"
	"sort"
	"strconv"
	"strings"
	"sync"
	"sync/atomic"
	"time"
)

// Root is /verif (overridable for tests).
var Root = func() string {
	if r := os.Getenv("VERIF_ROOT"); r != "" {
		return r
	}
	return "/verif"
}()

// Check is one registered property check.
type Check struct {
	ID       string
	Category string // evidence "level"
	Rule     string
	Assume   []string
	Run      func(r *Run)
}

var registry = map[string]*Check{}

// Register adds a check.
func Register(c *Check) { registry[c.ID] = c }

// Lookup finds a check.
func Lookup(id string) *Check { return registry[id] }

// IDs lists registered checks.
func IDs() []string {
	var out []string
	for k := range registry {
		out = append(out, k)
	}
	sort.Strings(out)
	return out
}

// Finding is a line of known_findings.jsonl.
type Finding struct {
	Status   string `json:"status"`
	Property string `json:"property"`
	Match    string `json:"match,omitempty"`
	Commit   string `json:"commit,omitempty"`
	What     string `json:"what"`
	re       *regexp.Regexp
}

// Violation is one property violation found by a run.
type Violation struct {
	Sig    string `json:"sig"`
	Case   string `json:"case"`
	What   string `json:"what"`
	Detail any    `json:"detail,omitempty"`
}

// Run is the state of one check invocation.
type Run struct {
	Check    *Check
	Tier     string
	Seed     int64
	Start    time.Time
	Deadline time.Time
	ReplayID string // when set only the case with this ID is executed
	// SerialOnly makes Parallel run one case at a time (bodies that use process-global state such as the virtual clock).
	SerialOnly bool

	mu          sync.Mutex
	evals       int64
	distinct    map[[8]byte]struct{}
	outcomes    map[string]int64
	samples     []any
	sampleKeys  map[string]int
	violations  []Violation
	knownSeen   map[string]int
	sigCount    map[string]int
	known       []*Finding
	states      int64
	transitions int64
	traces      int64
	caps        []string
	extra       map[string]any
	sections    map[string]*Section
	harnessErr  []string
	exhaustive  bool
}

// Section accumulates per-part statistics inside a check.
type Section struct {
	Name        string `json:"name"`
	Evaluations int64  `json:"evaluations"`
	States      int64  `json:"states,omitempty"`
	Transitions int64  `json:"transitions,omitempty"`
	MaxDepth    int    `json:"max_depth,omitempty"`
	Bound       int    `json:"bound_completed,omitempty"`
	Exhaustive  bool   `json:"exhaustive"`
	Note        string `json:"note,omitempty"`
}

// Thorough reports whether this is the thorough tier.
func (r *Run) Thorough() bool { return r.Tier == "thorough" }

// Expired reports whether the wall-clock budget is used up (not an oracle: the
// explorer merely stops expanding and reports exhaustive:false).
func (r *Run) Expired() bool { return time.Now().After(r.Deadline) }

// Cap records that a cap was hit.
func (r *Run) Cap(what string) {
	r.mu.Lock()
	defer r.mu.Unlock()
	for _, c := range r.caps {
		if c == what {
			return
		}
	}
	r.caps = append(r.caps, what)
	r.exhaustive = false
}

// Want reports whether case id should be executed (always, unless replaying).
func (r *Run) Want(id string) bool { return r.ReplayID == "" || r.ReplayID == id }

// Eval records one executed case. id must canonically describe the case;
// nontrivial says whether it counts for distinct_nontrivial under the check's rule.
func (r *Run) Eval(id string, nontrivial bool, outcome string) {
	atomic.AddInt64(&r.evals, 1)
	h := sha256.Sum256([]byte(id))
	var k [8]byte
	copy(k[:], h[:8])
	r.mu.Lock()
	if nontrivial {
		r.distinct[k] = struct{}{}
	}
	r.outcomes[outcome]++
	n := r.sampleKeys[outcome]
	if n < 3 && len(r.samples) < 40 {
		r.sampleKeys[outcome] = n + 1
		r.samples = append(r.samples, map[string]string{"case": id, "outcome": outcome})
	}
	r.mu.Unlock()
}

// Sample adds an explicit sample.
func (r *Run) Sample(v any) {
	r.mu.Lock()
	if len(r.samples) < 60 {
		r.samples = append(r.samples, v)
	}
	r.mu.Unlock()
}

// AddStates / AddTransitions / AddTraces feed the model-checking counters.
func (r *Run) AddStates(n int64)      { atomic.AddInt64(&r.states, n) }
func (r *Run) AddTransitions(n int64) { atomic.AddInt64(&r.transitions, n) }
func (r *Run) AddTraces(n int64)      { atomic.AddInt64(&r.traces, n) }

// Set stores an extra coverage key.
func (r *Run) Set(key string, v any) {
	r.mu.Lock()
	r.extra[key] = v
	r.mu.Unlock()
}

// SectionDone records statistics for a part of the check.
func (r *Run) SectionDone(s Section) {
	r.mu.Lock()
	r.sections[s.Name] = &s
	r.mu.Unlock()
}

// HarnessError records a failure of the machinery itself (never a violation).
func (r *Run) HarnessError(format string, a ...any) {
	r.mu.Lock()
	if len(r.harnessErr) < 20 {
		r.harnessErr = append(r.harnessErr, fmt.Sprintf(format, a...))
	}
	r.mu.Unlock()
}

// Violate records a violation. sig identifies the failing input / call site /
// history and is what known_findings.jsonl matches against.
func (r *Run) Violate(sig, caseID, what string, detail any) {
	r.mu.Lock()
	defer r.mu.Unlock()
	for _, f := range r.known {
		if f.re.MatchString(sig) {
			r.knownSeen[f.Match]++
			return
		}
	}
	r.sigCount[sig]++
	if r.sigCount[sig] == 1 && len(r.violations) < 500 {
		r.violations = append(r.violations, Violation{Sig: sig, Case: caseID, What: what, Detail: detail})
	}
	r.extraCountViolation()
}

func (r *Run) extraCountViolation() {
	n, _ := r.extra["violations_total"].(int)
	r.extra["violations_total"] = n + 1
}

// Parallel runs fn(i) for i in [0,n) on all cores; stops handing out work when the budget expires.
func (r *Run) Parallel(n int, fn func(i int)) (done int) {
	if r.SerialOnly {
		return r.Serial(n, fn)
	}
	var next int64 = -1
	var completed int64
	var wg sync.WaitGroup
	workers := runtime.GOMAXPROCS(0)
	if workers > n {
		workers = n
	}
	for w := 0; w < workers; w++ {
		wg.Add(1)
		go func() {
			defer wg.Done()
			for {
				i := int(atomic.AddInt64(&next, 1))
				if i >= n {
					return
				}
				if i%64 == 0 && r.Expired() {
					r.Cap("time budget reached inside a parallel enumeration")
					return
				}
				fn(i)
				atomic.AddInt64(&completed, 1)
			}
		}()
	}
	wg.Wait()
	return int(completed)
}

// Serial runs fn(i) for i in [0,n) one at a time; stops when the budget expires.
func (r *Run) Serial(n int, fn func(i int)) (done int) {
	for i := 0; i < n; i++ {
		if i%64 == 0 && r.Expired() {
			r.Cap("time budget reached inside a serial enumeration")
			return i
		}
		fn(i)
	}
	return n
}

func loadKnown(prop string) []*Finding {
	b, err := os.ReadFile(filepath.Join(Root, "known_findings.jsonl"))
	if err != nil {
		return nil
	}
	var out []*Finding
	for _, line := range strings.Split(string(b), "\n") {
		line = strings.TrimSpace(line)
		if line == "" || strings.HasPrefix(line, "#") {
			continue
		}
		var f Finding
		if json.Unmarshal([]byte(line), &f) != nil {
			continue
		}
		if f.Status != "known" || f.Property != prop || f.Match == "" {
			continue
		}
		re, err := regexp.Compile(f.Match)
		if err != nil {
			continue
		}
		f.re = re
		out = append(out, &f)
	}
	return out
}

// Main runs a check and returns the process exit code.
func Main(id, tier, replayFile string) int {
	c := Lookup(id)
	if c == nil {
		fmt.Printf("HARNESS-ERROR unknown check %q (have %v)\n", id, IDs())
		return 2
	}
	seed := int64(1)
	if s := os.Getenv("VERIF_SEED"); s != "" {
		if v, err := strconv.ParseInt(s, 10, 64); err == nil {
			seed = v
		}
	}
	budget := 300 * time.Second
	if tier == "thorough" {
		budget = 45 * time.Minute
	}
	if s := os.Getenv("VERIF_BUDGET_S"); s != "" {
		if v, err := strconv.Atoi(s); err == nil {
			budget = time.Duration(v) * time.Second
		}
	}
	r := &Run{Check: c, Tier: tier, Seed: seed, Start: time.Now(), distinct: map[[8]byte]struct{}{},
		outcomes: map[string]int64{}, sampleKeys: map[string]int{}, knownSeen: map[string]int{}, sigCount: map[string]int{},
		extra: map[string]any{}, sections: map[string]*Section{}, exhaustive: true}
	r.Deadline = r.Start.Add(budget)
	r.known = loadKnown(id)
	if replayFile != "" {
		b, err := os.ReadFile(replayFile)
		if err != nil {
			fmt.Printf("HARNESS-ERROR cannot read replay %s: %v\n", replayFile, err)
			return 2
		}
		var rep struct {
			Violation Violation `json:"violation"`
			Tier      string    `json:"tier"`
		}
		if err := json.Unmarshal(b, &rep); err != nil {
			fmt.Printf("HARNESS-ERROR bad replay %s: %v\n", replayFile, err)
			return 2
		}
		r.ReplayID = rep.Violation.Case
		if rep.Tier != "" {
			r.Tier = rep.Tier
		}
		r.known = nil
	}
	func() {
		defer func() {
			if p := recover(); p != nil {
				buf := make([]byte, 1<<14)
				buf = buf[:runtime.Stack(buf, false)]
				r.HarnessError("panic in harness: %v\n%s", p, buf)
			}
		}()
		c.Run(r)
	}()
	return r.finish(replayFile != "")
}

func (r *Run) finish(replaying bool) int {
	wall := time.Since(r.Start).Seconds()
	id := r.Check.ID
	if replaying {
		if len(r.harnessErr) > 0 {
			fmt.Printf("HARNESS-ERROR %s\n", strings.Join(r.harnessErr, "; "))
			return 2
		}
		if r.evals == 0 {
			fmt.Printf("HARNESS-ERROR replay case %q not found in the enumeration\n", r.ReplayID)
			return 2
		}
		for _, v := range r.violations {
			fmt.Printf("REPLAY property=%s case=%s reproduces: %s\n", id, v.Case, v.What)
		}
		if len(r.violations) == 0 {
			fmt.Printf("REPLAY property=%s case=%s does not violate on this tree\n", id, r.ReplayID)
			return 0
		}
		return 1
	}
	// Group violations by signature; one replay file per signature.
	bySig := map[string][]Violation{}
	var sigs []string
	for _, v := range r.violations {
		if _, ok := bySig[v.Sig]; !ok {
			sigs = append(sigs, v.Sig)
		}
		bySig[v.Sig] = append(bySig[v.Sig], v)
	}
	sort.Strings(sigs)
	outRoot := Root
	if o := os.Getenv("VERIF_OUT"); o != "" {
		outRoot = o // scratch runs (e.g. against a seeded worktree) must not overwrite the committed evidence
	}
	os.MkdirAll(filepath.Join(outRoot, "replays"), 0o755)
	var vioOut []any
	for _, s := range sigs {
		v := bySig[s][0]
		h := sha256.Sum256([]byte(s))
		path := filepath.Join(outRoot, "replays", fmt.Sprintf("%s-%s.json", id, hex.EncodeToString(h[:5])))
		rep := map[string]any{"property": id, "tier": r.Tier, "seed": r.Seed, "violation": v, "same_signature_cases": r.sigCount[s]}
		b, _ := json.MarshalIndent(rep, "", " ")
		os.WriteFile(path, b, 0o644)
		fmt.Printf("VIOLATION property=%s replay=%s\n", id, path)
		fmt.Printf("  what: %s\n  case: %s (%d case(s) with signature %q)\n", v.What, v.Case, r.sigCount[s], s)
		vioOut = append(vioOut, map[string]any{"sig": s, "case": v.Case, "what": v.What, "cases": r.sigCount[s], "replay": path})
	}
	var knownOut []any
	for _, f := range r.known {
		if n := r.knownSeen[f.Match]; n > 0 {
			fmt.Printf("KNOWN-FINDING: property=%s %s (%d case(s))\n", id, f.What, n)
			knownOut = append(knownOut, map[string]any{"match": f.Match, "what": f.What, "cases": n})
		}
	}
	cov := map[string]any{
		"evaluations":                   r.evals,
		"distinct_nontrivial":           len(r.distinct),
		"rule":                          r.Check.Rule,
		"samples":                       r.samples,
		"exhaustive":                    r.exhaustive && len(r.harnessErr) == 0,
		"distinct_outcomes":             len(r.outcomes),
		"outcomes":                      r.outcomes,
		"caps_hit":                      r.caps,
		"traces_validated_against_impl": r.evals,
	}
	if r.traces > 0 {
		cov["traces_validated_against_impl"] = r.traces
	}
	if r.states > 0 {
		cov["states"] = r.states
	}
	if r.transitions > 0 {
		cov["transitions"] = r.transitions
	}
	if r.Check.Category == "model_checking" {
		if r.states == 0 {
			cov["states"] = r.evals
		}
		if r.transitions == 0 {
			cov["transitions"] = r.evals
		}
	}
	var secs []*Section
	for _, s := range r.sections {
		secs = append(secs, s)
	}
	sort.Slice(secs, func(i, j int) bool { return secs[i].Name < secs[j].Name })
	if len(secs) > 0 {
		cov["sections"] = secs
	}
	for k, v := range r.extra {
		cov[k] = v
	}
	if len(vioOut) > 0 {
		cov["violation_list"] = vioOut
	}
	if len(knownOut) > 0 {
		cov["known_findings_seen"] = knownOut
	}
	if len(r.harnessErr) > 0 {
		cov["harness_errors"] = r.harnessErr
	}
	if len(r.samples) == 0 {
		cov["samples"] = []any{"(no case executed)"}
	}
	ev := map[string]any{
		"property_id": id, "tier": r.Tier, "seed": r.Seed, "level": r.Check.Category,
		"coverage": cov, "assumptions": r.Check.Assume, "wall_s": wall, "violations": len(sigs),
	}
	os.MkdirAll(filepath.Join(outRoot, "evidence"), 0o755)
	b, _ := json.MarshalIndent(ev, "", " ")
	if err := os.WriteFile(filepath.Join(outRoot, "evidence", id+".json"), b, 0o644); err != nil {
		fmt.Printf("HARNESS-ERROR cannot write evidence: %v\n", err)
		return 2
	}
	fmt.Printf("%s %s: evaluations=%d distinct_nontrivial=%d outcomes=%d states=%d transitions=%d exhaustive=%v wall=%.1fs violations=%d known=%d\n",
		id, r.Tier, r.evals, len(r.distinct), len(r.outcomes), r.states, r.transitions, cov["exhaustive"], wall, len(sigs), len(knownOut))
	if len(r.harnessErr) > 0 {
		for _, e := range r.harnessErr {
			fmt.Printf("HARNESS-ERROR %s\n", e)
		}
		if len(sigs) == 0 {
			return 2
		}
	}
	if len(sigs) > 0 {
		return 1
	}
	if r.evals < 2 || len(r.outcomes) < 1 {
		fmt.Printf("HARNESS-ERROR vacuous run (evaluations=%d)\n", r.evals)
		return 2
	}
	return 0
}
