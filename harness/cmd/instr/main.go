// Command instr generates, from the CURRENT sources of /repo, instrumented
// copies of library files plus a `go build -overlay` description:
//
//	-mode time   verify/ and verify/trust/: imports "time" and "context" are redirected to the
//	             virtual-clock shims; every select has its receive operands hoisted into
//	             vsched.Proxy temporaries preceded by vsched.BeforeWait; bare receives become
//	             vsched.Recv.
//	-mode yield  abi/, verify/, validate/, pcs/: vsched.Point("<pkg>.<func>") becomes the first
//	             statement of every function.
//
// /repo itself is never touched.
package main

import (
	"bytes"
	"encoding/json"
	"flag"
	"fmt"
	"go/ast"
	"go/parser"
	"go/printer"
	"go/token"
	"os"
	"path/filepath"
	"reflect"
	"strconv"
	"strings"
)

var (
	repo = flag.String("repo", "/repo", "repository root")
	out  = flag.String("out", "", "output directory for rewritten files and overlay.json")
	mode = flag.String("mode", "time", "time | yield | time+yield")
)

type report struct {
	Files   []string `json:"files"`
	Selects int      `json:"selects_hoisted"`
	Recvs   int      `json:"receives_rewritten"`
	Points  int      `json:"yield_points"`
	// functions that mention mutable package-level variables: a point before every statement
	StatementLevel []string `json:"statement_level_functions"`
	Unsupported    []string `json:"unsupported"`
}

var rep report

func main() {
	flag.Parse()
	if *out == "" {
		fmt.Fprintln(os.Stderr, "instr: -out required")
		os.Exit(2)
	}
	os.MkdirAll(*out, 0o755)
	overlay := map[string]string{}
	timeDirs := []string{"verify", "verify/trust"}
	yieldDirs := []string{"abi", "verify", "validate", "pcs"}
	doTime := strings.Contains(*mode, "time")
	doYield := strings.Contains(*mode, "yield")
	dirs := map[string][2]bool{}
	if doTime {
		for _, d := range timeDirs {
			v := dirs[d]
			v[0] = true
			dirs[d] = v
		}
	}
	if doYield {
		for _, d := range yieldDirs {
			v := dirs[d]
			v[1] = true
			dirs[d] = v
		}
	}
	for d, what := range dirs {
		files, _ := filepath.Glob(filepath.Join(*repo, d, "*.go"))
		globals := map[string]bool{}
		if what[1] {
			globals = mutableGlobals(files)
		}
		for _, f := range files {
			if strings.HasSuffix(f, "_test.go") {
				continue
			}
			src, err := os.ReadFile(f)
			if err != nil {
				fail(err)
			}
			fset := token.NewFileSet()
			af, err := parser.ParseFile(fset, f, src, parser.ParseComments)
			if err != nil {
				fail(err)
			}
			changed := false
			if what[0] {
				changed = rewriteTime(af, fset) || changed
			}
			if what[1] {
				changed = rewriteYield(af, d, globals) || changed
			}
			if !changed {
				continue
			}
			// keep only compiler directives: other comments would be re-attached at wrong places
			var keep []*ast.CommentGroup
			for _, cg := range af.Comments {
				for _, c := range cg.List {
					if strings.HasPrefix(c.Text, "//go:") {
						keep = append(keep, cg)
						break
					}
				}
			}
			af.Comments = keep
			var buf bytes.Buffer
			if err := printer.Fprint(&buf, fset, af); err != nil {
				fail(err)
			}
			// overlay targets must not look like Go files inside a package directory
			name := strings.ReplaceAll(strings.TrimPrefix(f, *repo+"/"), "/", "__") + ".txt"
			dst := filepath.Join(*out, name)
			if err := os.WriteFile(dst, buf.Bytes(), 0o644); err != nil {
				fail(err)
			}
			overlay[f] = dst
			rep.Files = append(rep.Files, strings.TrimPrefix(f, *repo+"/"))
		}
	}
	ob, _ := json.MarshalIndent(map[string]any{"Replace": overlay}, "", " ")
	if err := os.WriteFile(filepath.Join(*out, "overlay.json"), ob, 0o644); err != nil {
		fail(err)
	}
	rb, _ := json.MarshalIndent(rep, "", " ")
	os.WriteFile(filepath.Join(*out, "report.json"), rb, 0o644)
	fmt.Printf("instr: %d files, %d selects, %d receives, %d yield points, %d unsupported\n", len(rep.Files), rep.Selects, rep.Recvs, rep.Points, len(rep.Unsupported))
}

func fail(err error) {
	fmt.Fprintln(os.Stderr, "instr:", err)
	os.Exit(2)
}

func addImport(af *ast.File, name, path string) {
	for _, im := range af.Imports {
		if p, _ := strconv.Unquote(im.Path.Value); p == path {
			return
		}
	}
	spec := &ast.ImportSpec{Path: &ast.BasicLit{Kind: token.STRING, Value: strconv.Quote(path)}}
	if name != "" {
		spec.Name = ast.NewIdent(name)
	}
	for _, d := range af.Decls {
		if gd, ok := d.(*ast.GenDecl); ok && gd.Tok == token.IMPORT {
			gd.Specs = append(gd.Specs, spec)
			if !gd.Lparen.IsValid() {
				gd.Lparen = gd.Pos()
				gd.Rparen = gd.End()
			}
			af.Imports = append(af.Imports, spec)
			return
		}
	}
	gd := &ast.GenDecl{Tok: token.IMPORT, Specs: []ast.Spec{spec}}
	af.Decls = append([]ast.Decl{gd}, af.Decls...)
	af.Imports = append(af.Imports, spec)
}

// rewriteTime redirects time/context and makes waiting visible.
func rewriteTime(af *ast.File, fset *token.FileSet) bool {
	changed := false
	for _, im := range af.Imports {
		p, _ := strconv.Unquote(im.Path.Value)
		switch p {
		case "time":
			im.Path.Value = strconv.Quote("verifharness/shim/vtime")
			if im.Name == nil {
				im.Name = ast.NewIdent("time")
			}
			changed = true
		case "context":
			im.Path.Value = strconv.Quote("verifharness/shim/vcontext")
			if im.Name == nil {
				im.Name = ast.NewIdent("context")
			}
			changed = true
		}
	}
	n := 0
	used := false
	// 1. selects (before bare receives, so comm-clause receives are not touched by step 2)
	inSelect := map[ast.Node]bool{}
	rewrite(af, func(node ast.Node) ast.Node {
		sel, ok := node.(*ast.SelectStmt)
		if !ok {
			return node
		}
		var pre []ast.Stmt
		var args []ast.Expr
		hasDefault := false
		supported := true
		for _, cl := range sel.Body.List {
			cc := cl.(*ast.CommClause)
			if cc.Comm == nil {
				hasDefault = true
				continue
			}
			var ue *ast.UnaryExpr
			switch c := cc.Comm.(type) {
			case *ast.ExprStmt:
				ue, _ = c.X.(*ast.UnaryExpr)
			case *ast.AssignStmt:
				if len(c.Rhs) == 1 {
					ue, _ = c.Rhs[0].(*ast.UnaryExpr)
				}
			}
			if ue == nil || ue.Op != token.ARROW {
				supported = false
				break
			}
		}
		if !supported {
			rep.Unsupported = append(rep.Unsupported, fmt.Sprintf("%s: select with a send case left untouched", fset.Position(sel.Pos())))
			return node
		}
		for _, cl := range sel.Body.List {
			cc := cl.(*ast.CommClause)
			if cc.Comm == nil {
				continue
			}
			var ue *ast.UnaryExpr
			switch c := cc.Comm.(type) {
			case *ast.ExprStmt:
				ue = c.X.(*ast.UnaryExpr)
			case *ast.AssignStmt:
				ue = c.Rhs[0].(*ast.UnaryExpr)
			}
			inSelect[ue] = true
			n++
			tmp := ast.NewIdent(fmt.Sprintf("_vp%d", n))
			pre = append(pre, &ast.AssignStmt{Lhs: []ast.Expr{tmp}, Tok: token.DEFINE,
				Rhs: []ast.Expr{&ast.CallExpr{Fun: &ast.SelectorExpr{X: ast.NewIdent("vsched"), Sel: ast.NewIdent("Proxy")}, Args: []ast.Expr{ue.X}}}})
			ue.X = ast.NewIdent(tmp.Name)
			args = append(args, ast.NewIdent(tmp.Name))
		}
		hd := "false"
		if hasDefault {
			hd = "true"
		}
		call := &ast.ExprStmt{X: &ast.CallExpr{Fun: &ast.SelectorExpr{X: ast.NewIdent("vsched"), Sel: ast.NewIdent("BeforeWait")},
			Args: append([]ast.Expr{ast.NewIdent(hd)}, args...)}}
		rep.Selects++
		used = true
		return &ast.BlockStmt{List: append(append(pre, call), sel)}
	})
	// 2. bare receives
	rewrite(af, func(node ast.Node) ast.Node {
		ue, ok := node.(*ast.UnaryExpr)
		if !ok || ue.Op != token.ARROW || inSelect[ue] {
			return node
		}
		rep.Recvs++
		used = true
		return &ast.CallExpr{Fun: &ast.SelectorExpr{X: ast.NewIdent("vsched"), Sel: ast.NewIdent("Recv")}, Args: []ast.Expr{ue.X}}
	})
	if used {
		addImport(af, "vsched", "verifharness/shim/vsched")
		changed = true
	}
	return changed
}

// rewriteYield inserts a scheduling point at every function entry.
func rewriteYield(af *ast.File, dir string, globals map[string]bool) bool {
	pkg := filepath.Base(dir)
	n := 0
	for _, d := range af.Decls {
		fd, ok := d.(*ast.FuncDecl)
		if !ok || fd.Body == nil || fd.Name.Name == "init" {
			continue
		}
		name := fd.Name.Name
		if fd.Recv != nil && len(fd.Recv.List) > 0 {
			name = recvName(fd.Recv.List[0].Type) + "." + name
		}
		call := &ast.ExprStmt{X: &ast.CallExpr{Fun: &ast.SelectorExpr{X: ast.NewIdent("vsched"), Sel: ast.NewIdent("Point")},
			Args: []ast.Expr{&ast.BasicLit{Kind: token.STRING, Value: strconv.Quote(pkg + "." + name)}}}}
		// a function that mentions mutable package-level state gets a point before every statement,
		// so that interleavings between its reads and writes of that state are explored
		touches := false
		ast.Inspect(fd.Body, func(nd ast.Node) bool {
			if id, ok := nd.(*ast.Ident); ok && globals[id.Name] {
				touches = true
			}
			return !touches
		})
		if touches {
			k := 0
			ast.Inspect(fd.Body, func(nd ast.Node) bool {
				var list *[]ast.Stmt
				switch b := nd.(type) {
				case *ast.BlockStmt:
					list = &b.List
				case *ast.CaseClause:
					list = &b.Body
				case *ast.CommClause:
					list = &b.Body
				}
				if list != nil && len(*list) > 0 {
					var out []ast.Stmt
					for _, st := range *list {
						if _, isDecl := st.(*ast.LabeledStmt); !isDecl {
							k++
							out = append(out, &ast.ExprStmt{X: &ast.CallExpr{Fun: &ast.SelectorExpr{X: ast.NewIdent("vsched"), Sel: ast.NewIdent("Point")},
								Args: []ast.Expr{&ast.BasicLit{Kind: token.STRING, Value: strconv.Quote(fmt.Sprintf("%s.%s#%d", pkg, name, k))}}}})
						}
						out = append(out, st)
					}
					*list = out
				}
				return true
			})
			n += k
			rep.StatementLevel = append(rep.StatementLevel, pkg+"."+name)
			continue
		}
		fd.Body.List = append([]ast.Stmt{call}, fd.Body.List...)
		n++
	}
	if n > 0 {
		addImport(af, "vsched", "verifharness/shim/vsched")
		rep.Points += n
	}
	return n > 0
}

func recvName(e ast.Expr) string {
	switch t := e.(type) {
	case *ast.StarExpr:
		return recvName(t.X)
	case *ast.Ident:
		return t.Name
	case *ast.IndexExpr:
		return recvName(t.X)
	}
	return "?"
}

var (
	nodeType   = reflect.TypeOf((*ast.Node)(nil)).Elem()
	objectType = reflect.TypeOf((*ast.Object)(nil))
	scopeType  = reflect.TypeOf((*ast.Scope)(nil))
)

// rewrite walks the tree post-order and replaces every node held in an
// interface-typed field or slice element by f(node).
func rewrite(n ast.Node, f func(ast.Node) ast.Node) {
	v := reflect.ValueOf(n)
	if v.Kind() != reflect.Ptr || v.IsNil() {
		return
	}
	walkStruct(v.Elem(), f)
}

func walkStruct(s reflect.Value, f func(ast.Node) ast.Node) {
	if s.Kind() != reflect.Struct {
		return
	}
	for i := 0; i < s.NumField(); i++ {
		fv := s.Field(i)
		if fv.Type() == objectType || fv.Type() == scopeType || !fv.CanSet() {
			continue
		}
		walkValue(fv, f)
	}
}

func walkValue(fv reflect.Value, f func(ast.Node) ast.Node) {
	switch fv.Kind() {
	case reflect.Interface:
		if fv.IsNil() {
			return
		}
		n, ok := fv.Interface().(ast.Node)
		if !ok {
			return
		}
		rewrite(n, f)
		nn := f(n)
		if nn != n {
			nv := reflect.ValueOf(nn)
			if nv.Type().AssignableTo(fv.Type()) || nv.Type().Implements(fv.Type()) {
				fv.Set(nv)
			}
		}
	case reflect.Ptr:
		if fv.IsNil() || !fv.Type().Implements(nodeType) {
			return
		}
		rewrite(fv.Interface().(ast.Node), f)
	case reflect.Slice:
		for i := 0; i < fv.Len(); i++ {
			walkValue(fv.Index(i), f)
		}
	}
}

// mutableGlobals returns the package-level variables of the package that are written somewhere
// outside their declaration and outside init(): assigned, incremented, ranged into, passed as the
// destination of copy/append, address-taken, or used as the receiver of a method call. Variables that
// are only ever read (error sentinels, OIDs, the embedded root parsed in init) are not shared mutable state.
func mutableGlobals(files []string) map[string]bool {
	declared := map[string]bool{}
	var parsed []*ast.File
	for _, f := range files {
		if strings.HasSuffix(f, "_test.go") {
			continue
		}
		af, err := parser.ParseFile(token.NewFileSet(), f, nil, 0)
		if err != nil {
			continue
		}
		parsed = append(parsed, af)
		for _, dcl := range af.Decls {
			if gd, ok := dcl.(*ast.GenDecl); ok && gd.Tok == token.VAR {
				for _, sp := range gd.Specs {
					for _, n := range sp.(*ast.ValueSpec).Names {
						if n.Name != "_" {
							declared[n.Name] = true
						}
					}
				}
			}
		}
	}
	written := map[string]bool{}
	root := func(e ast.Expr) string {
		for {
			switch x := e.(type) {
			case *ast.Ident:
				return x.Name
			case *ast.IndexExpr:
				e = x.X
			case *ast.SliceExpr:
				e = x.X
			case *ast.SelectorExpr:
				e = x.X
			case *ast.StarExpr:
				e = x.X
			case *ast.ParenExpr:
				e = x.X
			default:
				return ""
			}
		}
	}
	mark := func(e ast.Expr) {
		if n := root(e); declared[n] {
			written[n] = true
		}
	}
	for _, af := range parsed {
		for _, dcl := range af.Decls {
			fd, ok := dcl.(*ast.FuncDecl)
			if !ok || fd.Body == nil || (fd.Name.Name == "init" && fd.Recv == nil) {
				continue
			}
			ast.Inspect(fd.Body, func(nd ast.Node) bool {
				switch x := nd.(type) {
				case *ast.AssignStmt:
					if x.Tok != token.DEFINE {
						for _, l := range x.Lhs {
							mark(l)
						}
					}
				case *ast.IncDecStmt:
					mark(x.X)
				case *ast.RangeStmt:
					if x.Tok == token.ASSIGN {
						if x.Key != nil {
							mark(x.Key)
						}
						if x.Value != nil {
							mark(x.Value)
						}
					}
				case *ast.UnaryExpr:
					if x.Op == token.AND {
						mark(x.X)
					}
				case *ast.CallExpr:
					if id, ok := x.Fun.(*ast.Ident); ok && (id.Name == "append" || id.Name == "copy") && len(x.Args) > 0 {
						mark(x.Args[0])
					}
					if sel, ok := x.Fun.(*ast.SelectorExpr); ok {
						if id, ok := sel.X.(*ast.Ident); ok && declared[id.Name] {
							written[id.Name] = true // method call on a package-level variable may mutate it
						}
					}
				}
				return true
			})
		}
	}
	return written
}
