// Command verif runs one property check: verif <id> <quick|thorough> | verif <id> --replay <file>.
package main

import (
	"fmt"
	"os"
	"runtime/pprof"
	"syscall"

	"verifharness/checks"
	"verifharness/mc"
	"verifharness/world"
)

func main() {
	if len(os.Args) < 3 {
		fmt.Println("usage: verif <id> <quick|thorough> | verif <id> --replay <file>")
		os.Exit(2)
	}
	world.Quiet()
	// The library's logger captured os.Stdout at package init; point fd 1 at /dev/null and keep
	// the real stdout for the check's own verdict lines.
	if nfd, err := syscall.Dup(1); err == nil {
		if dn, err := os.OpenFile(os.DevNull, os.O_WRONLY, 0); err == nil {
			syscall.Dup2(int(dn.Fd()), 1)
			os.Stdout = os.NewFile(uintptr(nfd), "/dev/stdout")
		}
	}
	if pf := os.Getenv("VERIF_CPUPROFILE"); pf != "" {
		f, _ := os.Create(pf)
		pprof.StartCPUProfile(f)
		defer pprof.StopCPUProfile()
	}
	id := os.Args[1]
	if id == "C16race" {
		// free-running bodies for the -race build; the race detector reports on stderr
		reps := 20
		fmt.Sscan(os.Args[2], &reps)
		checks.RaceBodies(reps)
		return
	}
	if os.Args[2] == "--replay" {
		if len(os.Args) < 4 {
			fmt.Println("HARNESS-ERROR --replay needs a file")
			os.Exit(2)
		}
		code := mc.Main(id, "quick", os.Args[3])
		pprof.StopCPUProfile()
		os.Exit(code)
	}
	tier := os.Args[2]
	if t := os.Getenv("VERIF_TIER"); t != "" && tier == "" {
		tier = t
	}
	if tier != "quick" && tier != "thorough" {
		fmt.Println("HARNESS-ERROR tier must be quick or thorough")
		os.Exit(2)
	}
	code := mc.Main(id, tier, "")
	pprof.StopCPUProfile()
	os.Exit(code)
}
