module verifharness

go 1.20

require (
	github.com/google/go-tdx-guest v0.0.0
	github.com/google/logger v1.1.1
	google.golang.org/protobuf v1.34.2
)

require (
	go.uber.org/multierr v1.11.0 // indirect
	golang.org/x/crypto v0.17.0 // indirect
)

replace github.com/google/go-tdx-guest => /repo
